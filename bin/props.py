# props.py — registry: for every property, its correspondence kinds (generator, oracle, comparison).
# The definitions live in bin/propdefs/*.py, one module per property (or family); each does
#   from props import PROPS, budget ;  PROPS["Cxx"] = dict(kinds=[...], rule=..., assumptions=[...], trusted=[...])
import importlib
import os
import sys

HERE = os.path.dirname(os.path.abspath(__file__))
sys.path.insert(0, HERE)
sys.path.insert(0, os.path.join(HERE, "propdefs"))

PROPS = {}


def budget(tier, quick, thorough):
    return thorough if tier == "thorough" else quick


def load_all():
    for fn in sorted(os.listdir(os.path.join(HERE, "propdefs"))):
        if fn.endswith(".py") and not fn.startswith("_"):
            importlib.import_module(fn[:-3])
