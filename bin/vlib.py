# vlib.py — framework shared by all property checks (python3 stdlib only).
import fcntl
import hashlib
import json
import os
import re
import shutil
import subprocess
import sys
import time

ROOT = os.path.dirname(os.path.dirname(os.path.abspath(__file__)))
REPO = os.environ.get("VERIF_REPO", "/repo")
BUILD = os.path.join(ROOT, "build")
COQ = os.path.join(ROOT, "coq")
HARNESS = os.path.join(ROOT, "harness")

GOENV = dict(os.environ, GOFLAGS="-mod=mod", GOPROXY="off", GOSUMDB="off", GOTOOLCHAIN="local",
             CGO_ENABLED=os.environ.get("CGO_ENABLED", "0"))

FORBIDDEN = re.compile(r"\b(Admitted|admit|Axiom|Axioms|Parameter|Parameters|Conjecture|Conjectures|"
                       r"Unset\s+Guard|bypass_check|type-in-type|Admit\s+Obligations|"
                       r"Unset\s+Positivity|Unset\s+Universe)\b")
# axioms of the standard library that a proof may rely on (each must be named in DESIGN.md §6)
AXIOM_ALLOW = set()

TRUSTED_BASE = [
    "Coq 8.16.1 kernel (coqc; coqchk re-check in the thorough tier); no native_compute",
    "no axioms: Print Assumptions under every property theorem must say 'Closed under the global context'",
    "extraction: ExtrOcamlBasic only (bool, option, unit, list, prod, sumbool, sumor, comparison; "
    "inlined fst/snd/andb/orb/negb); N/Z/positive/nat stay inductive; OCaml 4.13.1; hand-written ocaml/driver.ml",
    "Go harness (drivers, fake peers, canonical printers), verif-tagged hooks in /repo, bin/check generators",
    "hand-written Gallina model tied to /repo by differential execution on every run (not a translation)",
]


def log(*a):
    print(*a, file=sys.stderr, flush=True)


def sh(cmd, cwd=None, env=None, timeout=1800, inp=None):
    p = subprocess.run(cmd, cwd=cwd, env=env, timeout=timeout, input=inp,
                       stdout=subprocess.PIPE, stderr=subprocess.STDOUT, text=True)
    return p.returncode, p.stdout


def file_hash(path):
    h = hashlib.sha256()
    with open(path, "rb") as f:
        h.update(f.read())
    return h.hexdigest()


class BuildError(Exception):
    def __init__(self, stage, output):
        super().__init__(stage)
        self.stage = stage
        self.output = output


def coq_files():
    with open(os.path.join(COQ, "_CoqProject")) as f:
        return [l.strip() for l in f if l.strip().endswith(".v")]


def grep_gate():
    """Forbidden vernacular anywhere in the development (comments stripped)."""
    bad = []
    for rel in coq_files():
        p = os.path.join(COQ, rel)
        if not os.path.exists(p):
            continue
        src = open(p).read()
        src = strip_comments(src)
        for i, line in enumerate(src.split("\n"), 1):
            if FORBIDDEN.search(line):
                bad.append("%s:%d: %s" % (rel, i, line.strip()))
    return bad


def strip_comments(src):
    out = []
    depth = 0
    i = 0
    n = len(src)
    while i < n:
        if src.startswith("(*", i):
            depth += 1
            i += 2
        elif src.startswith("*)", i) and depth > 0:
            depth -= 1
            i += 2
        else:
            if depth == 0:
                out.append(src[i])
            elif src[i] == "\n":
                out.append("\n")
            i += 1
    return "".join(out)


def gen_params():
    """Regenerate coq/Params.v from /repo's current source (constants dumped by a verif-tagged program)."""
    dst = os.path.join(COQ, "Params.v")
    rc, out = sh(["go", "run", "-tags", "verif", "./cmd/paramsdump"], cwd=HARNESS, env=GOENV, timeout=600)
    if rc != 0:
        raise BuildError("params", out)
    old = open(dst).read() if os.path.exists(dst) else None
    if old != out:
        with open(dst, "w") as f:
            f.write(out)


def build_all(need_binary=False, race=False):
    """Rebuild everything from the current working tree of /repo. Serialised by a lock."""
    os.makedirs(BUILD, exist_ok=True)
    lock = open(os.path.join(BUILD, ".lock"), "w")
    fcntl.flock(lock, fcntl.LOCK_EX)
    t0 = time.time()
    try:
        # Go harness first (Params.v generation needs it)
        gosum_src = os.path.join(REPO, "go.sum")
        gosum_dst = os.path.join(HARNESS, "go.sum")
        if not os.path.exists(gosum_dst) or open(gosum_src).read() != open(gosum_dst).read():
            shutil.copy(gosum_src, gosum_dst)
        rc, out = sh(["go", "build", "-tags", "verif", "-o", os.path.join(BUILD, "implrun"), "./cmd/implrun"],
                     cwd=HARNESS, env=GOENV, timeout=900)
        if rc != 0:
            raise BuildError("go-harness", out)
        if need_binary:
            rc, out = sh(["go", "build", "-tags", "verif", "-o", os.path.join(BUILD, "mosproxy"), "./cmd/mosproxy"],
                         cwd=HARNESS, env=GOENV, timeout=900)
            if rc != 0:
                raise BuildError("go-binary", out)
        if race:
            env = dict(GOENV, CGO_ENABLED="1")
            rc, out = sh(["go", "build", "-race", "-tags", "verif", "-o", os.path.join(BUILD, "implrun-race"),
                          "./cmd/implrun"], cwd=HARNESS, env=env, timeout=1800)
            if rc != 0:
                raise BuildError("go-harness-race", out)
        if os.path.isdir(os.path.join(HARNESS, "cmd", "paramsdump")):
            gen_params()
        # Coq
        if not os.path.exists(os.path.join(COQ, "Makefile")):
            rc, out = sh(["coq_makefile", "-f", "_CoqProject", "-o", "Makefile"], cwd=COQ)
            if rc != 0:
                raise BuildError("coq_makefile", out)
        rc, out = sh(["timeout", "1500", "make", "-j16"], cwd=COQ, timeout=1600)
        if rc != 0:
            raise BuildError("coq", out)
        # OCaml model runner
        odir = os.path.join(BUILD, "ocaml")
        os.makedirs(odir, exist_ok=True)
        srcs = [(os.path.join(COQ, "model.ml"), "model.ml"), (os.path.join(COQ, "model.mli"), "model.mli"),
                (os.path.join(ROOT, "ocaml", "driver.ml"), "driver.ml")]
        changed = not os.path.exists(os.path.join(BUILD, "modelrun"))
        for src, name in srcs:
            d = os.path.join(odir, name)
            if not os.path.exists(d) or file_hash(d) != file_hash(src):
                shutil.copy(src, d)
                changed = True
        if changed:
            rc, out = sh(["ocamlfind", "ocamlopt", "-O2", "-w", "-a", "model.mli", "model.ml", "driver.ml",
                          "-o", os.path.join(BUILD, "modelrun")], cwd=odir, timeout=900)
            if rc != 0:
                rc, out = sh(["ocamlfind", "ocamlopt", "-w", "-a", "model.mli", "model.ml", "driver.ml",
                              "-o", os.path.join(BUILD, "modelrun")], cwd=odir, timeout=900)
            if rc != 0:
                raise BuildError("ocaml", out)
    finally:
        fcntl.flock(lock, fcntl.LOCK_UN)
        lock.close()
    return time.time() - t0


def proof_obligations(pid):
    """Compile Props/<pid>.v on its own and read back what the kernel accepted.
    Returns dict(obligations, discharged, theorems, axioms, examples, ok, output)."""
    rel = "Props/%s.v" % pid
    path = os.path.join(COQ, rel)
    src = strip_comments(open(path).read())
    theorems = re.findall(r"^\s*Theorem\s+(\w+)", src, re.M)
    examples = re.findall(r"^\s*Example\s+(\w+)", src, re.M)
    rc, out = sh(["timeout", "600", "coqc", "-Q", ".", "Mos", rel], cwd=COQ, timeout=700)
    closed = len(re.findall(r"Closed under the global context", out))
    axioms = []
    for m in re.finditer(r"Axioms:\n((?:.+\n?)+?)(?=\n\S|\Z)", out):
        for l in m.group(1).split("\n"):
            mm = re.match(r"^(\S+)\s*:", l)
            if mm:
                axioms.append(mm.group(1))
    bad_axioms = [a for a in axioms if a not in AXIOM_ALLOW]
    n_print = len(re.findall(r"Print\s+Assumptions", src))
    ok = (rc == 0 and not bad_axioms and n_print >= len(theorems) and
          closed + len(re.findall(r"Axioms:", out)) >= len(theorems))
    return dict(obligations=len(theorems), discharged=len(theorems) if ok else 0, theorems=theorems,
                examples=examples, axioms=sorted(set(axioms)), ok=ok, rc=rc, output=out[-4000:])


def run_cases(binary, kind, lines, timeout=1200, env=None, shards=1):
    """Feed case lines to a runner, return ({id: result}, begun_ids, rc, raw_tail)."""
    if shards > 1 and len(lines) > 4 * shards:
        from concurrent.futures import ThreadPoolExecutor
        parts = [lines[i::shards] for i in range(shards)]
        with ThreadPoolExecutor(shards) as ex:
            rs = list(ex.map(lambda p: run_cases(binary, kind, p, timeout, env, 1), parts))
        res, begun, rc, tail = {}, [], 0, ""
        for r in rs:
            res.update(r[0])
            begun += r[1]
            rc = rc or r[2]
            tail += r[3]
        return res, begun, rc, tail[-3000:]
    inp = "\n".join(lines) + "\n"
    try:
        p = subprocess.run([binary, kind], input=inp, stdout=subprocess.PIPE, stderr=subprocess.PIPE,
                           text=True, timeout=timeout, env=env)
        rc, so, se = p.returncode, p.stdout, p.stderr
    except subprocess.TimeoutExpired as e:
        rc = 124
        so = e.stdout.decode() if isinstance(e.stdout, bytes) else (e.stdout or "")
        se = e.stderr.decode() if isinstance(e.stderr, bytes) else (e.stderr or "")
    res = {}
    begun = []
    for l in so.split("\n"):
        if l.startswith("R "):
            parts = l.split(" ", 2)
            res[parts[1]] = parts[2] if len(parts) > 2 else ""
        elif l.startswith("B "):
            begun.append(l[2:].strip())
    return res, begun, rc, (se or "")[-3000:]


def load_known():
    """known_findings.txt: 'known: property=Cxx key=<regex> <text>' / 'fixed: property=Cxx <commit> <text>'."""
    known = []
    p = os.path.join(ROOT, "known_findings.txt")
    if os.path.exists(p):
        for l in open(p):
            l = l.strip()
            m = re.match(r"^known:\s+property=(\S+)\s+key=(\S+)\s+(.*)$", l)
            if m:
                known.append(dict(pid=m.group(1), key=re.compile(m.group(2)), text=m.group(3)))
    return known


def write_evidence(pid, ev):
    os.makedirs(os.path.join(ROOT, "evidence"), exist_ok=True)
    p = os.path.join(ROOT, "evidence", "%s.json" % pid)
    tmp = p + ".tmp%d" % os.getpid()
    with open(tmp, "w") as f:
        json.dump(ev, f, indent=1, sort_keys=True)
        f.write("\n")
    os.replace(tmp, p)
