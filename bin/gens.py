# gens.py — structured generators (all randomness from the rng passed in, derived from VERIF_SEED).
import binascii


def hx(b):
    return binascii.hexlify(bytes(b)).decode() if len(b) else "-"


def unhx(s):
    return b"" if s in ("-", "") else binascii.unhexlify(s)


def fields(line):
    d = {}
    for p in line.split():
        if "=" in p:
            k, v = p.split("=", 1)
            d[k] = v
    return d


LABEL_CHARS = b"abcdefghijklmnopqrstuvwxyz0123456789-"


def rand_label(rng, maxlen=12, exotic=0.1):
    r = rng.random()
    if r < 0.02:
        n = 63
    elif r < 0.04:
        n = rng.choice([24, 25, 62])
    else:
        n = rng.randint(1, maxlen)
    if rng.random() < exotic:
        return bytes(rng.randrange(256) for _ in range(n))
    if rng.random() < 0.15:
        return bytes(rng.choice(b"ABCDEFGHIJKLMNOPQRSTUVWXYZabcxyz019-_") for _ in range(n))
    return bytes(rng.choice(LABEL_CHARS) for _ in range(n))


def rand_labels(rng, maxlabels=5, exotic=0.1):
    k = rng.choice([0, 1, 1, 2, 2, 2, 3, 3, 4, maxlabels])
    ls = []
    total = 0
    for _ in range(k):
        l = rand_label(rng, exotic=exotic)
        if total + 1 + len(l) > 253:
            break
        ls.append(l)
        total += 1 + len(l)
    return ls


def raw_name(labels):
    out = b""
    for l in labels:
        out += bytes([len(l)]) + l
    return out


def rand_name(rng, exotic=0.1):
    """raw wire name without the terminating zero (Go's dnsmsg.Name)"""
    return raw_name(rand_labels(rng, exotic=exotic))
