# gens.py — structured generators (all randomness from the rng passed in, derived from VERIF_SEED).
import binascii


def hx(b):
    return binascii.hexlify(bytes(b)).decode() if len(b) else "-"


def unhx(s):
    return b"" if s in ("-", "") else binascii.unhexlify(s)


def fields(line):
    d = {}
    for p in line.split():
        if "=" in p:
            k, v = p.split("=", 1)
            d[k] = v
    return d


LABEL_CHARS = b"abcdefghijklmnopqrstuvwxyz0123456789-"


def rand_label(rng, maxlen=12, exotic=0.1):
    r = rng.random()
    if r < 0.02:
        n = 63
    elif r < 0.04:
        n = rng.choice([24, 25, 62])
    else:
        n = rng.randint(1, maxlen)
    if rng.random() < exotic:
        if n >= 2 and rng.random() < 0.3:
            # label data that looks like a compression pointer to a small offset (a cycle hidden in label data)
            return (bytes([0xC0, rng.randrange(12, 40)]) * n)[:n]
        return bytes(rng.randrange(256) for _ in range(n))
    if rng.random() < 0.15:
        return bytes(rng.choice(b"ABCDEFGHIJKLMNOPQRSTUVWXYZabcxyz019-_") for _ in range(n))
    return bytes(rng.choice(LABEL_CHARS) for _ in range(n))


def rand_labels(rng, maxlabels=5, exotic=0.1):
    k = rng.choice([0, 1, 1, 2, 2, 2, 3, 3, 4, maxlabels])
    ls = []
    total = 0
    for _ in range(k):
        l = rand_label(rng, exotic=exotic)
        if total + 1 + len(l) > 253:
            break
        ls.append(l)
        total += 1 + len(l)
    return ls


def raw_name(labels):
    out = b""
    for l in labels:
        out += bytes([len(l)]) + l
    return out


def rand_name(rng, exotic=0.1):
    """raw wire name without the terminating zero (Go's dnsmsg.Name)"""
    return raw_name(rand_labels(rng, exotic=exotic))


# ---------------------------------------------------------------- DNS message generator
import struct

T_A, T_NS, T_CNAME, T_SOA, T_PTR, T_MX, T_TXT, T_AAAA, T_SRV, T_OPT = 1, 2, 5, 6, 12, 15, 16, 28, 33, 41
RR_TYPES = [T_A, T_AAAA, T_NS, T_CNAME, T_PTR, T_MX, T_SOA, T_SRV, T_TXT, T_OPT, 99, 65280]


class Enc:
    """wire writer with optional (incoming) compression pointers"""

    def __init__(self, rng, ptr_prob=0.0, wild=0.0):
        self.b = bytearray()
        self.rng = rng
        self.ptr_prob = ptr_prob
        self.wild = wild          # probability of a pointer to an ARBITRARY earlier offset (label data, RDATA, header)
        self.offs = {}

    def name(self, labels, allow_ptr=True):
        for i in range(len(labels)):
            if self.wild and len(self.b) > 12 and self.rng.random() < self.wild:
                p = self.rng.randrange(0, len(self.b))
                self.b += bytes([0xC0 | (p >> 8), p & 0xFF])
                return
            suf = tuple(labels[i:])
            if allow_ptr and suf in self.offs and self.rng.random() < self.ptr_prob:
                p = self.offs[suf]
                self.b += bytes([0xC0 | (p >> 8), p & 0xFF])
                return
            if len(self.b) < 0x4000 and suf not in self.offs:
                self.offs[suf] = len(self.b)
            self.b += bytes([len(labels[i])]) + labels[i]
        self.b.append(0)

    def u16(self, v):
        self.b += struct.pack(">H", v & 0xFFFF)

    def u32(self, v):
        self.b += struct.pack(">I", v & 0xFFFFFFFF)


class NamePool:
    def __init__(self, rng, exotic=0.08):
        self.rng = rng
        base = [rand_labels(rng, exotic=exotic) for _ in range(3)]
        self.names = list(base)
        for _ in range(4):
            b = rng.choice(base)
            # children / parents / siblings so that suffixes are shared
            k = rng.random()
            if k < 0.5:
                n = [rand_label(rng, exotic=exotic)] + b
            elif k < 0.7 and len(b) > 1:
                n = b[1:]
            else:
                n = [rand_label(rng, exotic=exotic)] + b[-1:]
            if len(raw_name(n)) <= 253:
                self.names.append(n)

    def pick(self):
        if self.rng.random() < 0.1:
            n = rand_labels(self.rng)
            return n
        return self.rng.choice(self.names)


def rand_ttl(rng):
    return rng.choice([0, 1, 5, 30, 60, 300, 3600, 86400, 2 ** 31 - 1, 2 ** 31, 2 ** 32 - 1, rng.randrange(2 ** 32)])


def put_rr(e, rng, pool, typ=None, rdlen_lie=0, big=False):
    if typ is None:
        typ = rng.choice(RR_TYPES)
    owner = [] if typ == T_OPT and rng.random() < 0.9 else pool.pick()
    e.name(owner)
    e.u16(typ)
    e.u16(rng.choice([1, 1, 1, 3, 255, 1232, 4096, rng.randrange(65536)]) if typ == T_OPT or rng.random() < 0.1 else 1)
    e.u32(rand_ttl(rng))
    lenpos = len(e.b)
    e.u16(0)
    start = len(e.b)
    if typ == T_A:
        e.b += bytes(rng.randrange(256) for _ in range(4))
    elif typ == T_AAAA:
        e.b += bytes(rng.randrange(256) for _ in range(16))
    elif typ in (T_NS, T_CNAME, T_PTR):
        e.name(pool.pick())
    elif typ == T_MX:
        e.u16(rng.randrange(65536))
        e.name(pool.pick())
    elif typ == T_SOA:
        e.name(pool.pick())
        e.name(pool.pick())
        for _ in range(5):
            e.u32(rng.choice([0, 1, 3600, 2 ** 32 - 1, rng.randrange(2 ** 32)]))
    elif typ == T_SRV:
        e.u16(rng.randrange(65536))
        e.u16(rng.randrange(65536))
        e.u16(rng.randrange(65536))
        e.name(pool.pick(), allow_ptr=rng.random() < 0.5)
    elif typ == T_OPT:
        nopt = rng.choice([0, 0, 1, 2])
        for _ in range(nopt):
            code = rng.choice([8, 10, 12, 3, rng.randrange(65536)])
            ln = rng.choice([0, 4, 7, 8, 11, 24])
            e.u16(code)
            e.u16(ln)
            e.b += bytes(rng.randrange(256) for _ in range(ln))
    else:
        n = rng.choice([0, 0, 1, 3, 17, 255, 256, 300]) if not big else rng.choice([1000, 4000, 20000])
        e.b += bytes(rng.randrange(256) for _ in range(n))
    l = len(e.b) - start + rdlen_lie
    struct.pack_into(">H", e.b, lenpos, max(0, l) & 0xFFFF)


def gen_msg(rng, ptr_prob=None, max_rr=6, counts_lie=False, rdlen_lie=False, big=False, response=None,
            one_question=False, opt=None, types=None):
    """a structured, mostly valid message; returns bytes"""
    if ptr_prob is None:
        ptr_prob = rng.choice([0.0, 0.0, 0.5, 0.9])
    e = Enc(rng, ptr_prob, wild=rng.choice([0.0, 0.0, 0.0, 0.15, 0.5]))
    pool = NamePool(rng)
    ident = rng.randrange(65536)
    bits = 0
    resp = rng.random() < 0.7 if response is None else response
    if resp:
        bits |= 0x8000
    r = rng.random()
    if r < 0.85:
        opcode = 0
    else:
        opcode = rng.randrange(16)
    bits |= opcode << 11
    for bit in (0x400, 0x200, 0x100, 0x80, 0x40, 0x20, 0x10):
        p = {0x100: 0.8, 0x80: 0.6, 0x200: 0.08, 0x40: 0.05}.get(bit, 0.2)
        if rng.random() < p:
            bits |= bit
    bits |= rng.choice([0, 0, 0, 0, 2, 3, 3, 5, rng.randrange(16)])
    nq = 1 if one_question else rng.choice([1, 1, 1, 1, 1, 1, 0, 2, 3])
    secs = [rng.choice([0, 1, 1, 2, 3, max_rr]), rng.choice([0, 0, 1, 2]), rng.choice([0, 0, 1, 2])]
    e.u16(ident)
    e.u16(bits)
    e.u16(nq)
    for s in secs:
        e.u16(s)
    for _ in range(nq):
        e.name(pool.pick())
        e.u16(rng.choice([1, 28, 15, 16, 255, rng.randrange(65536)]))
        e.u16(rng.choice([1, 1, 1, 3, 255, rng.randrange(65536)]))
    opt_placed = False
    for si, s in enumerate(secs):
        for k in range(s):
            typ = None
            if types:
                typ = rng.choice(types)
            if si == 2 and opt is True and not opt_placed and (k == s - 1 or rng.random() < 0.4):
                typ = T_OPT
                opt_placed = True
            elif opt is False or (opt is True and (si != 2 or opt_placed)):
                while typ is None or typ == T_OPT:
                    typ = rng.choice(RR_TYPES)
            put_rr(e, rng, pool, typ=typ, rdlen_lie=(rng.choice([-1, 1, 2]) if rdlen_lie and rng.random() < 0.5 else 0),
                   big=big and rng.random() < 0.3)
    b = bytearray(e.b)
    if opt is True and not opt_placed:
        # append an OPT record and bump ARCOUNT
        e2 = Enc(rng, 0.0)
        put_rr(e2, rng, pool, typ=T_OPT)
        b += e2.b
        struct.pack_into(">H", b, 10, secs[2] + 1)
    if counts_lie:
        pos = rng.choice([4, 6, 8, 10])
        v = struct.unpack_from(">H", b, pos)[0]
        struct.pack_into(">H", b, pos, max(0, v + rng.choice([-1, 1, 2, 200, 65535 - v])) & 0xFFFF)
    if rng.random() < 0.05:
        b += bytes(rng.randrange(256) for _ in range(rng.randint(1, 8)))  # trailing bytes
    return bytes(b)


def hdr(ident=1, bits=0x0100, qd=0, an=0, ns=0, ar=0):
    return struct.pack(">HHHHHH", ident, bits, qd, an, ns, ar)


def boundary_msgs(rng):
    """hand-built boundary catalogue for the decoder (C01) — returns list of (tag, bytes)"""
    out = []
    q_tail = struct.pack(">HH", 1, 1)
    # label 63 / 64
    for n in (62, 63, 64, 65, 127, 128, 191, 192):
        out.append(("label%d" % n, hdr(qd=1) + bytes([n]) + b"a" * (n & 0x3F if n >= 64 else n) + b"\0" + q_tail))
    # name 253/254/255/256 octets (raw length incl. length octets, without terminator)
    for total in (250, 252, 253, 254, 255, 256, 257):
        labels = []
        left = total
        while left > 0:
            l = min(63, left - 1)
            if l <= 0:
                break
            labels.append(b"x" * l)
            left -= l + 1
        out.append(("name%d" % total, hdr(qd=1) + raw_name(labels) + b"\0" + q_tail))
    # pointer chains of k hops ending in a real name at offset 12
    for hops in (1, 2, 9, 10, 11, 12, 126, 127, 128, 129):
        b = bytearray(hdr(qd=1, an=1))
        b += b"\x03abc\x00" + q_tail            # question at 12
        # chain: pointer k at position p_k -> p_{k-1} ... -> 12
        chain_start = len(b)
        # answer owner = pointer to the end of a pointer chain stored in the RDATA of a preceding TXT-like blob
        # simpler: put the chain inside the owner-name region of extra raw records in "additional" data after the message
        tail = bytearray()
        base = None
        # the chain lives after the answer record; compute answer record size first
        ans_owner_ptr_pos = len(b)
        b += b"\xC0\x00"                        # placeholder pointer
        b += struct.pack(">HHIH", 1, 1, 60, 4) + b"\x01\x02\x03\x04"
        pos = len(b)
        target = 12
        for h in range(hops - 1):
            b += bytes([0xC0 | (target >> 8), target & 0xFF])
            target = pos
            pos += 2
        b[ans_owner_ptr_pos] = 0xC0 | (target >> 8)
        b[ans_owner_ptr_pos + 1] = target & 0xFF
        out.append(("hops%d" % hops, bytes(b)))
    # self pointer, forward pointer, pointer to len, pointer at last octet
    out.append(("selfptr", hdr(qd=1) + b"\xC0\x0C" + q_tail))
    out.append(("ptrloop2", hdr(qd=1) + b"\xC0\x0E\xC0\x0C" + q_tail))
    out.append(("fwdptr", hdr(qd=1) + b"\xC0\x12" + q_tail + b"\x01a\x00"))
    out.append(("ptr_to_len", hdr(qd=1) + b"\xC0\x12" + q_tail))
    out.append(("ptr_last_octet", hdr(qd=1) + b"\x01a\xC0"))
    out.append(("ptr_beyond", hdr(qd=1) + b"\xFF\xFF" + q_tail))
    out.append(("label_then_loop", hdr(qd=1) + b"\x01a\xC0\x0C" + q_tail))
    # pointer cycles hidden in bytes the decoder does not read as pointers the first time (label data, RDATA, header),
    # reached from a LATER name: second question, RR owner, name inside RDATA
    hid1 = b"\x02\xC0\x0D\x00" + q_tail                      # off 12: label {C0 0D}; offset 13 holds C0 0D -> 13
    out.append(("hidcycle_q2", hdr(qd=2) + hid1 + b"\xC0\x0D" + q_tail))
    out.append(("hidcycle_owner", hdr(qd=1, an=1) + hid1 + b"\xC0\x0D" + struct.pack(">HHIH", 1, 1, 60, 4) + b"\1\2\3\4"))
    out.append(("hidcycle_rdata", hdr(qd=1, an=1) + hid1 + b"\x01a\x00" + struct.pack(">HHIH", 2, 1, 60, 2) + b"\xC0\x0D"))
    hid2 = b"\x04\xC0\x0F\xC0\x0D\x00" + q_tail              # 13: C0 0F -> 15: C0 0D -> 13 (2-cycle in label data)
    out.append(("hidcycle2_q2", hdr(qd=2) + hid2 + b"\xC0\x0D" + q_tail))
    out.append(("hidcycle_hdr", struct.pack(">HHHHHH", 0xC000, 0x0100, 1, 0, 0, 0) + b"\xC0\x00" + q_tail))   # ID = C0 00 -> 0
    raw = b"\x01a\x00" + struct.pack(">HHIH", 16, 1, 60, 4) + b"\xC0\x17\xC0\x17"     # TXT rdata at 23 holds C0 17 -> 23
    out.append(("hidcycle_txt", hdr(an=2) + raw + b"\xC0\x17" + struct.pack(">HHIH", 1, 1, 60, 4) + b"\1\2\3\4"))
    for pre in (0x40, 0x80, 0x7F, 0xBF):
        out.append(("reserved%02x" % pre, hdr(qd=1) + bytes([pre]) + b"a" * 70 + b"\0" + q_tail))
    # RDLENGTH boundaries for A / AAAA
    for typ, good in ((1, 4), (28, 16)):
        for ln in (0, good - 1, good, good + 1):
            body = bytes(range(ln))
            out.append(("rdlen_t%d_%d" % (typ, ln), hdr(qd=0, an=1) + b"\x01a\x00" + struct.pack(">HHIH", typ, 1, 5, ln) + body))
            out.append(("rdlen_t%d_%d_short" % (typ, ln), hdr(qd=0, an=1) + b"\x01a\x00" + struct.pack(">HHIH", typ, 1, 5, ln) + body[:-1]))
    # typed rdata whose RDLENGTH != consumed
    for ln in (3, 4, 5, 6):
        out.append(("ns_rdlen%d" % ln, hdr(an=1) + b"\x01a\x00" + struct.pack(">HHIH", 2, 1, 5, ln) + b"\x02bc\x00"))
    out.append(("mx_ok", hdr(an=1) + b"\x01a\x00" + struct.pack(">HHIH", 15, 1, 5, 6) + b"\x00\x0a\x02bc\x00"))
    out.append(("mx_short", hdr(an=1) + b"\x01a\x00" + struct.pack(">HHIH", 15, 1, 5, 1) + b"\x00"))
    out.append(("srv_ok", hdr(an=1) + b"\x01a\x00" + struct.pack(">HHIH", 33, 1, 5, 10) + b"\0\1\0\2\0\3\x02bc\x00"))
    out.append(("soa_ok", hdr(an=1) + b"\x01a\x00" + struct.pack(">HHIH", 6, 1, 5, 26) + b"\x01n\x00\x01m\x00" + b"\0\0\0\1" * 5))
    out.append(("soa_short", hdr(an=1) + b"\x01a\x00" + struct.pack(">HHIH", 6, 1, 5, 26) + b"\x01n\x00\x01m\x00" + b"\0\0\0\1" * 4))
    out.append(("raw_empty", hdr(an=1) + b"\x01a\x00" + struct.pack(">HHIH", 16, 1, 5, 0)))
    out.append(("raw_len_beyond", hdr(an=1) + b"\x01a\x00" + struct.pack(">HHIH", 16, 1, 5, 65535) + b"abc"))
    out.append(("opt", hdr(ar=1) + b"\x00" + struct.pack(">HHIH", 41, 1232, 0x00008000, 0)))
    # truncated at each header field
    full = hdr(qd=1, an=1) + b"\x03abc\x00" + q_tail + b"\xC0\x0C" + struct.pack(">HHIH", 1, 1, 60, 4) + b"\1\2\3\4"
    for i in range(len(full) + 1):
        out.append(("trunc%d" % i, full[:i]))
    # counts > records
    out.append(("counts_gt", hdr(qd=2, an=3) + b"\x03abc\x00" + q_tail))
    out.append(("counts_max", hdr(qd=65535, an=65535, ns=65535, ar=65535)))
    out.append(("empty", b""))
    out.append(("hdr_only", hdr()))
    return out


def deep_chain_msg(n=12):
    """n owner names each extending the previous by one label (uncompressed): compressing it needs n-1 hops"""
    b = bytearray(hdr(bits=0x8180, an=n))
    labels = []
    for i in range(n):
        labels = [bytes([97 + i])] + labels
        b += raw_name(labels) + b"\0" + struct.pack(">HHIH", 1, 1, 60, 4) + bytes([10, 0, 0, i])
    return bytes(b)


def mutate(rng, b):
    b = bytearray(b)
    r = rng.random()
    if r < 0.3 and len(b) > 0:
        return bytes(b[:rng.randrange(len(b) + 1)])
    if r < 0.8 and len(b) > 0:
        for _ in range(rng.choice([1, 1, 2, 4])):
            i = rng.randrange(len(b))
            b[i] = rng.choice([0, 0xC0, 0xFF, 0x3F, 0x40, b[i] ^ (1 << rng.randrange(8)), rng.randrange(256)])
        return bytes(b)
    if r < 0.9:
        i = rng.randrange(len(b) + 1)
        return bytes(b[:i]) + bytes(rng.randrange(256) for _ in range(rng.randint(1, 6))) + bytes(b[i:])
    return bytes(rng.randrange(256) for _ in range(rng.choice([0, 1, 11, 12, 13, 40, 200])))
