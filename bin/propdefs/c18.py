import gens
from props import PROPS, budget

# ---------------------------------------------------------------- C18: shutdown and failed start-up are orderly


# ---------------- kind closerace: scripts of external events against the real reuse / pipeline transport
def _script(rng, tr, dm, maxs, with_idle):
    """Mostly-valid random script; a light tracker keeps the events plausible (invalid ones are skipped on
    both sides, which is itself compared)."""
    ev = []
    ex = []          # per exchange: 'dial:<j>' | 'wait' | 'done'
    dials = []       # per dial: 'pend' | 'done'
    idle = 0         # idle/live connections
    closed = False
    since_release = 0

    def new_exchange():
        nonlocal idle
        if closed:
            ex.append('done')
            return
        if tr == 'reuse':
            if idle > 0:
                idle -= 1
                ex.append('wait')
            else:
                dials.append('pend')
                ex.append('dial:%d' % (len(dials) - 1))
        else:
            if idle > 0:
                ex.append('wait')
            else:
                pend = [j for j, d in enumerate(dials) if d == 'pend']
                if pend and maxs > 1:
                    ex.append('dial:%d' % pend[-1])
                else:
                    dials.append('pend')
                    ex.append('dial:%d' % (len(dials) - 1))

    n = rng.randint(3, 11)
    close_at = rng.randrange(0, n + 1) if rng.random() < 0.9 else -1
    for step in range(n):
        if step == close_at:
            ev.append('close')
            closed = True
            for i, e in enumerate(ex):
                if e == 'wait' or (dm == 'honour' and e.startswith('dial')):
                    ex[i] = 'done'
            if dm == 'honour':
                dials[:] = ['done'] * len(dials)
            idle = 0
            continue
        choices = ['x', 'x']
        pend = [j for j, d in enumerate(dials) if d == 'pend']
        waits = [i for i, e in enumerate(ex) if e == 'wait']
        for j in pend:
            choices += ['dok%d' % j, 'dok%d' % j, 'dfail%d' % j]
        for i in waits:
            choices += ['reply%d' % i, 'reply%d' % i, 'perr%d' % i]
        if ex:
            choices.append('cancel%d' % rng.randrange(len(ex)))
        if closed:
            choices += ['close', 'x']
        if with_idle and since_release <= 3 and (idle > 0 or waits):
            choices += ['idle']
        if rng.random() < 0.07:   # something arbitrary (possibly not applicable)
            choices = ['dok%d' % rng.randrange(3), 'reply%d' % rng.randrange(4), 'perr%d' % rng.randrange(4),
                       'dfail%d' % rng.randrange(3), 'cancel%d' % rng.randrange(4)]
        e = rng.choice(choices)
        ev.append(e)
        since_release += 1
        if e == 'x':
            new_exchange()
        elif e.startswith('dok') or e.startswith('dfail'):
            j = int(e[3:] if e.startswith('dok') else e[5:])
            if j < len(dials) and dials[j] == 'pend':
                dials[j] = 'done'
                for i, x in enumerate(ex):
                    if x == 'dial:%d' % j:
                        ex[i] = 'wait' if (e.startswith('dok') and not closed) else 'done'
                if e.startswith('dok') and not closed and tr == 'pipeline':
                    idle += 1
        elif e.startswith('reply'):
            i = int(e[5:])
            if i < len(ex) and ex[i] == 'wait':
                ex[i] = 'done'
                if tr == 'reuse' and not closed:
                    idle += 1
                since_release = 0
        elif e.startswith('perr'):
            i = int(e[4:])
            if i < len(ex) and ex[i] == 'wait':
                ex[i] = 'done'
                if tr == 'pipeline':
                    idle = max(0, idle - 1)
        elif e == 'idle':
            idle = 0
            if tr == 'pipeline':
                for i, x in enumerate(ex):
                    if x == 'wait':
                        ex[i] = 'done'
    # resolve dials that are still pending so that nothing is left waiting on the script
    for j, d in enumerate(dials):
        if d == 'pend':
            ev.append(rng.choice(['dok%d', 'dok%d', 'dfail%d']) % j)
    if closed and rng.random() < 0.5:
        ev.append(rng.choice(['x', 'close']))
    return ev


def quic_placements(rng, tier):
    """QuicTransport: Close before the dial starts / during the dial (which then succeeds or fails) / after the
    dial with exchanges waiting or in flight / twice; 1..3 waiters of the one dialing call."""
    out = []
    n = [0]

    def add(dm, ev):
        out.append("q%d tr=quic dm=%s max=64 it=30000 ev=%s" % (n[0], dm, ",".join(ev)))
        n[0] += 1

    for w in (1, 2, 3):
        xs = ["x"] * w
        for late in ("dok0", "dfail0"):
            add("ignore", xs + ["close", late])                       # Close during the dial, dial ends later
            add("ignore", xs + ["close", "close", late, "x"])         # ... Close twice, new exchange afterwards
            add("ignore", xs + ["close", late, "close"])
        add("honour", xs + ["close"])                                  # dialer gives up at Close
        add("honour", xs + ["close", "x", "close"])
        add("honour", xs + ["dok0", "close"])                          # Close with exchanges in flight on the conn
        add("ignore", xs + ["dok0", "close", "x"])
        add("honour", xs + ["dfail0", "close"])
    add("honour", ["close", "x", "close"])                             # Close before any dial
    add("ignore", ["close", "x", "x"])
    add("honour", ["x", "dok0", "reply0", "close", "close"])           # cached idle connection
    add("honour", ["x", "dok0", "reply0", "x", "close", "x"])          # in flight on the cached (reused) connection
    add("ignore", ["x", "dok0", "reply0", "idle", "x", "close", "dok1"])   # dead cached conn, re-dial, Close, late dial
    add("ignore", ["x", "dok0", "x", "perr0", "close", "dok1"])        # retry dial in flight at Close, succeeds late
    add("ignore", ["x", "cancel0", "close", "dok0"])                   # caller gone, Close, late dial
    add("ignore", ["x", "x", "cancel0", "close", "dok0", "x"])
    reps = budget(tier, 0, 40)
    for _ in range(reps):
        w = rng.randint(1, 4)
        ev = ["x"] * w + ["close"] + [rng.choice(["dok0", "dfail0"])]
        for _ in range(rng.randint(0, 3)):
            ev.insert(rng.randrange(len(ev) + 1), rng.choice(["x", "close", "cancel%d" % rng.randrange(w)]))
        add(rng.choice(["ignore", "honour"]), ev)
    return out


def closerace_gen(rng, tier):
    out = []
    n = budget(tier, 180, 3600)
    for i in range(n):
        tr = rng.choice(['reuse', 'pipeline', 'quic'])
        dm = rng.choice(['honour', 'ignore'])
        maxs = rng.choice([1, 2, 64]) if tr == 'pipeline' else 64
        if tr == 'quic':
            # one cached connection shared by all exchanges, one dialing call joined by all waiters: the
            # event tracker of the pipeline transport (max 64) fits; "idle" kills the fake connections at once
            with_idle = rng.random() < 0.3
            it = 30000
            ev = _script(rng, 'pipeline', dm, 64, with_idle)
        else:
            with_idle = rng.random() < 0.15
            it = 300 if with_idle else 30000
            ev = _script(rng, tr, dm, maxs, with_idle)
        out.append("g%d tr=%s dm=%s max=%d it=%d ev=%s" % (i, tr, dm, maxs, it, ",".join(ev)))
    return out + quic_placements(rng, tier)


def closerace_oracle(line, res):
    f = gens.fields(line)
    r = gens.fields(res)
    if "res" not in r:
        return None
    evs = [e for e in f["ev"].split(",") if e]
    marks = r.get("ev", "")
    results = [] if r["res"] == "-" else r["res"].split(",")
    if "badid" in results:
        return "a reply with a foreign id was returned"
    if r.get("closed") != "1":
        return None
    if r.get("open") != "0":
        return "%s connection(s) still open after Close and quiescence" % r.get("open")
    # exchanges started after the first Close must fail
    nx = 0
    closed = False
    pending_dials = int(r.get("dials", "0"))
    for i, e in enumerate(evs):
        applied = i < len(marks) and marks[i] == "o"
        if e == "close":
            closed = True
        elif e == "x":
            if closed and nx < len(results) and results[nx] != "err":
                return "exchange #%d started after Close returned %s" % (nx, results[nx])
            nx += 1
        elif (e.startswith("dok") or e.startswith("dfail")) and applied:
            pending_dials -= 1
    npend = results.count("pend")
    if f["dm"] == "honour" and npend:
        return "%d exchange(s) still waiting after Close" % npend
    if f["dm"] == "ignore" and npend > max(0, pending_dials):
        return "%d exchange(s) still waiting after Close although only %d dial(s) are pending" % (npend, pending_dials)
    return None


def closerace_classify(line, res):
    f = gens.fields(line)
    evs = f["ev"].split(",")
    c = f["tr"] + "/" + f["dm"]
    if "close" in evs:
        i = evs.index("close")
        before = evs[:i]
        pend = sum(1 for e in before if e == "x") - sum(1 for e in before if e.startswith(("reply", "dok", "dfail", "perr")))
        c += "/close@" + ("start" if i == 0 else ("busy" if pend > 0 else "quiet"))
    else:
        c += "/noclose"
    if "idle" in evs:
        c += "+idle"
    return c


# ---------------- kind upclose: real upstreams of every scheme (child process per case)
UPS = ["udp", "tcp", "tcp+pipeline", "tls", "tls+pipeline", "https", "h3", "quic"]


def upclose_gen(rng, tier):
    out = []
    reps = budget(tier, 1, 6)
    n = 0
    for rep in range(reps):
        for up in UPS:
            for x in (0, 1, 2):
                out.append("u%d up=%s x=%d" % (n, up, x))
                n += 1
    return out


def upclose_oracle(line, res):
    r = gens.fields(res)
    if "close" not in r:
        return None
    if r.get("close") != "ok" or r.get("close2") != "ok":
        return "Close did not return normally (%s, %s)" % (r.get("close"), r.get("close2"))
    why = []
    if r.get("leak", "0") != "0":
        why.append("%s socket(s) of the upstream still open after Close" % r["leak"])
    if r.get("after") == "ok":
        why.append("an exchange started after Close succeeded")
    if r.get("after") == "hang" or r.get("inflight") == "hang":
        why.append("an exchange hung")
    if r.get("inflight") == "deadline":
        why.append("the exchange in flight at Close waited for its own deadline")
    return "; ".join(why) if why else None


# ---------------- kind upown: the upstream closes every transport / socket it owns
def _upown_alpha(up):
    return ["ok", "tc", "mu", "tm"] if up == "udp" else ["ok", "mu"]


# the catalogue: every transport / socket the upstream can own exists at Close, idle and in flight
UPOWN_CATALOGUE = {
    "udp": [[], ["ok"], ["mu"], ["tc"], ["tm"], ["tc", "tm"], ["tm", "tc"], ["tc", "tm", "tc"],
            ["tc", "tm", "tc", "mu"], ["tm", "tm", "mu", "ok"], ["mu", "tc", "tc"]],
    "tcp": [[], ["ok"], ["mu"], ["ok", "mu", "ok"], ["mu", "mu", "ok"]],
    "tls": [[], ["ok"], ["mu"], ["ok", "mu", "ok"], ["mu", "ok", "mu"]],
    "tcp+pipeline": [[], ["ok"], ["mu"], ["mu", "ok"], ["ok", "mu", "mu"]],
    "tls+pipeline": [[], ["ok"], ["mu"], ["ok", "mu"], ["mu", "ok", "mu"]],
    "https": [[], ["ok"], ["mu"], ["ok", "mu"], ["mu", "mu", "ok"]],
    "h3": [[], ["ok"], ["mu"], ["ok", "mu"]],
    "quic": [[], ["ok"], ["mu"], ["ok", "mu"], ["mu", "mu"]],
}
# end of life of a pipelined connection (all 65536 wire ids handed out) with a query still in flight
UPOWN_EOL = [
    ("udp", ["mu", "ok", "mu"], 65535), ("udp", ["tm", "tc", "mu"], 65535), ("udp", ["ok", "mu", "ok"], 65534),
    ("tcp+pipeline", ["mu", "ok", "mu"], 65535), ("tcp+pipeline", ["ok", "mu", "ok"], 65534),
    ("tls+pipeline", ["mu", "ok"], 65535), ("tls+pipeline", ["mu", "mu", "ok"], 65534),
]
UPOWN_H1 = [["ok", "mu", "ok"], ["mu", "mu"], ["ok"]]


def upown_gen(rng, tier):
    out = []
    n = [0]

    def add(up, plan, q0=None, alpn=None):
        l = "o%d up=%s plan=%s" % (n[0], up, ",".join(plan) if plan else "-")
        if q0 is not None:
            l += " q0=%d" % q0
        if alpn:
            l += " alpn=%s" % alpn
        out.append(l)
        n[0] += 1

    for up in UPS:
        for plan in UPOWN_CATALOGUE[up]:
            add(up, plan)
    for up, plan, q0 in UPOWN_EOL:
        add(up, plan, q0=q0)
    for plan in UPOWN_H1:
        add("https", plan, alpn="h1")
    # handshakes that FAIL ON THEIR OWN (certificate untrusted / wrong name / expired): N failed exchanges, Close;
    # the connection dialled for each must be gone - at the client (socket count) and at the server (client's FIN)
    for up in ("tls", "tls+pipeline", "https", "h3", "quic"):
        for hs in ("untrusted", "name", "expired"):
            out.append("o%d up=%s plan=%s hs=%s" % (n[0], up, ",".join(["hf"] * rng.randint(1, 3)), hs))
            n[0] += 1
    out.append("o%d up=https plan=hf,hf hs=untrusted alpn=h1" % n[0])
    n[0] += 1
    reps = budget(tier, 60, 600)
    for _ in range(reps):
        up = rng.choice(UPS + ["udp", "udp"])
        plan = [rng.choice(_upown_alpha(up)) for _ in range(rng.randint(1, 5))]
        q0 = None
        alpn = None
        if up in ("udp", "tcp+pipeline", "tls+pipeline") and rng.random() < 0.3:
            q0 = 65536 - rng.randint(1, 3)
        if up == "https" and rng.random() < 0.4:
            alpn = "h1"
        add(up, plan, q0=q0, alpn=alpn)
    return out


def upown_oracle(line, res):
    f = gens.fields(line)
    r = gens.fields(res)
    if "close" not in r:
        return None
    if r.get("close") != "ok" or r.get("close2") != "ok":
        return "Close did not return normally (%s, %s)" % (r.get("close"), r.get("close2"))
    why = []
    infl = [] if r.get("infl", "-") == "-" else r["infl"].split(",")
    for i, x in enumerate(infl):
        if x == "ok":
            why.append("in-flight exchange #%d was answered after Close" % i)
        elif x != "err":
            why.append("in-flight exchange #%d did not fail within 2 s of Close" % i)
    if r.get("after") != "err":
        why.append("an exchange started after Close succeeded")
    legs = r.get("legs", "-")
    if legs != "-":
        names = ["UDP leg", "TCP fallback leg"]
        for i, x in enumerate(legs.split(",")):
            if x != "err":
                why.append("the %s still exchanges after Close (not closed)" % names[i])
    for k, what in (("udp", "UDP socket(s) of the upstream"), ("tcp", "TCP connection(s) of the upstream"),
                    ("srv", "connection(s) seen by the server")):
        if r.get(k, "0") != "0":
            why.append("%s %s still open after Close" % (r[k], what))
    return "; ".join(why) if why else None


def upown_classify(line, res):
    f = gens.fields(line)
    plan = [] if f["plan"] == "-" else f["plan"].split(",")
    c = f["up"]
    if "q0" in f:
        c += "/eol"
    if f.get("alpn"):
        c += "/" + f["alpn"]
    if f.get("hs"):
        return c + "/handshake-fails:" + f["hs"]
    idle = any(p in ("ok", "tc") for p in plan)
    busy = any(p in ("mu", "tm") for p in plan)
    c += "/" + ("unused" if not plan else ("idle+inflight" if idle and busy else ("idle" if idle else "inflight")))
    if f["up"] == "udp":
        c += "/fb" if any(p in ("tc", "tm") for p in plan) else "/nofb"
    return c


# ---------------- kind startcfg: configuration errors are reported, nothing acquired on the way is left behind
SC_UPS = ["udp", "tcp", "tcpp", "tls", "tlsp", "https", "http", "h3", "quic", "doq"]
SC_UP_FAULTS = ["notag", "duptag", "noaddr", "scheme", "badtag", "camissing", "cagarbage", "certmissing",
                "certgarbage", "mismatch", "vccnoca"]
SC_UP_ACCEPTED = ["certonly", "keyonly"]          # a lone client cert / key is ignored by makeTlsConfig(.., false)
SC_SRVS = ["udp", "tcp", "gnet", "http", "fasthttp", "tls", "https", "quic"]
SC_TLS_SRVS = ["tls", "https", "quic"]
SC_SRV_FAULTS = ["inuse", "proto", "badaddr"]
SC_TLS_FAULTS = ["nocert", "certonly", "keyonly", "certmissing", "certgarbage", "mismatch", "camissing", "cagarbage",
                 "vccnoca"]
# faults that are NOT errors for the item they are attached to (the oracle must not demand an error)
SC_RTR_SRVS = ["udp", "udp1", "udp2", "tcp", "gnet", "http", "fasthttp", "tls", "https", "quic"]
SC_CLIENTS = {"m": ["idle", "mid"], "tcp": ["idle", "mid"], "gnet": ["idle", "mid"], "http": ["idle", "mid"],
              "fasthttp": ["idle", "mid"], "tls": ["idle", "hs", "mid"], "https": ["idle", "hs", "mid"],
              "quic": ["idle", "mid"]}


def _sc_is_error(comp, kind, fault):
    """kind may carry the +rp suffix (socket.so_reuseport configured explicitly)"""
    if not fault:
        return False
    rp = kind.endswith("+rp")
    kind = kind[:-3] if rp else kind
    if comp == "u" and fault in SC_UP_ACCEPTED:
        return False
    if comp == "s" and fault in SC_TLS_FAULTS and kind not in SC_TLS_SRVS:
        return False
    if fault == "rtr":
        # the address is held by another instance of the router: "address in use" must be reported unless the
        # sockets carry SO_REUSEPORT: configured explicitly (quic listeners take no socket options and always
        # refuse) or implied by udp.threads >= 2 (the kernel then reports no error: nothing to report)
        return not ((rp and kind != "quic") or kind == "udp2")
    return True


def _sc_items(cfg):
    out = []
    for it in cfg.split(";"):
        if not it:
            continue
        body, _, fault = it.partition("!")
        body, _, _client = body.partition("@")
        comp, _, kind = body.partition(":")
        out.append((comp, kind, fault))
    return out


def startcfg_gen(rng, tier):
    out = []
    n = [0]

    def add(items, mode=None):
        l = "k%d cfg=%s" % (n[0], ";".join(items))
        if mode:
            l += " mode=" + mode
        out.append(l)
        n[0] += 1

    thorough = tier != "quick"
    # (1) upstream faults.  The two that strike AFTER NewUpstream (duplicate tag is checked before it, metrics
    #     registration after it) for EVERY upstream kind, behind an upstream that already owns a socket.
    for k in SC_UPS:
        add(["m", "u:udp", "u:quic", "u:%s!duptag" % k, "s:udp"])
        add(["u:udp", "u:%s!badtag" % k, "d", "r", "s:udp"])
    for fl in SC_UP_FAULTS + SC_UP_ACCEPTED:
        ks = SC_UPS if thorough else rng.sample(SC_UPS, 3) + ["quic"]
        for k in ks:
            if fl in ("duptag", "badtag") and not thorough:
                continue
            add(["m", "u:h3", "u:%s!%s" % (k, fl), "c:none", "s:udp"])
    # (2) listener faults: every kind x every fault, first in the list and behind listeners that are already up
    for k in SC_SRVS:
        fls = SC_SRV_FAULTS + (SC_TLS_FAULTS if k in SC_TLS_SRVS else [])
        for fl in fls:
            add(["s:%s!%s" % (k, fl)])
            others = rng.sample(SC_SRVS, rng.randint(1, 3))
            pre = ["m"] if rng.random() < 0.5 else []
            pre += ["u:%s" % rng.choice(["quic", "h3", "doq", "udp"])]
            pre += [rng.choice(["c:mem", "c:none", "c:marker"])] if rng.random() < 0.3 else []
            add(pre + ["s:%s" % o for o in others] + ["s:%s!%s" % (k, fl)])
    # a tls section on a listener that does not use it is ignored: not an error
    add(["s:udp!certonly", "s:tcp!keyonly", "s:http!camissing"])
    # (3) domain sets, rules, cache, metrics - behind components that hold something
    for fl in ("notag", "duptag", "nofile", "baddata"):
        add(["m", "u:quic", "d", "d!%s" % fl, "r", "s:udp"])
    for fl in ("noset", "noup"):
        add(["u:h3", "u:udp", "d", "r", "r!%s" % fl, "c:mem", "s:tcp"])
    for ck, fl in (("none", "nomarker"), ("mem", "nomarker"), ("mem", "badmarker"), ("mem", "badredis"),
                   ("none", "badredis"), ("memmarker", "badredis")):
        add(["m", "u:quic", "c:%s!%s" % (ck, fl), "s:udp"])
    add(["m!inuse", "u:quic", "s:udp"])
    # the cache tiers none / memory / redis / both (a fake redis in the child): close, and a failing LATER item
    for ck in ("none", "mem", "redis", "memredis", "memredismarker"):
        add(["m", "u:udp", "c:%s" % ck, "s:udp", "s:tcp"])
        add(["u:quic", "c:%s" % ck, "s:udp", "s:%s!%s" % (rng.choice(SC_SRVS), rng.choice(["inuse", "proto"]))])
    add(["c:memredis", "s:tls!certonly"])
    add(["c:memredis!nomarker", "s:udp"])
    # (4) nothing wrong: start, close, nothing left (every listener kind, metrics, cache, socket-owning upstreams)
    add(["m", "u:udp", "u:quic", "u:h3", "d", "r", "c:memmarker"] + ["s:%s" % k for k in SC_SRVS])
    add(["u:udp", "s:udp"])
    add(["m", "u:doq", "c:mem", "s:quic", "s:https", "s:gnet"])
    # (5) the real binary: exit status
    for items in (["s:tls!certonly"], ["s:https!keyonly"], ["s:quic!certonly"], ["u:udp", "u:quic!duptag", "s:udp"],
                  ["s:udp!proto"], ["u:udp!scheme", "s:udp"], ["s:tls!mismatch"], ["u:tls!camissing", "s:udp"],
                  ["s:udp", "s:quic!nocert"]):
        add(items, mode="bin")
    # (7) "address in use" where the holder is ANOTHER INSTANCE of the router: same process (a second run() while the
    #     first router is up) and a second process (the real binary twice); every listener kind, udp with threads
    #     unset / 1 / 2, with and without socket.so_reuseport
    for k in SC_RTR_SRVS:
        for rp in ("", "+rp"):
            add(["s:%s%s!rtr" % (k, rp)])
        pre = ["m"] if rng.random() < 0.5 else []
        pre += ["u:%s" % rng.choice(["quic", "h3", "udp"])]
        pre += ["s:%s" % o for o in rng.sample(SC_SRVS, rng.randint(1, 2))]
        add(pre + ["s:%s!rtr" % k])
    add(["m!rtr", "s:udp"])
    add(["m!rtr", "u:quic", "c:mem", "s:tcp"])
    for items in (["s:udp!rtr"], ["s:udp1!rtr"], ["s:udp+rp!rtr"], ["s:tcp!rtr"], ["s:quic!rtr"], ["m!rtr", "s:udp"],
                  ["s:udp", "s:gnet!rtr"]):
        add(items, mode="bin")
    # (8) a client is connected / in the middle of a handshake / of a request on an endpoint when the router is closed:
    #     close returns promptly and nothing is left, for every closable endpoint
    for k, states in SC_CLIENTS.items():
        for st in states:
            ep = "m@%s" % st if k == "m" else "s:%s@%s" % (k, st)
            add([ep] if k != "m" else [ep, "s:udp"])
            # the endpoint with the client in FRONT of other listeners (closers are called in order)
            others = ["s:%s" % o for o in rng.sample(["udp", "tcp", "http", "tls", "quic"], 2)]
            add(([ep] + others) if k == "m" else (["m", ep] + others))
    add(["m@mid", "s:tcp@mid", "s:gnet@idle", "s:http@mid", "s:tls@hs", "s:https@mid", "s:quic@mid", "s:udp"])
    add(["m@idle", "u:quic", "c:mem", "s:fasthttp@mid", "s:tcp@idle", "s:https@hs"])
    # (6) random configurations with at most one fault
    reps = budget(tier, 25, 800)
    for _ in range(reps):
        items = []
        if rng.random() < 0.5:
            items.append("m")
        ups = [rng.choice(SC_UPS) for _ in range(rng.randint(1, 3))]
        items += ["u:%s" % k for k in ups]
        nd = rng.randint(0, 2)
        items += ["d"] * nd
        items += ["r"] * rng.randint(0, 2)
        items.append("c:%s" % rng.choice(["none", "none", "mem", "marker"]))
        srvs = [rng.choice(SC_SRVS) for _ in range(rng.randint(1, 4))]
        items += ["s:%s" % k for k in srvs]
        if rng.random() < 0.85:
            # one fault at a random item that can carry one
            idx = [i for i, it in enumerate(items) if it[0] in "usd" and not (it[0] == "d" and nd < 1)]
            i = rng.choice(idx)
            comp, _, kind = items[i].partition(":")
            if comp == "u":
                fl = rng.choice(SC_UP_FAULTS + SC_UP_ACCEPTED)
                if fl == "duptag" and i == min(j for j, x in enumerate(items) if x.startswith("u:")):
                    fl = "noaddr"
            elif comp == "s":
                fl = rng.choice(SC_SRV_FAULTS + (SC_TLS_FAULTS if kind in SC_TLS_SRVS else []))
            else:
                fl = rng.choice(["notag", "nofile", "baddata"])
            items[i] += "!" + fl
        add(items)
    return out


def startcfg_oracle(line, res):
    f = gens.fields(line)
    r = gens.fields(res)
    if "res" not in r:
        return None
    items = _sc_items(f["cfg"])
    must = any(_sc_is_error(c, k, fl) for (c, k, fl) in items)
    why = []
    if must and r["res"] != "ERR":
        bad = ["%s:%s!%s" % it for it in items if _sc_is_error(*it)]
        why.append("the configuration error %s was not reported: run() returned %s" % (bad[0], r["res"]))
    if not must and r["res"] != "OK":
        why.append("a valid configuration did not start (%s)" % r["res"])
    if r.get("sock", "0") not in ("0", "-"):
        why.append("%s socket(s) per run() left open" % r["sock"])
    if r.get("fd", "0") not in ("0", "-"):
        why.append("%s file descriptor(s) per run() left open" % r["fd"])
    if r.get("gor", "0") not in ("0", "-"):
        why.append("goroutines left running after run() returned")
    return "; ".join(why) if why else None


def startcfg_classify(line, res):
    f = gens.fields(line)
    items = _sc_items(f["cfg"])
    faulty = [(c, k, fl) for (c, k, fl) in items if fl]
    mode = f.get("mode", "inproc")
    if not faulty:
        cl = sorted(it.partition("!")[0] for it in f["cfg"].split(";") if "@" in it)
        if cl:
            return mode + "/valid/client:" + ",".join(cl[:3]) + ("/first" if "@" in f["cfg"].split(";")[0] else "")
        return mode + "/valid"
    c, k, fl = faulty[0]
    pos = items.index(faulty[0])
    held = any(x[0] in ("m", "s") or (x[0] == "u" and x[1] in ("quic", "doq", "h3")) or
               (x[0] == "c" and "mem" in x[1]) for x in items[:pos])
    return "%s/%s:%s!%s/%s" % (mode, c, k, fl, "behind-held" if held else "first")


# ---------------- kind startup
PROTOS = ["udp", "tcp", "gnet", "http", "fasthttp", "tls", "https", "quic"]


def startup_gen(rng, tier):
    out = []
    n = [0]

    def add(mode, metrics, nu, nd, nr, srv, fail, how, cache=0):
        out.append("s%d mode=%s metrics=%d nu=%d nd=%d nr=%d cache=%d srv=%s fail=%s how=%s" % (
            n[0], mode, metrics, nu, nd, nr, cache, ",".join(srv) if srv else "-", fail, how))
        n[0] += 1

    # failing listener at EVERY position of a server list holding every listener kind, each failure mode
    order = list(PROTOS)
    rng.shuffle(order)
    for i in range(len(order)):
        add("inproc", i % 2, 2, 1, 1, order, "srv:%d" % i, "inuse", cache=i % 2)
    for i in range(len(order)):
        how = "cert" if order[i] in ("tls", "https", "quic") else rng.choice(["proto", "addr"])
        add("inproc", 0, 1, 0, 0, order, "srv:%d" % i, how)
    reps = budget(tier, 20, 400)
    for _ in range(reps):
        srv = [rng.choice(PROTOS) for _ in range(rng.randint(0, 5))]
        nu, nd, nr = rng.randint(0, 3), rng.randint(0, 2), rng.randint(0, 3)
        metrics = rng.randint(0, 1)
        kinds = ["none"]
        if srv:
            kinds += ["srv"] * 4
        if nu:
            kinds += ["up"] * 2
        if nd:
            kinds.append("set")
        if nr:
            kinds.append("rule")
        if metrics:
            kinds.append("metrics")
        kinds.append("cache")
        k = rng.choice(kinds)
        fail, how = "none", "-"
        if k == "srv":
            i = rng.randrange(len(srv))
            fail = "srv:%d" % i
            how = rng.choice(["inuse", "inuse", "proto", "addr"] + (["cert"] if srv[i] in ("tls", "https", "quic") else []))
        elif k == "up":
            fail = "up:%d" % rng.randrange(nu)
            how = rng.choice(["scheme", "duptag", "noaddr", "cert"])
        elif k == "set":
            fail, how = "set:%d" % rng.randrange(nd), "nofile"
        elif k == "rule":
            fail = "rule:%d" % rng.randrange(nr)
            how = rng.choice(["noset", "noup"]) if nd else "noup"
            if how == "noup" and nu == 0:
                how = "noset" if nd else "noup"
        elif k == "metrics":
            fail, how = "metrics:0", "inuse"
        elif k == "cache":
            fail, how = "cache:0", "nofile"
        add("inproc", metrics, nu, nd, nr, srv, fail, how, cache=rng.randint(0, 1))
    # the REAL binary: exit status and stderr
    binreps = budget(tier, 6, 60)
    for j in range(binreps):
        srv = [rng.choice(PROTOS) for _ in range(rng.randint(1, 4))]
        if j % 3 == 2:
            add("bin", 1, 1, 1, 1, srv, "none", "-")
        else:
            i = rng.randrange(len(srv))
            how = rng.choice(["inuse", "proto"] + (["cert"] if srv[i] in ("tls", "https", "quic") else []))
            add("bin", j % 2, 1, 1, 1, srv, "srv:%d" % i, how)
    add("bin", 0, 2, 0, 0, ["udp"], "up:1", "scheme")
    add("bin", 0, 2, 0, 0, ["udp"], "up:1", "duptag")
    return out


def startup_expected_listeners(f):
    """number of listeners configured before the failing position (independent of the model)"""
    srv = [] if f["srv"] in ("-", "") else f["srv"].split(",")
    fail = f["fail"]
    metrics = int(f["metrics"])
    if fail == "none":
        return metrics + len(srv)
    k, i = fail.split(":")
    if k == "metrics":
        return 0
    if k == "srv":
        return metrics + int(i)
    return metrics


def startup_oracle(line, res):
    f = gens.fields(line)
    r = gens.fields(res)
    if "res" not in r:
        return None
    want = "OK" if f["fail"] == "none" else "ERR"
    if r["res"] != want:
        return "start-up returned %s where %s is expected" % (r["res"], want)
    if "LEAK" in r:
        return "%s listening socket(s) still bound after close" % r["LEAK"]
    if "EXIT" in r or "EXIT0" in res:
        return "unexpected exit status of the binary"
    exp = startup_expected_listeners(f)
    if int(r.get("srv", "-1")) != exp:
        return "%s of %d listeners started before the failure were released" % (r.get("srv"), exp)
    return None


def startup_classify(line, res):
    f = gens.fields(line)
    return "%s/%s/%s" % (f["mode"], f["fail"].split(":")[0], f["how"])


PROPS["C18"] = dict(
    need_binary=True,
    kinds=[
        dict(name="closerace", gen=closerace_gen, oracle=closerace_oracle, classify=closerace_classify,
             nontrivial=lambda l, r: "close" in l, timeout=600),
        dict(name="upclose", gen=upclose_gen, oracle=upclose_oracle,
             classify=lambda l, r: gens.fields(l)["up"] + "/x" + gens.fields(l)["x"],
             nontrivial=lambda l, r: True, timeout=600),
        dict(name="upown", gen=upown_gen, oracle=upown_oracle, classify=upown_classify,
             nontrivial=lambda l, r: True, timeout=900),
        dict(name="startcfg", gen=startcfg_gen, oracle=startcfg_oracle, classify=startcfg_classify,
             nontrivial=lambda l, r: True, timeout=900),
        dict(name="startup", gen=startup_gen, oracle=startup_oracle, classify=startup_classify,
             nontrivial=lambda l, r: True, timeout=900,
             env={}),
    ],
    rule="closerace: scripts of external events (exchange start, dial ok/fail, server reply, peer error, caller "
         "cancel, idle time-out, Close) replayed on the real ReuseConnTransport / PipelineTransport / QuicTransport "
         "(fake quic.Connection counting CloseWithError) with a gated counting dialer, Close placed at a random point (classes: Close first / while dials or replies are "
         "pending / at quiescence, honouring and context-ignoring dialer, idle timer); upclose: every upstream "
         "scheme x {never used, used, exchange in flight against a silent peer}, one child process per case; "
         "upown: every upstream scheme driven by a plan of answered / never-answered exchanges against a name-steered "
         "fake server so that every transport and socket the upstream owns exists at Close, idle and in flight (udp: "
         "UDP socket + TCP fallback connections after TC=1 answers; reuse: idle + busy connections; pipelined: shared, "
         "busy and end-of-life connections via a preset wire id; https over h2 and http/1.1; h3; quic), then Close, "
         "Close, in-flight exchanges, a new exchange on the upstream and on each leg of a udp upstream, sockets of "
         "the process (Opt.Control + /proc/self/fd) and connections still open at the server; compared with the "
         "composite model (Net/ShutdownOwn.v); TLS / QUIC handshakes that fail on their own (certificate untrusted / "
         "wrong name / expired: step hf, hs=) on tls, tls+pipeline, https, h3, quic upstreams, garbage collection off, "
         "the fake server waits for the client's FIN: no socket of a connection that never became usable is left; "
         "startcfg: configurations as item lists (metrics, 10 upstream kinds, domain sets, rules, cache, 8 listener "
         "kinds) with one fault from the catalogue of configuration errors (duplicate / missing tag, missing addr, "
         "unknown scheme / protocol, metrics registration failure, port in use, bad address, no / half / unreadable / "
         "garbage / mismatching certificate, bad ca file, verify_client_cert without ca, missing / bad domain, marker "
         "file, bad redis url) at every kind, first in the list and behind components that already hold sockets or "
         "goroutines; one child process per case, run() three times: error reported, sockets / other fds / goroutines "
         "left over per run (garbage collection off so that unreachable sockets stay visible); a few through the real "
         "binary (exit status); the cache tiers none / memory / redis / both against a fake redis in the child (close and a "
         "failing later item leave no connection to it); 'address in use' with the address held by ANOTHER INSTANCE of the router (a second "
         "run() in the process, the real binary twice) for the metrics endpoint and every listener kind incl. udp "
         "with threads unset / 1 / 2, with and without socket.so_reuseport; valid configurations closed while a "
         "client is connected / in the middle of a TLS handshake / of a request on each closable endpoint (metrics, "
         "tcp, gnet, http, fasthttp, tls, https, quic), first and behind other closers: close within 3 s (a hang is a "
         "VIOLATION) and nothing left; compared with the init programs of Router/StartupInit.v; "
         "startup: failing listener at every position of a list holding all 8 listener kinds (port in use, "
         "unknown protocol, bad certificate path, bad address), failing upstream / domain set / rule / cache / "
         "metrics listener, in-process and through the real binary; distinct = distinct case line",
    assumptions=["loopback sockets; net.Pipe connections for the scripted transports; quiescence = no observable "
                 "activity for 14 ms; Close must return within 2 s, router close within 5 s",
                 "injected dialers honour context cancellation (dm=honour) or complete late (dm=ignore)"],
    trusted=["C18: the init programs (si_prog_of: order of checks, acquisitions and the release on each error path) "
             "and the fault -> failing statement table (si_fault_stmt) are read off app/router by hand and tied to the "
             "code by kind startcfg; goroutines of fasthttp's worker-pool cleaner (10 s sleep) are not counted; which closer "
             "waits for its peers (si_closer_wait) is read off the code and timed by the harness (router close <= 3 s)",
             "C18: which parts an upstream owns and which its Close names (uo_owned, uo_close_prog) is read off "
             "upstream.go by hand and tied to the code by kind upown; the library parts (connTracker, quic.Transport, "
             "UDP socket) are counters, not models of net/http / quic-go",
             "C18: small-step models at atomic-action granularity; Go mutex/channel atomicity, net/http, quic-go, "
             "gnet, fasthttp modelled not verified; 'returns promptly' is timed, not proved"],
    level_note="partial: the theorems cover the close-race logic of the reuse, pipeline and quic transports at "
               "atomic-action granularity, the upstream as a composite of the transports / sockets it owns (Close "
               "closes every owned part exactly once, from every reachable state), the start-up/close sequence of "
               "the router and the init programs of its components (every acquired resource is registered or "
               "released on the error path, for every failing statement); promptness, the kernel's socket release and the HTTP/QUIC libraries are sampled by the "
               "harness",
)
