import gens
from props import PROPS, budget

# ---------------------------------------------------------------- C11 (domain sets)
COMMON = [b"com", b"org", b"a", b"b", b"example", b"www", b"x-1", b"co", b"uk", b"_dmarc", b"net"]
LETTERS = b"abcdefghijklmnopqrstuvwxyz"


def hexlist(bs):
    return ",".join(gens.hx(b) for b in bs) if bs else "none"


def c11_label(rng, loader=False):
    """one label of an ENTRY (written as text, so it cannot contain '.'); loader=True also avoids what a
    line of a file cannot carry ('#', LF) — edge octets are fixed up by the caller"""
    r = rng.random()
    if r < 0.40:
        l = rng.choice(COMMON)
    elif r < 0.55:
        l = bytes(rng.choice(gens.LABEL_CHARS) for _ in range(rng.randint(1, 8)))
    elif r < 0.67:
        n = rng.choice([22, 23, 24, 25, 26, 62, 63])
        l = bytes(rng.choice(LETTERS) for _ in range(n))
    elif r < 0.75:
        l = bytes(rng.choice(b"ABCXYZabcxyz019-_") for _ in range(rng.randint(1, 6)))
    else:
        l = bytes(rng.randrange(256) for _ in range(rng.choice([1, 1, 2, 3, 6, 23, 24])))
    if rng.random() < 0.12 and len(l) < 63:
        l = l + b"\0" * rng.choice([1, 1, 2])
        l = l[:63]
    if rng.random() < 0.12:
        l = l.upper()
    bad = b".#\n" if loader else b"."
    l = bytes((c if c not in bad else 0x5f) for c in l)
    return l


def variants(rng, l):
    """labels easily confused with l"""
    out = [l]
    if len(l) < 63:
        out.append(l + b"\0")
    if l.endswith(b"\0") and len(l) > 1:
        out.append(l[:-1])
    out.append(l.upper())
    out.append(l.lower())
    if len(l) > 1:
        out.append(l[:-1])
    out.append(bytes([l[0] ^ 1]) + l[1:])
    if len(l) == 24:
        out.append(l + b"a")
    if len(l) == 25:
        out.append(l[:24])
    return out


def readable_spec(name):
    """the text form the property describes, from the raw name (None if the name does not scan)"""
    if len(name) > 254:
        return None
    if len(name) == 0:
        return b"."
    labels = []
    off = 0
    while off < len(name):
        n = name[off]
        if n == 0 or n > 63 or off + 1 + n > len(name):
            return None
        labels.append(name[off + 1:off + 1 + n])
        off += 1 + n
    out = []
    for l in labels:
        s = b""
        for c in l:
            if (97 <= c <= 122) or (65 <= c <= 90) or (48 <= c <= 57) or c == 45:
                s += bytes([c])
            elif c == 46:
                s += b"\\."
            elif c == 92:
                s += b"\\\\"
            else:
                s += b"\\%03d" % c
        out.append(s)
    return b".".join(out)


def quote_meta(s):
    out = b""
    for c in s:
        if c in b"\\.+*?()|[]{}^$":
            out += b"\\"
        out += bytes([c])
    return out


def entry_text(rng, labels, loader=False):
    s = b".".join(labels)
    if len(labels) == 0:
        s = rng.choice([b".", b".", b""])
    elif rng.random() < 0.12:
        s += b"."
    p = rng.random()
    if p < 0.4:
        pre = b""
        if len(s) == 0:
            pre = b"domain:"
    elif p < 0.7:
        pre = b"domain:"
    else:
        pre = b"full:"
    return pre + s


def bad_probe(rng):
    return rng.choice([b"\x05ab", b"\x00", b"\x01a\x00", b"\x40" + b"a" * 64, b"\x03com\x00", b"\xc0\x0c",
                       gens.raw_name([b"a" * 63] * 4), b"\x02a"])


def c11_case(rng, i):
    loader = rng.random() < 0.3
    nbase = rng.choice([1, 2, 2, 3])
    fam = []      # label lists of entries
    for _ in range(nbase):
        k = rng.choice([1, 1, 2, 2, 3, 4])
        base = [c11_label(rng, loader) for _ in range(k)]
        fam.append(base)
        for _ in range(rng.choice([0, 1, 2, 3])):
            r = rng.random()
            if r < 0.35:
                fam.append([c11_label(rng, loader)] + base)                 # child
            elif r < 0.55 and len(base) > 1:
                fam.append(base[rng.randrange(1, len(base)):])              # parent
            elif r < 0.7:
                fam.append(list(base))                                      # duplicate
            elif r < 0.85:
                fam.append([rng.choice(variants(rng, base[0]))] + base[1:])  # confusable sibling
            else:
                fam.append([c11_label(rng, loader), c11_label(rng, loader)] + base)
    if rng.random() < 0.06:
        fam.append([])                                                      # the root
    if rng.random() < 0.08:
        # a deep entry (17..60 labels)
        fam.append([bytes([rng.choice(b"abcxyz019")]) for _ in range(rng.choice([17, 18, 33, 60]))])
    fam = [[l for l in e if len(l) > 0] for e in fam]
    if loader:
        # no octet >= 0x80 and no white space at the edges of a line (bytes.TrimSpace is modelled for ASCII only)
        def fix(e):
            if not e:
                return e
            e = list(e)
            if e[0][0] >= 0x80:
                e[0] = b"x" + e[0][1:]
            if e[-1][-1] >= 0x80:
                e[-1] = e[-1][:-1] + b"x"
            return e
        fam = [fix(e) for e in fam]
    rng.shuffle(fam)
    rules = [entry_text(rng, e, loader) for e in fam]
    # regexp rules over the text form of names of the family
    for _ in range(rng.choice([0, 0, 1, 2])):
        e = rng.choice(fam) if fam else []
        e = [l.lower() if rng.random() < 0.8 else l for l in e]
        t = readable_spec(gens.raw_name(e)) if len(gens.raw_name(e)) <= 253 else b"x"
        if t is None:
            t = b"x"
        r = rng.random()
        if r < 0.4 and len(t) > 1:
            a = rng.randrange(len(t))
            b = rng.randrange(a, len(t) + 1)
            t = t[a:b]
        lit = quote_meta(t)
        if loader:
            lit = lit.replace(b"#", b"x")
        rx = (b"^" if rng.random() < 0.5 else b"") + lit + (b"$" if rng.random() < 0.5 else b"")
        rules.insert(rng.randrange(len(rules) + 1), b"regexp:" + rx)
    # rejected rules
    if rng.random() < 0.12:
        bad = rng.choice([b"bogus:abc", b"regexp:(", b"regexp:a[", b"a" * 64, b"full:" + b"b" * 64 + b".com",
                          b".".join([b"c" * 63] * 4), b"domain:a:b", b"Domain:abc", b"regexp:*"])
        rules.insert(rng.randrange(len(rules) + 1), bad)
    # entries with empty labels (ParseReadable quirk: the rest of the text becomes one label)
    if rng.random() < 0.05:
        rules.insert(rng.randrange(len(rules) + 1), rng.choice([b"a..com", b".com", b"domain:..", b"full:a..b", b"x.."]))
    # probes
    probes = []
    for e in fam:
        if rng.random() < 0.7:
            probes.append(e)
        r = rng.random()
        if r < 0.3:
            probes.append([c11_label(rng)] + e)
        elif r < 0.45:
            probes.append([c11_label(rng), c11_label(rng)] + e)
        elif r < 0.6 and len(e) > 0:
            probes.append(e[1:])
        elif r < 0.8 and len(e) > 0:
            j = rng.randrange(len(e))
            probes.append(e[:j] + [rng.choice(variants(rng, e[j]))] + e[j + 1:])
        elif r < 0.9 and len(e) > 0:
            probes.append(e + [c11_label(rng)])
    for _ in range(rng.choice([0, 1, 2])):
        probes.append([c11_label(rng) for _ in range(rng.choice([0, 1, 2, 3]))])
    # deep names: an entry (or nothing) below many short labels — total label counts around every power of two up to
    # the 127 labels a 255-octet name can have (a matcher must walk ALL labels from the right, however many there are)
    deep = []
    if fam and rng.random() < 0.5:
        e = rng.choice(fam)
        d = rng.choice([15, 16, 17, 18, 31, 32, 33, 34, 63, 64, 65, 100, 126, 127])
        k = max(0, d - len(e))
        deep.append([bytes([rng.choice(b"abcxyz019")]) for _ in range(k)] + e)
        if rng.random() < 0.5 and len(e) > 0:
            # ... and the same depth with the entry NOT at the right end (must not match through a mis-aligned walk)
            deep.append(e + [bytes([rng.choice(b"abcxyz019")]) for _ in range(k)])
    pn = []
    for p in probes:
        p = [l for l in p if 0 < len(l) <= 63]
        n = gens.raw_name(p)
        if len(n) <= 254:
            pn.append(n)
    if rng.random() < 0.15:
        pn.append(bad_probe(rng))
    rng.shuffle(pn)
    pn = pn[:14]
    for p in deep:
        p = [l for l in p if 0 < len(l) <= 63]
        while len(gens.raw_name(p)) > 254 and len(p) > 1:
            p = p[1:] if len(p[0]) == 1 else p[:-1]
        if len(gens.raw_name(p)) <= 254:
            pn.append(gens.raw_name(p))
    lower = 0 if rng.random() < 0.15 else 1
    if loader:
        lines = []
        for r in rules:
            x = rng.random()
            if x < 0.1:
                lines.append(rng.choice([b"", b"   ", b"# comment", b"\t# full:com", b"#"]))
            pre = rng.choice([b"", b"", b"", b" ", b"\t "])
            post = rng.choice([b"", b"", b"", b" ", b" # note", b"#x.com", b"\r"])
            lines.append(pre + r + post)
        # long physical lines (a reader with a small fixed buffer must not split them): a long banner comment whose
        # tail looks like entries, an entry followed by a long comment, around 1 KiB / 4 KiB and well below the 64 KiB
        # token limit of the loader's scanner
        if rng.random() < 0.02:
            ln = rng.choice([1000, 1023, 1024, 1025, 1100, 2047, 2048, 2049, 4095, 4096, 4097])
            tail = rng.choice([b" com", b" domain:com", b" full:org", b" net # x", b" a.b"])
            filler = lambda k: b"# " + (b"=" * max(0, k - 2 - len(tail))) + tail
            if rng.random() < 0.5 or not rules:
                lines.insert(rng.randrange(len(lines) + 1), filler(ln))
            else:
                r0 = rng.choice(rules)
                lines.insert(rng.randrange(len(lines) + 1), r0 + b" " + filler(max(8, ln - len(r0) - 1)))
        text = b"\n".join(lines)
        if rng.random() < 0.7:
            text += b"\n"
        return "m%d mode=load text=%s probes=%s lower=%d" % (i, gens.hx(text), hexlist(pn), lower)
    return "m%d mode=add rules=%s probes=%s lower=%d" % (i, hexlist(rules), hexlist(pn), lower)


OVERLONG = 70000      # a physical line the loader's scanner (64 KiB token limit) cannot read: the load must FAIL


def overlong_cases(rng):
    """domain files with one line of 70000 octets (a giant comment, or entries that lost their newlines) before further
    entries: the loader must report an error — a silently truncated set would let the names listed after that line
    escape their rule (C10).  The Coq loader model has no token limit: these cases are judged by the oracle only."""
    out = []
    for j, big in enumerate([b"# " + b"=" * (OVERLONG - 2), b"domain:" + b".".join([b"x" * 60] * 1200)[:OVERLONG - 7], b"a" * OVERLONG]):
        text = b"first.example\n" + big + b"\nlater.example\n"
        probes = [gens.raw_name([b"later", b"example"]), gens.raw_name([b"first", b"example"])]
        out.append("ol%d mode=load text=%s probes=%s lower=1" % (j, gens.hx(text), hexlist(probes)))
    return out


def matcher_oracle(line, res):
    if line.startswith("ol") and " mode=load " in line:
        if not res.startswith("L=err"):
            return ("a domain file with a line of %d octets (longer than the scanner can read) was loaded without an error "
                    "(entries after that line are silently missing): %s" % (OVERLONG, res[:60]))
    return None


def c11_matcher_gen(rng, tier):
    n = budget(tier, 40000, 1000000)
    return [c11_case(rng, i) for i in range(n)]


def matcher_respec(line, res):
    if res.startswith("A=") or res.startswith("L="):
        return line + " out=" + res.replace(" ", "|")
    return None


def matcher_nontrivial(line, res):
    return "M=" in res and "1" in res.split("M=")[1]


def matcher_classify(line, res):
    f = gens.fields(line)
    cls = f.get("mode", "?")
    if res.startswith("A=") and "0" in res.split(" ")[0]:
        cls += "+rejected"
    if res.startswith("L=err"):
        cls += "+loaderr"
    if "M=" in res:
        m = res.split("M=")[1]
        cls += "+hit" if "1" in m else "+nohit"
    else:
        cls += "+" + res.split(" ")[0][:10]
    return cls


# ---- readable
def c11_readable_gen(rng, tier):
    n = budget(tier, 20000, 400000)
    out = []
    # every octet as a one-octet label, and inside a label
    for c in range(256):
        out.append("rb%d op=readable name=%s" % (c, gens.hx(bytes([1, c]))))
        out.append("rc%d op=readable name=%s" % (c, gens.hx(bytes([3, 97, c, 98, 1, c]))))
        out.append("lb%d op=lower name=%s" % (c, gens.hx(bytes([2, c, c, 1, c]))))
        out.append("pb%d op=parse s=%s" % (c, gens.hx(bytes([97, c, 98]))))
    for i in range(n):
        r = rng.random()
        if r < 0.35:
            name = gens.rand_name(rng, exotic=0.4)
            if rng.random() < 0.1:
                name = gens.mutate(rng, name)
            out.append("r%d op=readable name=%s" % (i, gens.hx(name)))
        elif r < 0.6:
            name = gens.rand_name(rng, exotic=0.3)
            if rng.random() < 0.15:
                name = gens.mutate(rng, name)
            out.append("l%d op=lower name=%s" % (i, gens.hx(name)))
        else:
            x = rng.random()
            if x < 0.6:
                ls = [c11_label(rng) for _ in range(rng.choice([0, 1, 2, 3, 5]))]
                s = b".".join(ls)
                if rng.random() < 0.2:
                    s += b"."
            elif x < 0.8:
                s = bytes(rng.choice(b"ab..-\\0A") for _ in range(rng.randint(0, 12)))
            elif x < 0.9:
                s = b".".join([b"a" * rng.choice([1, 62, 63, 64])] * rng.choice([1, 3, 4, 5]))
            else:
                s = bytes(rng.randrange(256) for _ in range(rng.randint(0, 80)))
            out.append("p%d op=parse s=%s" % (i, gens.hx(s)))
    return out


def readable_oracle(line, res):
    f = gens.fields(line)
    if f.get("op") == "readable":
        want = readable_spec(gens.unhx(f["name"]))
        if want is None:
            return None if res == "ERR" else "invalid name rendered: " + res[:40]
        if res != "OK " + gens.hx(want):
            return "text form is not the escaped form of the property (want %s)" % gens.hx(want)
    if f.get("op") == "parse" and f.get("s") in ("-", "", "2e") and res != "OK -":
        return "empty expression / '.' must parse to the root"
    return None


def matchconc_gen(rng, tier):
    """concurrent Match calls on one matcher (regexp, domain and full entries; long names that differ only at their
    end): every call must return what the same call returns alone (seed C11-M: the regexps ran on a buffer that was
    already back in the pool)"""
    out = []
    lab = lambda k: bytes(rng.choice(b"abcdefghijklmnopqrstuvwxyz0123456789-") for _ in range(k))
    for i in range(budget(tier, 4, 30)):
        stem = [lab(rng.choice([20, 40, 60])) for _ in range(rng.choice([2, 3]))]
        tails = [b"blocked", b"allowed", b"blockee", lab(7)]
        rules = [b"regexp:^([a-z0-9-]+\\.)*blocked$", b"regexp:\\.blockee$", b"domain:" + b".".join(stem[-1:] + [b"example"]),
                 b"full:" + b".".join(stem + [b"exact"]), b"regexp:^" + stem[1][:8] + b"[a-z0-9-]*\\."]
        rng.shuffle(rules)
        probes = [gens.raw_name(stem + [t]) for t in tails] + [gens.raw_name(stem[1:] + [t]) for t in tails[:2]] + \
                 [gens.raw_name(stem + [b"exact"]), gens.raw_name([b"www"] + stem[-1:] + [b"example"]), gens.raw_name([b"blocked"])]
        out.append("mc%d rules=%s probes=%s g=%d ms=%d" % (i, ",".join(gens.hx(r) for r in rules), ",".join(gens.hx(p) for p in probes),
                                                        rng.choice([8, 16, 32]), budget(tier, 400, 1500)))
    return out


def matchconc_oracle(line, res):
    f = gens.fields(res)
    if not res.startswith("seq="):
        return None
    if f.get("bad", "0") != "0":
        return "%s of %s concurrent Match calls returned another result than the same call alone" % (f["bad"], f.get("n"))
    return None


PROPS["C11"] = dict(
    kinds=[
        dict(name="matcher", gen=lambda rng, tier: overlong_cases(rng) + c11_matcher_gen(rng, tier), respec=matcher_respec,
             respec_kind="matcherspec", oracle=matcher_oracle,
             model_filter=lambda line: not line.startswith("ol"),
             nontrivial=matcher_nontrivial, classify=matcher_classify, shards=16, timeout=1500),
        dict(name="readable", gen=c11_readable_gen, oracle=readable_oracle, shards=8,
             nontrivial=lambda l, r: r.startswith("OK"), timeout=600),
        dict(name="matchconc", gen=matchconc_gen, oracle=matchconc_oracle, model=False, timeout=600,
             nontrivial=lambda l, r: "1" in gens.fields(r).get("seq", ""), classify=lambda l, r: "g" + gens.fields(l).get("g", "?")),
    ],
    rule="matcher: per case a family of entries (base names, children, parents, duplicates, confusable siblings: "
         "trailing NUL, 24/25-octet labels, other case; the root; labels of 1..63 arbitrary octets) in a random order, "
         "written as bare / domain: / full: / regexp:(literal subset) rules, a few rejected rules, fed either rule by rule "
         "to the real MixMatcher.Add or as a text file (comments, blank lines, CRLF, padding) to the real loader; "
         "then up to 14 probe names derived from the entries (exact, child, parent, sibling, confusable) plus malformed "
         "names; result = acceptance flags + one match bit per probe, compared with the model and with the "
         "declarative set-of-entries reference extracted from the Coq spec. non-trivial = at least one probe matched. "
         "readable: ToReadable / ParseReadable / ToLowerName on every octet value and on generated and mutated "
         "names/strings, compared with the model; ToReadable also against the escaping rule of the property text. "
         "matchconc: concurrent Match calls on one matcher with regexp / domain / full entries vs. the same calls alone (oracle only).",
    assumptions=["regexp rules are drawn from the literal subset [^]QuoteMeta(lit)[$] (Go's regexp engine is an oracle "
                 "argument of the model)",
                 "bytes.TrimSpace is modelled for ASCII white space; loader-mode lines carry no octet >= 0x80 at their edges",
                 "file lines are shorter than bufio.Scanner's 64 KiB token limit"],
    trusted=["C11: Go maps behave as finite maps (association lists in the model); regexp.Compile/Match are oracles "
             "(Section variables re_valid/re_match); bufio.Scanner line splitting and bytes.TrimSpace (ASCII) are modelled"],
    level_note="C11: proof of trie-match <-> exists-entry-suffix for all entry lists and names (order/duplicate "
               "independence, monotonicity), mix = full or domain or regexp-on-text-form (regexp engine as oracle), "
               "text form escaping and injectivity; tied to the real MixMatcher/loader/ToReadable by differential runs",
)
