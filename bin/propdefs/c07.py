import ipaddress
import struct

import gens
from props import PROPS, budget

# ---------------------------------------------------------------- C07: cache key / marker / memory cache / value


def lower_name(raw):
    """ASCII-lower-case the label octets of a raw wire name (length octets are < 64 and never in A-Z)"""
    out = bytearray(raw)
    i = 0
    while i < len(out):
        l = out[i]
        if l == 0 or l > 63 or i + 1 + l > len(out):
            break
        for j in range(i + 1, i + 1 + l):
            if 65 <= out[j] <= 90:
                out[j] += 32
        i += 1 + l
    return bytes(out)


def rand_case(rng, raw):
    out = bytearray(raw)
    i = 0
    while i < len(out):
        l = out[i]
        for j in range(i + 1, min(len(out), i + 1 + l)):
            c = out[j]
            if (65 <= c <= 90 or 97 <= c <= 122) and rng.random() < 0.5:
                out[j] = c ^ 32
        i += 1 + l
    return bytes(out)


CLASSES = [1, 1, 1, 1, 3, 4, 254, 255, 0, 256, 257, 354, 0x0141, 0x3f61, 0x4001, 65535]
TYPES = [1, 1, 28, 28, 2, 5, 6, 12, 15, 16, 33, 41, 65, 255, 0, 256, 257, 12337, 65535]
MARKS = [b"", b"", b"", b"1", b"2", b"cn", b"01", b"group-a", b"group-b", b"\x00\x01", b"\x00\x01\x00\x01", b"a,b c"]


def rand_req(rng):
    name = gens.rand_name(rng, exotic=0.05)
    cl = rng.choice(CLASSES) if rng.random() < 0.9 else rng.randrange(65536)
    ty = rng.choice(TYPES) if rng.random() < 0.8 else rng.randrange(65536)
    mk = rng.choice(MARKS) if rng.random() < 0.85 else bytes(rng.randrange(256) for _ in range(rng.randint(1, 6)))
    return (name, cl, ty, mk)


def key_line(cid, a, b):
    return "%s n1=%s c1=%d t1=%d m1=%s n2=%s c2=%d t2=%d m2=%s" % (
        cid, gens.hx(a[0]), a[1], a[2], gens.hx(a[3]), gens.hx(b[0]), b[1], b[2], gens.hx(b[3]))


def k2_partner(a):
    """the request that shares a's key in the pinned layout name|class|type|mark (finding K2), if any:
    the class's high octet is read as the length of one more label"""
    name, cl, ty, mk = a
    tail = struct.pack(">HH", cl, ty) + mk
    L = tail[0]
    if not (1 <= L <= 63) or len(tail) < 1 + L + 4 or len(name) + 1 + L > 253:
        return None
    n2 = name + tail[:1 + L]
    c2, t2 = struct.unpack(">HH", tail[1 + L:5 + L])
    return (n2, c2, t2, tail[5 + L:])


def variant(rng, a):
    """a second request: identical, same up to case, or differing in exactly one component"""
    name, cl, ty, mk = a
    r = rng.random()
    if r < 0.12:
        return a
    if r < 0.24:
        return (rand_case(rng, name), cl, ty, mk)
    if r < 0.36:
        return (name, rng.choice([c for c in CLASSES if c != cl] + [cl ^ 0x100, cl ^ 1, (cl + 256) & 0xFFFF]), ty, mk)
    if r < 0.48:
        return (name, cl, rng.choice([t for t in TYPES if t != ty] + [ty ^ 0x100, ty ^ 1]), mk)
    if r < 0.62:
        m2 = rng.choice([m for m in MARKS if m != mk] + [mk + b"x", mk[:-1]])
        return (name, cl, ty, m2)
    if r < 0.74:
        ls = gens.rand_labels(rng, exotic=0.05)
        n2 = gens.raw_name(ls)
        k = rng.random()
        if k < 0.3 and len(name) + 2 <= 253:
            n2 = name + b"\x01" + bytes([rng.choice(b"abz\x00\x01")])
        elif k < 0.5 and len(name) >= 2:
            b = bytearray(name)
            b[-1] ^= 1
            n2 = bytes(b)
        return (n2, cl, ty, mk)
    if r < 0.80:
        return (name, ty, cl, mk)                      # class and type swapped
    if r < 0.86 and len(mk) >= 2:                      # octets moved between type and mark
        return (name, cl, struct.unpack(">H", mk[:2])[0], struct.pack(">H", ty) + mk[2:])
    p = k2_partner(a)
    if p is not None:
        return p
    return rand_req(rng)


def c07_key_gen(rng, tier):
    n = budget(tier, 20000, 400000)
    out = []
    # boundary catalogue: K2-shaped pairs (class high octet = a label length) for several label lengths
    k = 0
    for L in (1, 2, 3, 7, 63):
        for base in (b"\x01a", b"", b"\x03www\x07example\x03com"):
            lo = 0x62
            mk = bytes(range(0x30, 0x30 + 64))[:max(2, L + 3)]
            a = (base, (L << 8) | lo, 1, mk)
            p = k2_partner(a)
            if p is not None:
                out.append(key_line("kk%d" % k, a, p))
                k += 1
    for i in range(n):
        a = rand_req(rng)
        if rng.random() < 0.1:
            a = (a[0], (rng.choice([1, 1, 2, 5]) << 8) | rng.randrange(256), a[2],
                 bytes(rng.randrange(256) for _ in range(rng.randint(2, 8))))
        out.append(key_line("k%d" % i, a, variant(rng, a)))
    return out


def key_same(f):
    return (lower_name(gens.unhx(f["n1"])) == lower_name(gens.unhx(f["n2"])) and f["c1"] == f["c2"]
            and f["t1"] == f["t2"] and gens.unhx(f["m1"]) == gens.unhx(f["m2"]))


def c07_key_oracle(line, res):
    f = gens.fields(line)
    r = gens.fields(res)
    if "k1" not in r or "k2" not in r:
        return None
    if r["k1"] != r["k1r"]:
        return "the same request got two different keys (key depends on recycled buffer contents): a repeat misses"
    same = key_same(f)
    if same and r["k1"] != r["k2"]:
        return "same question and group, different keys"
    if not same and r["k1"] == r["k2"]:
        return "different (question, group) pairs share one cache key"
    return None


def c07_key_classify(line, res):
    f = gens.fields(line)
    if key_same(f):
        return "same-request" if f["n1"] == f["n2"] else "same-up-to-case"
    d = [x for x in ("n", "c", "t", "m") if f[x + "1"] != f[x + "2"]]
    return "differ-" + "".join(d)


def key_respec(line, res):
    r = gens.fields(res)
    if "k1" not in r:
        return None
    return "%s k1=%s k1r=%s k2=%s" % (line, r["k1"], r["k1r"], r["k2"])


# ---------------------------------------------------------------- marker
V4P = 0xFFFF00000000


def addr_text(rng, fam, v):
    if fam == 4:
        return str(ipaddress.IPv4Address(v))
    a = ipaddress.IPv6Address(v)
    if V4P <= v < V4P + (1 << 32) and rng.random() < 0.5:
        return "::ffff:" + str(ipaddress.IPv4Address(v - V4P))
    r = rng.random()
    if r < 0.15:
        return a.exploded
    if r < 0.25:
        return a.compressed.upper()
    return a.compressed


def addr_tok(fam, v):
    return ("4%08x" % v) if fam == 4 else ("6%032x" % v)


V4_POINTS = [0, 1, 2, 9, 10, 11, 100, 0x01010100, 0x01010101, 0x010101ff, 0x0a000000, 0x0affffff, 0xe0000000,
             0xfffffffe, 0xffffffff]
V6_POINTS = [0, 1, 2, 3, 10, (1 << 64) - 1, 1 << 64, (1 << 64) + 1, 0x20010db8 << 96, (0x20010db8 << 96) + 255,
             (0x20010db9 << 96) - 1, (1 << 128) - 2, (1 << 128) - 1, V4P - 1, V4P, V4P + 10, V4P + 0x01010101,
             V4P + 0xffffffff, V4P + (1 << 32)]


def rand_point(rng):
    if rng.random() < 0.5:
        v = rng.choice(V4_POINTS) if rng.random() < 0.7 else rng.randrange(1 << 32)
        v = min((1 << 32) - 1, max(0, v + rng.choice([0, 0, 0, -1, 1, 5])))
        return (4, v)
    v = rng.choice(V6_POINTS) if rng.random() < 0.8 else rng.randrange(1 << 128)
    v = min((1 << 128) - 1, max(0, v + rng.choice([0, 0, 0, -1, 1, 5])))
    return (6, v)


def as16(p):
    return p[1] + V4P if p[0] == 4 else p[1]


LABELS = ["1", "2", "cn", "cn", "group-a", "a,b c", "x y", "", "Z"]


def gen_marker(rng, allow_bad=True):
    """returns (file text, model line tokens, list of range points for probing, expect_ok hint)"""
    k = rng.choice([0, 1, 1, 2, 2, 3, 4, 6, 10])
    mode = rng.random()
    ranges = []
    if mode < 0.8:
        # disjoint by construction: sort 2k distinct points, pair them up
        pts = set()
        tries = 0
        while len(pts) < 2 * k and tries < 200:
            pts.add(rand_point(rng))
            tries += 1
        # distinct as 128-bit numbers
        byv = {}
        for p in pts:
            byv.setdefault(as16(p), p)
        ps = sorted(byv.values(), key=as16)
        for i in range(0, len(ps) - 1, 2):
            a, b = ps[i], ps[i + 1]
            if rng.random() < 0.2:
                b = a                                   # single address
            ranges.append((a, b))
        if ranges and rng.random() < 0.3:              # make two ranges adjacent (end + 1 = next start): still valid
            i = rng.randrange(len(ranges))
            if i + 1 < len(ranges):
                nxt = ranges[i + 1][0]
                v = as16(nxt) - 1
                if v >= as16(ranges[i][0]):
                    ranges[i] = (ranges[i][0], (6, v))
    else:
        for _ in range(k):
            a, b = rand_point(rng), rand_point(rng)
            if as16(a) > as16(b) and rng.random() < 0.8:
                a, b = b, a
            ranges.append((a, b))
    if ranges and rng.random() < 0.12:                 # touching: start of one = end of another (overlap by one address)
        a, b = rng.choice(ranges)
        c = rand_point(rng)
        if as16(c) >= as16(b):
            ranges.append((b, c))
    if ranges and rng.random() < 0.06:
        ranges.append(rng.choice(ranges))              # duplicate
    rng.shuffle(ranges)
    text, toks = [], []
    for (a, b) in ranges:
        lb = rng.choice(LABELS)
        line = "%s,%s,%s" % (addr_text(rng, a[0], a[1]), addr_text(rng, b[0], b[1]), lb)
        r = rng.random()
        if r < 0.15:
            line = "  " + line + "  "
        elif r < 0.3:
            line = line + " # comment, with commas"
        text.append(line)
        toks.append("r/%s/%s/%s" % (addr_tok(*a), addr_tok(*b), gens.hx(lb.strip().encode())))
        if rng.random() < 0.15:
            text.append(rng.choice(["", "   ", "# only a comment", "\t#x"]))
            toks.append("b")
    if allow_bad and rng.random() < 0.08:
        bad = rng.choice(["garbage", "1.1.1.1,2.2.2.2", "1.1.1,2.2.2.2,x", "1.1.1.1 ,2.2.2.2,x", "1.1.1.1,2.2.2.256,x",
                          "::1,::g,x", ",,", "1.1.1.1/24,2.2.2.2,x"])
        i = rng.randrange(len(text) + 1)
        text.insert(i, bad)
        toks.insert(i, "x")
    sep = rng.choice(["\n", "\n", "\r\n"])
    data = sep.join(text) + (sep if rng.random() < 0.7 else "")
    return data, toks, ranges


def probes_for(rng, ranges, n_extra=4):
    ps = []
    for (a, b) in ranges:
        lo, hi = as16(a), as16(b)
        for v in (lo - 1, lo, (lo + hi) // 2, hi, hi + 1):
            if 0 <= v < (1 << 128):
                ps.append((6, v))
                if V4P <= v < V4P + (1 << 32):
                    ps.append((4, v - V4P))            # the same address as plain IPv4
    for _ in range(n_extra):
        ps.append(rand_point(rng))
    rng.shuffle(ps)
    return ps[:24]


def marker_line(rng, cid):
    data, toks, ranges = gen_marker(rng)
    ps = probes_for(rng, ranges)
    ptxt = [addr_text(rng, f, v) for (f, v) in ps]
    ptok = [addr_tok(f, v) for (f, v) in ps]
    if rng.random() < 0.3:
        ptxt.append("x")
        ptok.append("x")
    return "%s file=%s probes=%s lines=%s pr=%s" % (cid, gens.hx(data.encode()), ",".join(ptxt) or "-",
                                                   ";".join(toks) or "-", ",".join(ptok) or "-")


def marker_overlong_line(rng, cid, at):
    """a marker file with ONE over-long line (longer than the 64 KiB a bufio.Scanner accepts: a huge comment, or a range
    line with a huge label) before / between / after ordinary ranges: the file must be REFUSED, never loaded up to the
    long line with the ranges behind it silently dropped (seed C07-N)"""
    data, toks, ranges = gen_marker(rng, allow_bad=False)
    while not ranges or any(t == "x" for t in toks):
        data, toks, ranges = gen_marker(rng, allow_bad=False)
    lines = data.replace("\r\n", "\n").rstrip("\n").split("\n")
    n = rng.choice([65536, 65537, 70000, 131072])
    long_line = rng.choice(["# " + "c" * n, "10.99.0.1,10.99.0.2," + "L" * n, "x" * n])
    i = {"first": 0, "middle": len(lines) // 2, "last": len(lines)}[at]
    lines.insert(i, long_line)
    toks = list(toks)
    toks.insert(i, "x")
    ps = probes_for(rng, ranges)
    return "%s file=%s probes=%s lines=%s pr=%s" % (cid, gens.hx(("\n".join(lines) + "\n").encode()),
                                                   ",".join(addr_text(rng, f, v) for (f, v) in ps) or "-",
                                                   ";".join(toks) or "-", ",".join(addr_tok(f, v) for (f, v) in ps) or "-")


def c07_marker_gen(rng, tier):
    out = [marker_overlong_line(rng, "ml%d" % i, at) for i, at in enumerate(("first", "middle", "last", "middle"))]
    return out + [marker_line(rng, "m%d" % i) for i in range(budget(tier, 6000, 150000))]


def marker_ranges(f):
    rs, bad = [], False
    for t in (f["lines"].split(";") if f["lines"] != "-" else []):
        if t == "x":
            bad = True
        elif t.startswith("r/"):
            _, a, b, lb = t.split("/")
            v = lambda x: int(x[1:], 16) + (V4P if x[0] == "4" else 0)
            rs.append((v(a), v(b), lb))
    return rs, bad


def c07_marker_oracle(line, res):
    """the declarative meaning, evaluated on the implementation's output: a file is accepted iff no line is bad, no
    range is inverted and no two ranges share an address; every probe gets the label of the range containing it;
    the IPv4 and the v4-mapped form of one address get one label"""
    f = gens.fields(line)
    rs, bad = marker_ranges(f)
    srt = sorted(rs)
    valid = (not bad and all(a <= b for a, b, _ in rs)
             and all(srt[i][1] < srt[i + 1][0] for i in range(len(srt) - 1)))
    if res == "ERR":
        return "a well-formed marker file (disjoint, non-inverted ranges) was rejected" if valid else None
    if not res.startswith("OK "):
        return None
    if not valid:
        return "a marker file with a bad line, an inverted range or overlapping ranges was accepted"
    parts = res.split(" ")
    labels = parts[2].split(",") if len(parts) > 2 and parts[2] else []
    toks = f["pr"].split(",") if f["pr"] != "-" else []
    for t, lb in zip(toks, labels):
        if t == "x":
            if lb != "-":
                return "invalid address got a group label"
            continue
        v = int(t[1:], 16) + (V4P if t[0] == "4" else 0)
        want = "-"
        for a, b, l in rs:
            if a <= v <= b:
                want = l
        if lb != want:
            return "address %s: label %s, but the range containing it says %s" % (t, lb, want)
    return None


def c07_marker_classify(line, res):
    return res.split(" ")[0]


# ---------------------------------------------------------------- memory cache histories
def cache_history(rng, cid, pressure):
    nk = rng.choice([1, 2, 3, 5])
    keys = [b"k%d" % j for j in range(nk)]
    if rng.random() < 0.2:
        keys = [bytes([1, 0x61 + j, 0, 0, 1, 0, 1]) for j in range(nk)]     # real key shapes
    cap = 0
    if pressure:
        cap = rng.choice([40, 100, 300])
        keys = [b"p%d" % j for j in range(rng.choice([6, 12]))]
    ops = []
    ctr = 0
    for _ in range(rng.randint(3, 40)):
        k = rng.choice(keys)
        r = rng.random()
        if r < 0.35:
            ctr += 1
            v = k + b"|%d" % ctr + (b"x" * rng.choice([0, 0, 3, 30]) if pressure else b"")
            ops.append("S:%s:%s:%d:%d" % (gens.hx(k), gens.hx(v), 3600000, 1 if rng.random() < 0.25 else 0))
        elif r < 0.75:
            ops.append("G:%s" % gens.hx(k))
        elif r < 0.87:
            ops.append("E:%s" % gens.hx(k))
        elif not pressure:
            k2 = rng.choice(keys + [b"other"])
            ctr += 1
            ops.append("R%d:%s:%s:%s" % (rng.choice([0, 1, 2, 2]), gens.hx(k), gens.hx(k2), gens.hx(k2 + b"|%d" % ctr)))
    return "%s cap=%d ops=%s" % (cid, cap, ",".join(ops) or "-")


def c07_cache_gen(rng, tier):
    out = [cache_history(rng, "h%d" % i, False) for i in range(budget(tier, 4000, 100000))]
    # the clock: a repeat while more than 1 s of the lifetime remains is a hit; long after expiry it is a miss
    out.append("t_live cap=0 ops=S:6b:6b7c31:4000:0,G:6b,T:1100,G:6b")
    out.append("t_dead cap=0 ops=S:6b:6b7c31:1000:0,G:6b,T:2600,G:6b")
    return out


def c07_press_gen(rng, tier):
    """small cost capacity: which binding otter evicts is its own business (the model has no capacity), so these
    histories are judged by the oracle only: every hit returns a value stored under the requested key"""
    return [cache_history(rng, "p%d" % i, True) for i in range(budget(tier, 300, 8000))]


def cache_gets(line):
    f = gens.fields(line)
    ks = []
    for op in (f["ops"].split(",") if f["ops"] != "-" else []):
        a = op.split(":")
        if a[0] == "G" or a[0][0] == "R":
            ks.append((a[0], gens.unhx(a[1])))
    return ks


def c07_cache_oracle(line, res):
    if not res.startswith("r="):
        return None
    items = res[2:].split(",") if res != "r=-" else []
    f = gens.fields(line)
    ample = f["cap"] == "0"
    live = {}      # key -> True while a binding with a one-hour lifetime must exist (ample capacity, no eviction)
    n = 0
    for op in (f["ops"].split(",") if f["ops"] != "-" else []):
        a = op.split(":")
        if a[0] == "S":
            k = gens.unhx(a[1])
            if a[4] == "0" and int(a[3]) >= 3600000:
                live[k] = True
            elif a[4] == "0":
                live.pop(k, None)
        elif a[0] == "E":
            live.pop(gens.unhx(a[1]), None)
        elif a[0] == "G" or a[0][0] == "R":
            if n >= len(items):
                return None
            it = items[n]
            n += 1
            k = gens.unhx(a[1])
            if it.startswith("H"):
                v = gens.unhx(it[1:])
                if not v.startswith(k + b"|"):
                    return "get(%s) returned a value stored under another key (%r)" % (gens.hx(k), v[:20])
            elif a[0] == "G" and ample and live.get(k):
                return ("get(%s) missed although the key was stored with a one-hour lifetime, capacity is ample "
                        "and nothing evicted it" % gens.hx(k))
            if a[0][0] == "R":
                was_live = live.pop(k, None)
                if a[0] == "R2" and was_live:      # the race (and its store of k2) only happens when k was bound
                    live[gens.unhx(a[2])] = True
    return None


def c07_cache_classify(line, res):
    f = gens.fields(line)
    if f["cap"] != "0":
        return "pressure"
    return "race" if ",R" in f["ops"] or f["ops"].startswith("R") else "plain"


# ---------------------------------------------------------------- cacheCtl store/get pairs
def c07_resp(rng):
    old = gens.rand_ttl
    gens.rand_ttl = lambda r: r.choice([5, 30, 60, 300, 3600, 86400, 2 ** 31, 2 ** 32 - 1, r.randrange(5, 2 ** 32)])
    try:
        m = bytearray(gens.gen_msg(rng, response=True, opt=False, max_rr=4))
    finally:
        gens.rand_ttl = old
    bits = struct.unpack_from(">H", m, 2)[0]
    bits &= ~0x0200                      # TC responses are not cached (C08)
    if bits & 0xF == 2:                  # SERVFAIL lives 1 s: would race the cache clock
        bits &= ~0xF
    struct.pack_into(">H", m, 2, bits)
    return bytes(m)


def c07_hitmiss_gen(rng, tier):
    out = []
    for i in range(budget(tier, 3000, 60000)):
        use_marker = rng.random() < 0.6
        toks, ranges, data = [], [], ""
        if use_marker:
            for _ in range(20):
                data, toks, ranges = gen_marker(rng, allow_bad=False)
                rs = sorted((as16(a), as16(b)) for a, b in ranges)
                if all(a <= b for a, b in rs) and all(rs[j][1] < rs[j + 1][0] for j in range(len(rs) - 1)):
                    break
            else:
                use_marker, toks, ranges, data = False, [], [], ""
        a = rand_req(rng)
        r = rng.random()
        if r < 0.45:
            b = a if rng.random() < 0.5 else (rand_case(rng, a[0]), a[1], a[2], a[3])
        else:
            b = variant(rng, a)
        b = (b[0], b[1], b[2], b"")
        ps = probes_for(rng, ranges, n_extra=2)
        p1 = rng.choice(ps)
        k = rng.random()
        if k < 0.4:
            p2 = p1
        elif k < 0.55 and p1[0] == 4:
            p2 = (6, p1[1] + V4P)
        elif k < 0.65 and p1[0] == 6 and V4P <= p1[1] < V4P + (1 << 32):
            p2 = (4, p1[1] - V4P)
        else:
            p2 = rng.choice(ps)
        out.append("e%d file=%s lines=%s msg=%s n1=%s c1=%d t1=%d a1=%s p1=%s n2=%s c2=%d t2=%d a2=%s p2=%s" % (
            i, gens.hx(data.encode()) if use_marker else "-", (";".join(toks) or "b") if use_marker else "-",
            gens.hx(c07_resp(rng)),
            gens.hx(a[0]), a[1], a[2], addr_text(rng, *p1), addr_tok(*p1),
            gens.hx(b[0]), b[1], b[2], addr_text(rng, *p2), addr_tok(*p2)))
    return out


def c07_hitmiss_oracle(line, res):
    f = gens.fields(line)
    r = gens.fields(res)
    if "g1" not in r:
        return None
    same = (lower_name(gens.unhx(f["n1"])) == lower_name(gens.unhx(f["n2"])) and f["c1"] == f["c2"]
            and f["t1"] == f["t2"] and r["g1"] == r["g2"])
    hit = " HIT " in (" " + res)
    if hit and not same:
        return "a cached answer was served to a different question or client group"
    if not hit and same:
        return "the repeat of a query from the same group was not answered from the cache"
    return None


def c07_hitmiss_classify(line, res):
    return "HIT" if " HIT " in (" " + res) else ("MISS" if "MISS" in res else res.split(" ")[0])


def c07_stress_gen(rng, tier):
    return ["st%d threads=8 keys=%d iters=%d cap=%d seed=%d" % (i, rng.choice([4, 16]), budget(tier, 30000, 300000),
                                                              rng.choice([200, 2000]), rng.randrange(1 << 30))
            for i in range(budget(tier, 3, 12))]


def c07_stress_oracle(line, res):
    if res.startswith("wrong=") and not res.startswith("wrong=0"):
        return "concurrent get returned a value stored under another key: " + res
    return None


# ---------------------------------------------------------------- round 2: concurrent churn with self-identifying values
# size-class boundaries of the byte pool (bytespool: 2^n up to 256, then four sub-classes per octave); every case
# keeps all its value lengths inside ONE class so that freed entry buffers are what the next Store / copy gets back
CHURN_CLASSES = [(100, 128), (200, 256), (530, 640), (900, 1020), (3600, 4090), (14500, 16380), (50000, 57340)]


def c07_churn_gen(rng, tier):
    """real parallel stores (overwrite with another length of the same size class, set-if-absent, 1 s lifetime),
    deletes, lookups on one MemoryCache; ample capacity (entries go away only by being replaced / deleted /
    expiring) and small capacity (constant size eviction); all cores.  Wall time = sum of ms."""
    out = []
    n = budget(tier, 6, 60)
    ms = budget(tier, 1500, 5000)
    for i in range(n):
        lo, hi = CHURN_CLASSES[(i + rng.randrange(len(CHURN_CLASSES))) % len(CHURN_CLASSES)] if i >= 2 else (900, 1020)
        keys = rng.choice([4, 16, 16, 64, 256])
        vers = rng.choice([2, 4, 8])
        while keys * vers * hi > (8 << 20):       # the templates are kept in memory
            keys //= 2
        avg = (lo + hi) // 2 + 16
        # otter admits nothing when an entry costs more than about a tenth of the capacity: keep room for >= 12 entries
        cap = 0 if i % 2 == 0 else max(12 * avg, rng.choice([keys * avg // 3, keys * avg // 2, 16 * avg]))
        wr, rd = rng.choice([(0, 0), (0, 0), (8, 8), (4, 28)])
        procs = rng.choice([0, 0, 0, 64])
        out.append("ch%d writers=%d readers=%d procs=%d keys=%d cap=%d lo=%d hi=%d vers=%d ms=%d seed=%d" % (
            i, wr, rd, procs, keys, cap, lo, hi, vers, ms, rng.randrange(1 << 30)))
    return out


def c07_churn_oracle(line, res):
    r = gens.fields(res)
    if "wrong" in r and r["wrong"] != "0":
        return ("under concurrent stores, lookups and evictions %s of %s cache hits returned octets that no Store "
                "supplied for the looked-up key (%s)" % (r["wrong"], r.get("hits", "?"), r.get("first", "?")))
    return None


def c07_churn_classify(line, res):
    f = gens.fields(line)
    r = gens.fields(res)
    h = int(r.get("hits", "0") or 0)
    return "%s %s hits=%s" % ("ample" if f["cap"] == "0" else "evicting", "len<=%s" % f["hi"],
                              "0" if h == 0 else "<1e5" if h < 100000 else "<1e7" if h < 10000000 else ">=1e7")



# ---------------------------------------------------------------- round 4: the redis write path under load (C07 / C04 / C20)
def redisload_gen(rng, tier):
    """a real cacheCtl (redis backend = real RedisCache / rueidis against the in-process fake, with and without a memory
    backend) stores self-describing answers from several goroutines while the fake delays some SET replies (the set loop
    lags behind its queue), noise goroutines compute cache keys of other names and take pool buffers of the same size
    classes, readers look questions up.  Wall time = sum of ms + ~1.5 s per case (redis ping loop, drain, final sweep)."""
    out = []
    for i in range(budget(tier, 2, 12)):
        slow, slowms = rng.choice([(0, 0), (50, 5), (10, 2), (20, 20)]) if i > 0 else (50, 5)
        out.append("rl%d mem=%d names=%d writers=%d readers=%d noise=%d ms=%d slow=%d slowms=%d seed=%d" % (
            i, i % 2, rng.choice([50, 200, 1000]), rng.choice([1, 2, 4, 8]), rng.choice([1, 2, 4]), rng.choice([0, 2, 4, 8]),
            budget(tier, 1200, 4000), slow, slowms, rng.randrange(1 << 30)))
    return out


def redisload_oracle(line, res):
    r = gens.fields(res)
    if "badsets" not in r:
        return None
    why = []
    if r["badsets"] != "0":
        why.append("%s of %s SET commands reached redis with a key / value pair that nobody stored (%s)" % (
            r["badsets"], r.get("sets", "?"), r.get("badfirst", "?")[:160]))
    if r.get("wrong", "0") != "0":
        why.append("%s of %s cache hits served through cacheCtl.Get were not the asking question's own answer (%s)" % (
            r["wrong"], r.get("gets", "?"), r.get("first", "?")[:200]))
    return "; ".join(why) or None


def redisload_classify(line, res):
    f = gens.fields(line)
    r = gens.fields(res)
    n = int(r.get("sets", "0") or 0)
    return "%s %s sets=%s" % ("memory+redis" if f["mem"] == "1" else "redis-only",
                              "slow-server" if f["slow"] != "0" else "fast-server",
                              "0" if n == 0 else "<1e3" if n < 1000 else ">=1e3")


def redisload_kind():
    return dict(name="redisload", gen=redisload_gen, oracle=redisload_oracle, classify=redisload_classify, model=False,
                timeout=1800, nontrivial=lambda l, r: r.startswith("sets=") and not r.startswith("sets=0 "))


REDISLOAD_RULE = ("; redisload: a real cacheCtl whose redis backend (real RedisCache / rueidis) talks to an in-process fake "
                  "server stores self-describing answers from 1-8 goroutines for 1.2 s per case (4 s thorough) while the "
                  "fake delays some SET replies, noise goroutines compute cache keys of other names and scribble pool "
                  "buffers of the key's / value's size classes, readers look up; oracle at the fake: every SET it receives "
                  "carries, octet for octet, the value that belongs to its key (computed beforehand through the real "
                  "cacheKey / packCacheMsg); oracle at cacheCtl.Get (concurrently and for every question after the drain, "
                  "memory copy dropped first): a hit is the asking question's own answer")

def pressure_ok(ir, mr):
    return True


def c07_same_gen(rng, tier):
    return ["cs%d keys=%d g=%d rounds=%d vlen=%d" % (i, rng.choice([1, 2, 8]), rng.choice([8, 32]), budget(tier, 20000, 200000), rng.choice([40, 600]))
            for i in range(budget(tier, 4, 16))]


def c07_same_oracle(line, res):
    f = gens.fields(res)
    if not res.startswith("n="):
        return None
    if f["miss"] != "0":
        return "%s of %s concurrent lookups of stored, unexpired entries missed (a repeat must be answered from the cache)" % (f["miss"], f["n"])
    if f["bad"] != "0":
        return "%s of %s concurrent lookups returned a value that is not the stored one" % (f["bad"], f["n"])
    return None


PROPS["C07"] = dict(
    kinds=[
        dict(name="cachekey", gen=c07_key_gen, oracle=c07_key_oracle, classify=c07_key_classify,
             respec=key_respec, respec_kind="keyspec", shards=8, timeout=600,
             nontrivial=lambda l, r: True),
        dict(name="cachesame", gen=c07_same_gen, oracle=c07_same_oracle, model=False, timeout=600,
             nontrivial=lambda l, r: True, classify=lambda l, r: "g" + gens.fields(l).get("g", "?")),
        dict(name="marker", gen=c07_marker_gen, oracle=c07_marker_oracle, classify=c07_marker_classify,
             shards=4, timeout=600, nontrivial=lambda l, r: r.startswith("OK")),
        dict(name="cache", gen=c07_cache_gen, oracle=c07_cache_oracle, classify=c07_cache_classify,
             shards=4, timeout=600, nontrivial=lambda l, r: "H" in r),
        dict(name="hitmiss", gen=c07_hitmiss_gen, oracle=c07_hitmiss_oracle, classify=c07_hitmiss_classify,
             shards=8, timeout=600, nontrivial=lambda l, r: "g1=" in r),
        dict(name="cachepress", gen=c07_press_gen, oracle=c07_cache_oracle, model=False, timeout=600,
             classify=c07_cache_classify,
             nontrivial=lambda l, r: "H" in r),
        dict(name="cachestress", gen=c07_stress_gen, oracle=c07_stress_oracle, model=False, timeout=600,
             nontrivial=lambda l, r: True),
        dict(name="cachechurn", gen=c07_churn_gen, oracle=c07_churn_oracle, classify=c07_churn_classify, model=False,
             timeout=1800, nontrivial=lambda l, r: r.startswith("hits=") and not r.startswith("hits=0 ")),
    ],
    rule="cachekey: pairs of requests (identical / equal up to ASCII case / differing in exactly one of name, class, "
         "type, group label / class-type swapped / octets moved between type and label / the K2 collision shape), key of "
         "request 1 computed twice with the byte pool dirtied in between, compared byte-exact with the model and with the "
         "injectivity oracle; marker: generated range files (v4, v6, mixed, adjacent, touching, overlapping, inverted, "
         "duplicate, single address, comments, bad lines) x probes at every range edge in both the IPv4 and the v4-mapped "
         "form; cache: quiescent store/get/evict histories plus the three lost-race states (entry being released, "
         "cleared, recycled for another key) on the real MemoryCache vs the model's schedules; pressure histories "
         "(small capacity) are judged by the oracle only; hitmiss: cacheCtl.Store then cacheCtl.Get (real initCache, "
         "marker file, s2) for request pairs differing in exactly one component or in the client address; cachestress: "
         "8 goroutines on one small MemoryCache, values tagged with their key; cachechurn: all cores for 1.5 s per case "
         "(5 s thorough) on one MemoryCache: writers overwrite / set-if-absent / store with a 1 s lifetime / delete, "
         "readers verify every octet of every hit against the self-identifying value (key, version, length, PRNG "
         "octets) its header names; value lengths stay inside one size class of the byte pool; ample and evicting "
         "capacities. distinct = distinct case line",
    assumptions=["s2.Decode(s2.Encode(x)) = x (section hypothesis of C07_value_unchanged; exercised by kind hitmiss)",
                 "netip.ParseAddr / Addr.As16 are trusted (the model starts from 128-bit numbers; the case generator "
                 "prints them as text for the implementation)",
                 "otter is modelled as a finite map with arbitrary eviction and a clock lagging < 1 s; its deletion "
                 "listener runs at any later time",
                 "Go's sync.RWMutex / sync.Pool semantics (atomic steps of the LTS)"],
    trusted=["C07: the three lost-race states are planted through the hook MemoryCache.VerifPlant (the state a reader "
             "finds after backend.Get when eviction/recycling won the race); the redis backend is not exercised",
             "C07: the buffer-level LTS Cache/CacheBuf.v (pooled arrays under the values, one octet per copy step) is tied "
             "to the code by reading only; its trace property (every hit returns octets some Store supplied for the key) is "
             "the oracle of kind cachechurn, which samples real schedules - sync.Pool / bytespool are modelled as 'any free "
             "array'"],
    level_note="proof: key injectivity, range lookup = linear spec, hit => stored under the same key in every "
               "interleaving, the copy is made under the entry lock and (buffer-level LTS) returns the stored octets "
               "unchanged although arrays are recycled, value round trip, repeat => hit; partial: otter/s2/netip and "
               "the byte pool are modelled (oracles; the buffer-level theorem is tested on the code by the cachechurn "
               "stress, not tied by differential execution), redis path not exercised, the text parser of the marker "
               "file is not modelled below the line level",
)
