# zz_churn20.py - C20 also runs C07's kind "cachechurn" (round 11, seed C20-T): the value buffer of a memory-cache entry is
# pooled memory; Get copies it under the entry's lock, releaseEntry hands it back to the pool - a copy made after the lock
# is dropped reads memory another request may already own.  The buffer-level theorems are C07_copy_under_lock /
# C07_early_unlock_refuted (Cache/CacheBuf.v); the kind samples real schedules.  Loaded last: only APPENDS.
from props import PROPS
from c07 import c07_churn_gen, c07_churn_oracle, c07_churn_classify

PROPS["C20"]["kinds"].append(dict(name="cachechurn", gen=c07_churn_gen, oracle=c07_churn_oracle, classify=c07_churn_classify,
                                  model=False, timeout=1800,
                                  nontrivial=lambda l, r: r.startswith("hits=") and not r.startswith("hits=0 ")))
PROPS["C20"]["rule"] += ("; cachechurn (shared with C07): parallel stores / deletes / lookups / evictions on one MemoryCache, every hit "
                         "must return octets some Store supplied for that key (a value buffer recycled while Get copies it shows as "
                         "foreign octets)")
