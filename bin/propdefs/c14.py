import gens
from props import PROPS, budget

# ---------------------------------------------------------------- C14
# kind "faults": one scripted exchange of a real upstream against a fake loopback server (harness/cmd/implrun/c14.go)
#   <id> tr=<udp|tcp|tcpp|tls|tlsp|doh|doq|pfake> pool=<tok,..|-> dial=<tok,..|-> dl=<ms>
DL_WAIT = (300, 400, 500)      # cases that are expected to end at the deadline
DL_EARLY = 1200                # cases expected to end early: any return before the deadline proves "not waited out"

STALE_DETECTABLE = ("ifin", "irst", "igarb", "fin", "rst", "garbage")


def _line(n, tr, pool, dial, dl, conc=1, idle=0, bg=0):
    return "k%d tr=%s pool=%s dial=%s dl=%d%s%s%s" % (n, tr, ",".join(pool) or "-", ",".join(dial) or "-", dl,
                                                     "" if conc == 1 else " conc=%d" % conc,
                                                     "" if not idle else " idle=%d" % idle,
                                                     "" if not bg else " bg=%d" % bg)


def c14_gen(rng, tier):
    out = []

    def add(tr, pool, dial, wait, conc=1):
        dl = rng.choice(DL_WAIT) if wait else DL_EARLY
        out.append(_line(len(out), tr, pool, dial, dl, conc))

    # --- a pooled pipelined connection goes SILENT (no FIN/RST) while queries keep arriving: only the read loop's idle
    #     deadline can declare it dead; it must fire although exchanges keep WRITING on the connection. Short idle
    #     time-out, background exchanges every 50-80 ms, measured deadline = 5-8 idle time-outs.
    for _ in range(budget(tier, 2, 12)):
        for tr in ("tcpp", "tlsp", "udp"):
            idle = rng.choice([300, 350, 400])
            out.append(_line(len(out), tr, ["silent" if tr == "udp" else rng.choice(["silent", "half"])],
                             ["ok"], rng.choice([2000, 2500, 3000]), idle=idle, bg=rng.choice([50, 60, 80])))
        tr = rng.choice(["tcpp", "tlsp", "udp"])
        # no background traffic: the idle deadline alone (pooled: retried; fresh: the error is returned early)
        out.append(_line(len(out), tr, ["silent"], ["ok"], 2500, idle=rng.choice([300, 400])))
        out.append(_line(len(out), tr, [], ["silent"], 2500, idle=rng.choice([300, 400])))
        # exchange deadline BEFORE the idle time-out: ends at its own deadline, as without idle=
        out.append(_line(len(out), tr, ["silent"], ["ok"], 300, idle=2000))
    reps = budget(tier, 3, 40)
    for _ in range(reps):
        # --- fault x placement matrix on fresh connections (dial / write / read)
        for tr in ("tcp", "tcpp", "tls", "tlsp"):
            add(tr, [], ["ok"], False)
            for d in ("refuse", "efin", "erst", "garbage", "fin", "rst"):
                add(tr, [], [d], False)
            for d in ("blackhole", "silent", "half"):
                add(tr, [], [d], True)
        add("udp", [], ["ok"], False)
        add("udp", [], ["refuse"], False)
        for d in ("silent", "garbage", "half"):
            add("udp", [], [d], True)
        add("doh", [], ["ok"], False)
        for d in ("refuse", "garbage", "fin", "efin"):
            add("doh", [], [d], False)
        for d in ("blackhole", "silent", "half"):
            add("doh", [], [d], True)
        # --- faults on pooled connections (idle period / next use), healthy or faulty server behind
        for tr in ("tcpp", "tlsp"):
            for p in STALE_DETECTABLE:
                add(tr, [p], ["ok"], False)
                add(tr, [p], [rng.choice(["refuse", "fin", "rst", "garbage", "efin"])], False)
            for p in ("silent", "half"):
                add(tr, [p], ["ok"], True)
            add(tr, ["ok"], ["ok"], False)
            add(tr, [rng.choice(STALE_DETECTABLE)], [rng.choice(["silent", "blackhole"])], True)
            # every waiter of a dying pipelined connection is woken: n exchanges wait on the one pooled connection
            add(tr, [rng.choice(["fin", "rst", "garbage"])], ["ok"], False, conc=rng.choice([2, 4, 8]))
            add(tr, [rng.choice(["fin", "rst", "garbage"])], ["refuse"], False, conc=rng.choice([2, 4, 8]))
            add(tr, ["silent"], ["ok"], True, conc=rng.choice([2, 4]))
        add("udp", ["ok"], ["ok"], False)
        add("udp", ["idown"], ["refuse"], False)
        add("udp", [rng.choice(["silent", "garbage", "half"])], ["ok"], True)
        # --- the pipelined retry constant on the real loop (injected dialer, Writes that fail)
        for w in (1, 4, 5, 6, rng.randrange(7, 40)):
            add("pfake", ["werr"] * w + ["ok"], ["ok"], False)
        add("pfake", ["werr"] * rng.randrange(1, 6) + ["ok"], ["refuse"], False)
        add("pfake", [], ["refuse"], False)
        add("doh", ["ifin"], ["ok"], False)
        add("doh", ["ok"], ["ok"], False)
        # --- DoQ: fresh connection faults, the cached connection closed while idle, failing streams on a live connection
        add("doq", [], ["ok"], False)
        for d in ("efin", "garbage", "fin", "rst"):
            add("doq", [], [d], False)
        for d in ("blackhole", "silent", "half"):
            add("doq", [], [d], True)
        add("doq", ["ok"], ["ok"], False)
        add("doq", ["ifin"], ["ok"], False)
        add("doq", ["ifin"], [rng.choice(["fin", "rst", "garbage", "efin"])], False)
        add("doq", ["ifin"], [rng.choice(["silent", "half"])], True)
        for p in ("fin", "rst", "garbage"):
            add("doq", [p], ["ok"], False)
        add("doq", [rng.choice(["silent", "half"])], ["ok"], True)
        # --- the stale-pool scenario on the one-at-a-time transports: k idle connections, the server kills them all
        for tr in ("tcp", "tls"):
            ks = [1, 5, 6, 7, 12] if tr == "tcp" else [1, 6, 7]
            for k in ks:
                add(tr, [rng.choice(STALE_DETECTABLE)] * k, ["ok"], False)
            k = rng.randrange(1, 13)
            add(tr, [rng.choice(STALE_DETECTABLE) for _ in range(k)], ["ok"], False)
            k = rng.randrange(1, 11)
            add(tr, [rng.choice(STALE_DETECTABLE)] * k, [rng.choice(["refuse", "fin", "rst", "garbage", "efin", "erst"])], False)
            k = rng.randrange(1, 11)
            add(tr, [rng.choice(STALE_DETECTABLE)] * k, [rng.choice(["silent", "half", "blackhole"])], True)
            # stale ones and a healthy one: whatever the (random) order the idle set is walked in, the reply comes
            k = rng.randrange(1, 6)
            add(tr, [rng.choice(STALE_DETECTABLE)] * k + ["ok"], ["ok"], False)
            for p in ("silent", "half"):
                add(tr, [p], ["ok"], True)
            add(tr, ["ok"], ["ok"], False)
    return out


def _res(res):
    return gens.fields(res.split(" || ")[0])


def c14_must_succeed(f):
    """the property's own expectation, from the case line alone: a healthy server is reachable (every dial works)
    and every pooled connection either works or fails detectably"""
    pool = [] if f["pool"] == "-" else f["pool"].split(",")
    dial = [] if f["dial"] == "-" else f["dial"].split(",")
    if any(d != "ok" for d in dial):
        return False
    udp = f["tr"] == "udp"
    for p in pool:
        if p == "ok":
            continue
        if f["tr"] == "doq" and p != "ifin":
            return False    # a server failing every stream of the live QUIC connection is not a healthy server
        if p in ("ifin", "irst", "igarb", "fin", "rst", "idown"):
            continue
        if p == "garbage" and not udp:
            continue
        return False
    return True


def c14_oracle(line, res):
    f = gens.fields(line)
    r = _res(res)
    if r.get("res") == "HANG" or r.get("late") == "1":
        return "c14-late: the exchange returned later than its deadline + 1.5 s (%s)" % res
    if r.get("res") not in ("REPLY", "ERR"):
        return "c14-bad-result %s" % res
    tr = f["tr"]
    limit = 6 if tr in ("tcp", "tls") else (0 if tr == "doh" else 5)
    if r.get("dials", "-") != "-" and int(r["dials"]) > 1:
        return "c14-dials: %s dials in one exchange (a failure on a fresh connection must be returned)" % r["dials"]
    if r.get("att", "-") != "-" and int(r["att"]) > limit + 1:
        return "c14-retries: %s attempts, bound is %d" % (r["att"], limit + 1)
    if c14_must_succeed(f) and r.get("res") != "REPLY":
        return ("c14-stale-not-survived: healthy server, every pooled connection fails detectably, "
                "but the exchange failed (dials=%s att=%s)" % (r.get("dials"), r.get("att")))
    pool = [] if f["pool"] == "-" else f["pool"].split(",")
    dial = [] if f["dial"] == "-" else f["dial"].split(",")
    if "idle" in f and tr in ("tcpp", "tlsp", "udp") and 2 * int(f["idle"]) <= int(f["dl"]):
        # a silent connection of a pipelined transport is dead after one idle time-out, well before the deadline
        # (udp: an undecodable or truncated datagram IS a read and re-arms the deadline, so only true silence counts)
        quiet = ("silent",) if tr == "udp" else ("silent", "half")
        if pool and all(p in quiet for p in pool) and all(d == "ok" for d in dial):
            if r.get("res") != "REPLY" or r.get("when") != "early" or r.get("dials") in ("0", None):
                return ("c14-silent-pooled-not-recovered: the pooled connection went silent, the server is healthy for "
                        "new connections and the deadline is %s ms with an idle time-out of %s ms, but the exchange "
                        "did not get its reply over a fresh connection (%s)" % (f["dl"], f["idle"], res))
            if "after" in r and r["after"].startswith("0/"):
                return "c14-silent-pooled-not-recovered: exchanges after the switch-over still fail (%s)" % res
        if not pool and dial and dial[0] in quiet and r.get("when") != "early":
            return "c14-waited-out: a silent fresh pipelined connection was not closed by the idle time-out (%s)" % res
        return None
    waits = ("silent", "half", "blackhole") + (("garbage",) if tr == "udp" else ())
    if r.get("res") == "ERR" and r.get("when") == "dl" and not any(t in waits for t in pool + dial):
        return "c14-waited-out: every fault of the script kills the connection, yet the exchange waited for its deadline"
    return None


def c14_compare(ir, mr):
    a, b = _res(ir), _res(mr)
    for k in ("res", "when"):
        if a.get(k) != b.get(k):
            return False
    for k in ("dials", "att"):
        if a.get(k, "-") != "-" and b.get(k, "-") != "-" and a.get(k) != b.get(k):
            return False
    return True


def c14_classify(line, res):
    f = gens.fields(line)
    r = _res(res)
    np = 0 if f["pool"] == "-" else len(f["pool"].split(","))
    return "%s%s/pool%s/%s/%s" % (f["tr"], "+idle" + ("+bg" if "bg" in f else "") if "idle" in f else "", "0" if np == 0 else ("1" if np == 1 else ("2-6" if np <= 6 else "7+")),
                                r.get("res"), r.get("when"))



# ---------------------------------------------------------------- round 2: kind "outage"
# a SEQUENCE of exchanges of one upstream across a server outage (harness/cmd/implrun/c14b.go):
#   <id> tr=<udp|tcp|tcpp|tls|tlsp|doh|doq|sudp|stcpp|stcp|sdoq> warm=<k> down=<refuse|hsfail|rwfail|rwboth>
#        conc=<n> reps=<r> dl=<ms> after=<m> adl=<ms>
def _og(n, tr, warm, down, conc, reps, dl, after, adl=2500):
    return "o%d tr=%s warm=%d down=%s conc=%d reps=%d dl=%d after=%d adl=%d" % (n, tr, warm, down, conc, reps, dl, after, adl)


def c14_outage_gen(rng, tier):
    out = []

    def add(tr, warm, down, conc, reps=1, after=None, adl=2500):
        out.append(_og(len(out), tr, warm, down, conc, reps, rng.choice([400, 500, 600]),
                       rng.choice([2, 3, 4]) if after is None else after, adl))

    for _ in range(budget(tier, 1, 12)):
        # --- every real transport: the FIRST dial fails (never dialled before), and the RE-DIAL after the pooled
        #     connection went stale fails; refusal and handshake failure; afterwards the server is healthy
        for tr in ("udp", "tcp", "tcpp", "tls", "tlsp", "doh", "doq"):
            # a quic:// upstream dials from an unconnected socket: a closed port is silence, the dial stays in flight
            # and completes (by retransmission) once the server is back
            adl = 4000 if tr == "doq" else 2500
            add(tr, 0, "refuse", 1, adl=adl)
            add(tr, 1, "refuse", rng.choice([2, 4, 8]), adl=adl)
            if tr != "udp":
                add(tr, 0, "hsfail", rng.choice([1, 3]))
                add(tr, 1, "hsfail", rng.choice([1, 2, 4]))
        # --- a refusing UDP port under load: many exchanges in flight on the one pooled socket, writer and read
        #     loop both learn of the failure; follow-up exchanges on the same upstream
        for conc, reps in ((8, 2), (16, 3), (32, 2), (rng.choice([4, 12, 24, 48]), rng.choice([1, 2, 4]))):
            add("udp", rng.choice([0, 1]), "refuse", conc, reps)
        # --- the one-at-a-time transports with several stale idle connections left over
        for tr in ("tcp", "tls"):
            add(tr, rng.choice([2, 3, 5]), rng.choice(["refuse", "hsfail"]), rng.choice([1, 2, 3]))
        # --- scripted dialers: refusal on demand; connections whose Write and Read both fail
        for down in ("refuse", "rwfail", "rwboth"):
            add("sudp", 0, down, 1)
            add("sudp", 1, down, rng.choice([2, 4, 8]), rng.choice([1, 2]))
            add("stcp", rng.choice([0, 1, 2]), down, rng.choice([1, 2, 3]))
        for down in ("refuse", "rwboth"):
            add("stcpp", rng.choice([0, 1]), down, rng.choice([1, 2, 4]))
        add("sdoq", 0, "refuse", 1)
        add("sdoq", 1, "refuse", rng.choice([1, 2, 4, 8]), rng.choice([1, 2]))
        add("sdoq", rng.choice([0, 1]), "refuse", rng.choice([2, 3]), 1, after=rng.choice([1, 4]))
    return out


def c14_outage_oracle(line, res):
    f = gens.fields(line)
    r = _res(res)
    burst, after = r.get("burst"), r.get("after", "")
    if burst == "HANG":
        return ("c14-late: an exchange made while the server was down (%s) had not returned %s ms after its %s ms "
                "deadline (%s)" % (f["down"], 2500, f["dl"], res))
    if "H" in after:
        return ("c14-late: after the outage an exchange on the same upstream never returned (deadline %s ms): %s"
                % (f["adl"], res))
    if r.get("late") == "1" or "L" in after:
        return "c14-late: an exchange returned later than its deadline + 1.5 s (%s)" % res
    if burst not in ("ERR", "REPLY", "MIXED") or any(c not in "RE-" for c in after):
        return "c14-bad-result %s" % res
    if "E" in after:
        return ("c14-not-recovered: the server is healthy again on the same address, but %d of %d later exchanges "
                "(each with a new %s ms deadline) failed; dials after the recovery: %s, connections the server "
                "accepted: %s" % (after.count("E"), len(after), f["adl"], r.get("nd"), r.get("acc")))
    return None


def c14_outage_compare(ir, mr):
    a, b = _res(ir), _res(mr)
    for k in ("burst", "after"):
        if a.get(k) != b.get(k):
            return False
    if a.get("nd", "-") != "-" and b.get("nd", "-") != "-" and a.get("nd") != b.get("nd"):
        return False
    return True


def c14_outage_classify(line, res):
    f = gens.fields(line)
    r = _res(res)
    conc = int(f["conc"]) * int(f["reps"])
    return "%s/%s/warm%s/conc%s/%s/%s" % (f["tr"], f["down"], "0" if f["warm"] == "0" else "1+",
                                        "1" if conc == 1 else ("2-8" if conc <= 8 else "9+"), r.get("burst"),
                                        "recovered" if set(r.get("after", "")) <= set("R-") else "not-recovered")


# ---------------------------------------------------------------- round 2: kind "connlock"
# goroutines running the lock-protected operations of ONE real pipelineConn (harness/cmd/implrun/c14c.go)
CL_OPS = ("close", "status", "getq", "reserve", "add", "del")


def c14_connlock_gen(rng, tier):
    out = []
    for _ in range(budget(tier, 40, 600)):
        progs = []
        for _g in range(rng.randrange(1, 5)):
            progs.append(",".join(rng.choice(CL_OPS) if rng.random() < 0.7 else "close" for _o in range(rng.randrange(1, 5))))
        out.append("l%d eol=%d g=%s" % (len(out), 1 if rng.random() < 0.3 else 0, ";".join(progs)))
    return out


def c14_connlock_oracle(line, res):
    r = _res(res)
    m = (r.get("done") or "0/1").split("/")
    if r.get("final") != "ok" or m[0] != m[1]:
        return ("c14-conn-lock-stuck: a call on the pipelined connection (closeWithErr / Status / Reserve / addQueueC / "
                "deleteQueueC) never returned - the connection mutex is held by nobody who would release it (%s)" % res)
    return None


def c14_connlock_classify(line, res):
    f = gens.fields(line)
    r = _res(res)
    ncl = f["g"].count("close") + (f["g"].count("del") if f["eol"] == "1" else 0)
    return "eol%s/closes%s/closed%s/%s" % (f["eol"], "0" if ncl == 0 else ("1" if ncl == 1 else "2+"), r.get("closed"), r.get("final"))



# ---------------------------------------------------------------- round 3: kind "aged"
# a healthy pooled connection AGES between exchanges (harness/cmd/implrun/c14d.go); default time-outs of NewUpstream:
# TLS handshake 3 s, dial 5 s, one-shot I/O 6 s, idle 10 s (udp 60 s, doh/doq 30 s)
AGED_TR = ("udp", "tcp", "tcpp", "tls", "tlsp", "doh", "doq")


def c14_aged_gen(rng, tier):
    out = []

    def add(tr, age, tick=0, n=2):
        out.append("g%d tr=%s age=%d tick=%d n=%d" % (len(out), tr, age, tick, n))

    for tr in AGED_TR:
        # 0, just below / above the handshake time-out, above the dial and one-shot I/O time-outs (all below idle)
        for age in (0, rng.choice([2500, 2700]), rng.choice([3300, 3500]), rng.choice([6400, 6800])):
            add(tr, age)
        # sustained traffic on the one connection across the handshake time-out
        add(tr, rng.choice([3800, 4200]), tick=rng.choice([500, 700]))
    if tier == "thorough":
        for tr in AGED_TR:
            for age in (1000, 2900, 3100, 4800, 5300, 5900, 6100, 8000):
                add(tr, age, n=3)
            add(tr, 8000, tick=900)
        # udp: the pooled socket lives for one minute of silence; an exchange in flight while the silence passes the
        # 10 s default idle time-out of the other transports is neither cut off nor sent twice
        out.append("g%d tr=udp age=12000 tick=0 n=2" % len(out))
        out.append("g%d tr=udp age=30000 tick=0 n=2" % len(out))
        out.append("g%d tr=udp age=9000 tick=0 n=1 dl=4000 delay=2000" % len(out))
        out.append("g%d tr=udp age=8500 tick=0 n=2 dl=4000 delay=2500" % len(out))
    return out


def c14_aged_oracle(line, res):
    f = gens.fields(line)
    r = _res(res)
    s = r.get("res", "")
    if r.get("late") == "1" or "H" in s or "L" in s:
        return "c14-late: an exchange on the aged pooled connection returned later than its deadline + 1.5 s (%s)" % res
    if s == "" or any(c not in "RE" for c in s):
        return "c14-bad-result %s" % res
    if "E" in s:
        return ("c14-aged-connection: healthy server, the pooled connection is %s ms old (below the idle time-out), "
                "but %d of %d exchanges failed; new connections seen by the server: %s (%s)"
                % (f["age"], s.count("E"), len(s), r.get("acc"), res))
    if f["tr"] == "udp" and int(f["age"]) < 55000:
        if "qs" in r and int(r["qs"]) > len(s):
            return ("c14-udp-query-duplicated: %d exchanges after the pause, but the server received %s query datagrams: "
                    "an exchange in flight was cut off by an idle time-out and sent again (%s)" % (len(s), r["qs"], res))
        if int(f["age"]) >= 10000 and r.get("acc") not in (None, "0"):
            return ("c14-udp-socket-not-reused: after %s ms of silence (below the one minute idle time-out of a udp "
                    "upstream) the exchange came from a NEW socket (%s)" % (f["age"], res))
    return None


def c14_aged_compare(ir, mr):
    a, b = _res(ir), _res(mr)
    allr = a.get("res", "") != "" and set(a.get("res", "")) <= set("R")
    # acc (connections the server saw) is reported, not compared: an extra connection does not concern the property and
    # the count is exposed to timing (idle timers under load) and to other processes connecting to a loopback port
    return ("ALLR" if allr else "FAIL") == b.get("res")


def c14_aged_classify(line, res):
    f = gens.fields(line)
    age = int(f["age"])
    b = "0" if age == 0 else ("<3s" if age < 3000 else ("3-6s" if age < 6000 else "6s+"))
    return "%s/age%s/%s/%s" % (f["tr"], b, "tick" if f["tick"] != "0" else "silent",
                               "ok" if set(_res(res).get("res", "E")) <= set("R") else "failed")


# ---------------------------------------------------------------- round 3: kind "dup"
# the server sends every reply k times (back to back / interleaved), then follow-up exchanges on the same upstream
def c14_dup_gen(rng, tier):
    out = []

    def add(tr, k, mode, conc, after=3):
        out.append("u%d tr=%s k=%d mode=%s conc=%d after=%d dl=%d" % (len(out), tr, k, mode, conc, after,
                                                                        rng.choice([500, 600, 700])))

    for _ in range(budget(tier, 1, 10)):
        for tr in ("udp", "tcpp", "tlsp"):
            for k in (1, 2, 3, 4, 8):
                add(tr, k, "b2b", 1)
                add(tr, k, rng.choice(["b2b", "inter"]), rng.choice([2, 3, 4, 8]))
            add(tr, rng.choice([3, 5, 16]), "inter", rng.choice([2, 4]), after=rng.choice([1, 5]))
    return out


def c14_dup_oracle(line, res):
    f = gens.fields(line)
    r = _res(res)
    first, after = r.get("first"), r.get("after", "")
    if first == "HANG" or "H" in after or "L" in after or r.get("late") == "1":
        return "c14-late: an exchange returned later than its deadline + 1.5 s (%s)" % res
    if first not in ("REPLY", "ERR", "MIXED") or any(c not in "RE-" for c in after):
        return "c14-bad-result %s" % res
    if first != "REPLY" or "E" in after or r.get("when") != "early":
        return ("c14-duplicate-replies: the server answers every query (each reply %s times, %s), but an exchange "
                "failed or waited out its %s ms deadline: the connection is no longer read (%s)"
                % (f["k"], f["mode"], f["dl"], res))
    return None


def c14_dup_compare(ir, mr):
    a, b = _res(ir), _res(mr)
    return all(a.get(k) == b.get(k) for k in ("first", "after", "when"))


def c14_dup_classify(line, res):
    f = gens.fields(line)
    k = int(f["k"])
    r = _res(res)
    return "%s/k%s/%s/conc%s/%s" % (f["tr"], "1" if k == 1 else ("2" if k == 2 else "3+"), f["mode"],
                                   "1" if f["conc"] == "1" else "2+",
                                   "ok" if r.get("first") == "REPLY" and set(r.get("after", "E")) <= set("R-") else "failed")



# ---------------------------------------------------------------- round 4: kind "streams"
# exchanges abandoned at their deadline on one multiplexed connection whose peer allows m concurrent streams
def c14_streams_gen(rng, tier):
    out = []

    def add(tr, m, k, fault, conc, after=3, fin=None, aconc=0):
        out.append("t%d tr=%s m=%d k=%d fault=%s conc=%d dl=%d after=%d%s%s" % (
            len(out), tr, m, k, fault, conc, rng.choice([250, 300, 350]), after,
            "" if fin is None else " fin=%s" % fin, "" if not aconc else " aconc=1"))

    for _ in range(budget(tier, 1, 8)):
        for tr in ("doq", "doh"):
            for fault in ("lie", "silent"):
                m = rng.choice([2, 3, 4])
                add(tr, m, m, fault, 0)                                  # exactly the limit, one after the other
                add(tr, m, m + rng.choice([1, 2, 4]), fault, rng.choice([0, 1]))
                add(tr, rng.choice([4, 6]), rng.choice([1, 2, 3]), fault, 1)   # below the limit
            add(tr, 4, 8, rng.choice(["lie", "silent"]), 1, after=rng.choice([1, 5]))
        # --- round 6: the server ANSWERS correctly but treats its side of the stream in its own way; limit + k
        #     answered exchanges on the one connection, one after the other and in batches
        for fin in ("never", "late", "reset"):
            m = rng.choice([3, 4])
            add("doq", m, 0, "lie", 0, after=m + rng.choice([2, 4, 6]), fin=fin)
            m = rng.choice([3, 4, 6])
            add("doq", m, 0, "lie", 0, after=2 * m + rng.choice([1, 3]), fin=fin, aconc=1)
        add("doq", 3, 3, rng.choice(["lie", "silent"]), 1, after=6, fin=rng.choice(["never", "late", "reset"]))
        # HTTP: a response is complete only when its stream has ended; "late" is the conforming variant, "nofin" (the
        # whole body, the stream never ended) is abandoned at the deadline
        for tr in ("doh", "h3"):
            m = rng.choice([3, 4])
            add(tr, m, 0, "lie", 0, after=m + rng.choice([2, 4]), fin="late")
            add(tr, m, 0, "lie", 0, after=2 * m + 1, fin=rng.choice(["now", "late"]), aconc=1)
        add("doh", 4, rng.choice([4, 6]), "nofin", rng.choice([0, 1]), after=4)
        # h3 (the library's client): abandoned exchanges below the limit only - whether the http3 SERVER gives a stream
        # back before its handler returns is the server's business
        add("h3", 4, 2, rng.choice(["nofin", "silent", "lie"]), rng.choice([0, 1]), after=4, fin=rng.choice(["now", "late"]))
    return out


def c14_streams_oracle(line, res):
    f = gens.fields(line)
    r = _res(res)
    bad, after = r.get("bad", ""), r.get("after", "")
    if r.get("late") == "1" or "H" in bad + after or "L" in bad + after:
        return "c14-late: an exchange returned later than its deadline + 1.5 s (%s)" % res
    if after == "" or any(c not in "RE" for c in bad + after):
        return "c14-bad-result %s" % res
    if "E" in after:
        if int(f["k"]) == 0:
            return ("c14-stream-capacity-leaked: the server answers every query correctly (its side of the stream: %s) "
                    "and allows %s concurrent streams; at most %s exchanges were in flight at a time, but %d of %d "
                    "failed; streams still open at the server afterwards: %s (%s)"
                    % (f.get("fin", "now"), f["m"], "m-1" if f.get("aconc") == "1" else "1", after.count("E"),
                       len(after), r.get("left"), res))
        return ("c14-stream-capacity-leaked: %s exchanges were abandoned at their deadline (%s) on a connection whose "
                "peer allows %s concurrent streams; afterwards the server answers every query, but %d of %d exchanges "
                "failed (%s)" % (f["k"], f["fault"], f["m"], after.count("E"), len(after), res))
    if r.get("left") not in (None, "0") and f["tr"] == "doq":
        return ("c14-stream-credit-not-returned: every exchange is over, but the server still counts %s of the streams "
                "it ANSWERED as open (its side: %s): the client never told it to stop sending (%s)"
                % (r["left"], f.get("fin", "now"), res))
    return None


def c14_streams_compare(ir, mr):
    a, b = _res(ir), _res(mr)
    if a.get("bad") != b.get("bad") or a.get("after") != b.get("after"):
        return False
    return "left" not in a or "left" not in b or a["left"] == b["left"]


def c14_streams_classify(line, res):
    f = gens.fields(line)
    k, m = int(f["k"]), int(f["m"])
    return "%s/%s/%s/%s" % (f["tr"], f["fault"], "below" if k < m else ("limit" if k == m else "above"),
                            "ok" if set(_res(res).get("after", "E")) <= set("R") else "failed")


# ---------------------------------------------------------------- round 4: kind "stall"
# the server accepts and never reads; the upstream is built by the router's initUpstream (socket.so_sndbuf small)
def c14_stall_gen(rng, tier):
    out = []

    def add(tr, n, pad, sndbuf, srv):
        out.append("w%d tr=%s n=%d pad=%d sndbuf=%d dl=6000 srv=%s" % (len(out), tr, n, pad, sndbuf, srv))

    for _ in range(budget(tier, 1, 4)):
        for tr in ("tcpp", "tlsp"):
            add(tr, rng.choice([24, 32, 48]), 4000, 4096, "one")
            add(tr, rng.choice([12, 16]), rng.choice([2000, 8000]), rng.choice([4096, 8192]), "one")
        add(rng.choice(["tcpp", "tlsp"]), 24, 4000, 4096, "all")       # known finding K8
        for tr in ("tcp", "tls"):
            add(tr, 6, 4000, 4096, rng.choice(["one", "all"]))
    return out


def c14_stall_oracle(line, res):
    f = gens.fields(line)
    r = _res(res)
    if r.get("res") == "HANG" or r.get("late") == "1":
        return ("c14-late: the server accepted the connection and stopped reading; %s of the %s exchanges (deadline %s "
                "ms) were not back %s ms after their start - a Write blocked in the kernel is not ended in time (%s)"
                % (("some", f["n"], f["dl"], int(f["dl"]) + 1500, res)))
    if r.get("res") not in ("ERR", "REPLY", "MIXED"):
        return "c14-bad-result %s" % res
    return None


def c14_stall_compare(ir, mr):
    a, b = _res(ir), _res(mr)
    if b.get("res") == "ANY":      # known finding K8: late or not, depending on how the retries are spread
        return True
    return a.get("res") == b.get("res") and a.get("late") == b.get("late")



# ---------------------------------------------------------------- round 6: kind "idlimit"
# a pipelined connection runs out of wire ids between two exchanges (connections born at nextQid = q0)
def c14_idlimit_gen(rng, tier):
    out = []
    for _ in range(budget(tier, 1, 6)):
        for tr in ("udp", "tcpp"):
            for q0 in (65535, 65534, rng.choice([65530, 65532, 65533])):
                out.append("i%d tr=%s q0=%d n=%d" % (len(out), tr, q0, rng.choice([4, 6, 9])))
            out.append("i%d tr=%s q0=%d n=4" % (len(out), tr, rng.choice([0, 1000, 65000])))
    return out


def c14_idlimit_oracle(line, res):
    f = gens.fields(line)
    r = _res(res)
    s = r.get("res", "")
    if r.get("late") == "1" or "H" in s or "L" in s:
        return "c14-late: an exchange returned later than its deadline + 1.5 s (%s)" % res
    if s == "" or any(c not in "RE" for c in s):
        return "c14-bad-result %s" % res
    if "E" in s:
        return ("c14-exhausted-connection-not-replaced: healthy server; the pooled connection ran out of wire ids (they "
                "start at %s), but the exchange that met it was not carried by another connection: %d of %d failed, "
                "connections seen by the server: %s (%s)" % (f["q0"], s.count("E"), len(s), r.get("acc"), res))
    return None



# ---------------------------------------------------------------- round 9: kind "streamwait"
# the peer's stream limit is used up by unanswered exchanges with long deadlines; one more with a short deadline
def c14_streamwait_gen(rng, tier):
    out = []
    for _ in range(budget(tier, 1, 6)):
        for m in (1, 2, rng.choice([3, 4])):
            out.append("q%d m=%d long=%d short=%d" % (len(out), m, rng.choice([2000, 2500]), rng.choice([100, 200, 300])))
    return out


def c14_streamwait_oracle(line, res):
    f = gens.fields(line)
    r = _res(res)
    if r.get("short") == "H" or r.get("late") == "1":
        return ("c14-late: the server allows %s streams, all held by unanswered exchanges (deadline %s ms); one more "
                "exchange with a %s ms deadline was not back %d ms after its start (%s)"
                % (f["m"], f["long"], f["short"], int(f["short"]) + 400, res))
    if r.get("short") not in ("E", "R"):
        return "c14-bad-result %s" % res
    return None



# ---------------------------------------------------------------- round 9: kind "uptimeouts"
UT_SCHEMES = ("udp", "tcp", "tcp+pipeline", "tls", "tls+pipeline", "https")


def c14_uptimeouts_gen(rng, tier):
    out = []
    for sc in UT_SCHEMES:
        out.append("z%d scheme=%s opt=0" % (len(out), sc))
        out.append("z%d scheme=%s opt=%d" % (len(out), sc, rng.choice([500, 2000, 7000, 45000, 120000])))
    return out


def c14_uptimeouts_oracle(line, res):
    f = gens.fields(line)
    r = _res(res)
    if "idle" not in r:
        return "c14-bad-result %s" % res
    if int(r["idle"]) <= 0:
        return ("c14-no-idle-limit: a %s upstream built with the idle time-out option %s keeps its idle connections for "
                "ever (idle time-out %s ms): a connection that died silently is reused and the exchange fails at its "
                "deadline (%s)" % (f["scheme"], "unset" if f["opt"] == "0" else f["opt"] + " ms", r["idle"], res))
    return None


PROPS["C14"] = dict(
    kinds=[dict(name="faults", gen=c14_gen, oracle=c14_oracle, compare=c14_compare, classify=c14_classify,
                nontrivial=lambda l, r: True, timeout=900),
           dict(name="outage", gen=c14_outage_gen, oracle=c14_outage_oracle, compare=c14_outage_compare,
                classify=c14_outage_classify, nontrivial=lambda l, r: True, timeout=900),
           dict(name="connlock", gen=c14_connlock_gen, oracle=c14_connlock_oracle,
                compare=lambda a, b: a.split(" || ")[0] == b.split(" || ")[0],
                classify=c14_connlock_classify, nontrivial=lambda l, r: True, timeout=600),
           dict(name="dup", gen=c14_dup_gen, oracle=c14_dup_oracle, compare=c14_dup_compare,
                classify=c14_dup_classify, nontrivial=lambda l, r: True, timeout=600),
           dict(name="aged", gen=c14_aged_gen, oracle=c14_aged_oracle, compare=c14_aged_compare,
                classify=c14_aged_classify, nontrivial=lambda l, r: True, timeout=900),
           dict(name="streams", gen=c14_streams_gen, oracle=c14_streams_oracle, compare=c14_streams_compare,
                classify=c14_streams_classify, nontrivial=lambda l, r: True, timeout=600),
           dict(name="stall", gen=c14_stall_gen, oracle=c14_stall_oracle, compare=c14_stall_compare,
                classify=lambda l, r: "%s/%s/%s" % (gens.fields(l)["tr"], gens.fields(l)["srv"], _res(r).get("res")),
                nontrivial=lambda l, r: True, timeout=600),
           dict(name="idlimit", gen=c14_idlimit_gen, oracle=c14_idlimit_oracle,
                compare=lambda a, b: _res(a).get("res") == _res(b).get("res") and _res(a).get("acc") == _res(b).get("acc"),
                classify=lambda l, r: "%s/%s" % (gens.fields(l)["tr"], "ok" if set(_res(r).get("res", "E")) <= set("R") else "failed"),
                nontrivial=lambda l, r: True, timeout=300),
           dict(name="streamwait", gen=c14_streamwait_gen, oracle=c14_streamwait_oracle,
                compare=lambda a, b: _res(a).get("short") == _res(b).get("short") and _res(a).get("late") == _res(b).get("late"),
                nontrivial=lambda l, r: True, timeout=300),
           dict(name="uptimeouts", gen=c14_uptimeouts_gen, oracle=c14_uptimeouts_oracle,
                compare=lambda a, b: _res(a).get("idle") == _res(b).get("idle"),
                nontrivial=lambda l, r: True, timeout=120)],
    rule="one scripted exchange of a real upstream.NewUpstream (udp, tcp, tcp+pipeline, tls, tls+pipeline, https/h2, quic) "
         "against a fake loopback server (DoQ: quic-go server): refuse / black-hole dial / accept-and-close / silent / half frame / garbage / "
         "FIN / RST on fresh connections, and on pooled connections while idle or at their next use, incl. k = 1, 5, 6, "
         "7, 12 stale idle connections; outage: sequences of exchanges across a server outage on the same port (first "
         "dial / re-dial after a stale pooled connection fails by refusal or handshake error, 1-64 exchanges meanwhile, "
         "then a healthy server: every exchange returns by its deadline + 1.5 s and the later ones get their reply) for "
         "udp, tcp, tcp+pipeline, tls, tls+pipeline, https, quic and the transport constructors over scripted dialers "
         "(incl. connections whose Write and Read both fail); connlock: goroutines running the lock-protected "
         "operations of one real pipelineConn against the model of its mutex; dup: every reply sent 1, 2, 3, 4, 8 times "
         "(back to back / interleaved) on udp, tcp+pipeline, tls+pipeline, then follow-up exchanges that must succeed "
         "promptly; aged: a healthy pooled connection ages 0 / 2.5 / 3.5 / 6.5 s (below, above the handshake, dial and "
         "one-shot I/O time-outs, below the idle time-out), silently or under traffic, for all seven upstream kinds: "
         "every exchange must get its reply; distinct = distinct case line; all are "
         "non-trivial (each runs real sockets / the real connection object)",
    assumptions=["loopback TCP/UDP/TLS delivery; context deadlines 300-500 ms for cases expected to wait, 1200 ms "
                 "otherwise; 1.5 s slack on the return time; 'early' = returned before the deadline",
                 "a Write of one query is accepted by the kernel promptly (a blocked Write on a pipelined connection "
                 "is bounded by the idle read deadline, not by ctx)"],
    trusted=["C14: real time, kernel socket behaviour, TLS, net/http (DoH) and goroutine scheduling are sampled by the "
             "fault scripts, not modelled"],
    level_note="partial: the theorems cover the retry/select logic of one exchange at atomic-action granularity "
               "against an adversarial environment, the mutex discipline of one pipelined connection (never left locked, "
               "no deadlock, second close is a no-op) and the shared dialing call of QuicTransport (a finished call is "
               "never joined, a failed dial is followed by a new one); wall-clock deadlines, kernel buffering and "
               "scheduling are only sampled by the fault and outage scripts",
)
