# zz_redis.py - kinds on the redis path of the cache that belong to several properties (round 4).
# Loaded LAST (alphabetical order; after c04.py, c07.py, c20.py and router.py), so that it only APPENDS to the kind lists
# and the case streams of all earlier kinds stay what they were for a given VERIF_SEED.
from props import PROPS
from c07 import redisload_kind, REDISLOAD_RULE

REDIS_TRUST = ("redis backend (round 4): exercised against an in-process fake server (RESP2: PING, GET, SET [NX] PX); the "
               "oracle of kind redisload sits in that fake and sees the octets of every SET as they arrive on the wire")

# C07: cached answers go only to the same question - also when they travel through redis
# C04: a cached answer (from redis, too) is the answer to the response's own question, never data of another query
# C20: a pooled key / value buffer handed to the redis set goroutine is neither released nor rewritten while the command
#      that references it (zero-copy) is still in flight
for pid in ("C07", "C04", "C20"):
    PROPS[pid]["kinds"].append(redisload_kind())
    PROPS[pid]["rule"] += REDISLOAD_RULE
    PROPS[pid]["trusted"].append(pid + " " + REDIS_TRUST)
