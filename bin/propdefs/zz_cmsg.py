# zz_cmsg.py - kind "cmsg" (C03, round 11): internal/udpcmsg - the ancillary data of a multi_routes UDP listener
# (ParseLocalAddr / CmsgSize / CmsgPktInfo) against Net/Cmsg.v.  Loaded last: only APPENDS to C03's kinds.
import struct
import gens
from props import PROPS, budget


def _hdr(ln, level, typ):
    return struct.pack("<QII", ln & (2**64 - 1), level & 0xffffffff, typ & 0xffffffff)


def _msg(level, typ, data, ln=None):
    pad = (-len(data)) % 8
    return _hdr(16 + len(data) if ln is None else ln, level, typ) + data + bytes(pad)


def _rb(rng, n):
    return bytes(rng.randrange(256) for _ in range(n))


def _addr4(rng):
    return rng.choice([bytes([127, 0, 0, rng.randrange(1, 255)]), bytes([10, rng.randrange(256), 0, 1]), _rb(rng, 4), bytes(4)])


def _addr6(rng):
    return rng.choice([bytes(10) + b"\xff\xff" + _addr4(rng),          # v4-mapped (a dual-stack socket)
                       bytes(15) + b"\x01", b"\xfe\x80" + bytes(6) + _rb(rng, 8), _rb(rng, 16),
                       bytes(10) + b"\xff\xfe" + _rb(rng, 4), bytes(9) + b"\x01\xff\xff" + _rb(rng, 4), bytes(16)])


def _other(rng):
    # control messages that are not PKTINFO: IP_TTL (0/2), IP_TOS (0/1), SO_TIMESTAMP (1/29), IPV6_HOPLIMIT (41/52), near misses
    level, typ = rng.choice([(0, 2), (0, 1), (1, 29), (41, 52), (0, 50), (41, 8), (8, 0), (50, 41), (0x100000000 - 1, 8), (256, 8), (0, 8 + 256)])
    return _msg(level, typ, _rb(rng, rng.choice([0, 1, 4, 8, 12, 16, 20, 24])))


def _pkt4(rng, dst=None):
    dst = dst or _addr4(rng)
    return _msg(0, 8, struct.pack("<I", rng.randrange(1, 9)) + rng.choice([dst, _addr4(rng)]) + dst)


def _pkt6(rng, dst=None):
    return _msg(41, 50, (dst or _addr6(rng)) + struct.pack("<I", rng.randrange(1, 9)))


def _kernel_oob(rng):
    parts = [_other(rng) for _ in range(rng.choice([0, 0, 1, 2]))]
    r = rng.random()
    if r < 0.45:
        parts.append(_pkt4(rng))
    elif r < 0.9:
        parts.append(_pkt6(rng))
    parts += [rng.choice([_other, _pkt4, _pkt6])(rng) for _ in range(rng.choice([0, 0, 1]))]
    return b"".join(parts)


def _malformed(rng):
    k = rng.randrange(9)
    if k == 0:
        return _rb(rng, rng.randrange(1, 16))                          # shorter than a header
    if k == 1:
        return _hdr(rng.choice([0, 1, 15]), 0, 8) + _rb(rng, 16)       # Len < 16
    if k == 2:
        d = _rb(rng, 12)
        return _hdr(16 + 12 + rng.choice([1, 4, 5, 2**32, 2**63]), 0, 8) + d + bytes(4)   # Len > len(b)
    if k == 3:
        return _msg(0, 8, _rb(rng, rng.choice([0, 4, 8, 11])))          # short Inet4Pktinfo
    if k == 4:
        return _msg(41, 50, _rb(rng, rng.choice([0, 12, 16, 19])))      # short Inet6Pktinfo
    if k == 5:
        return _other(rng) + _msg(0, 8, _rb(rng, 11))                   # an error behind a good message
    if k == 6:
        return _other(rng) + _rb(rng, rng.randrange(1, 16))             # a tail of 1..15 octets (model: UNSAFE)
    if k == 7:
        return _hdr(16, 1, 1)[:16] + _hdr(28, 0, 8) + _rb(rng, 12)      # unpadded last message (Len = rest exactly)
    return _rb(rng, rng.randrange(16, 64))


def cmsg_gen(rng, tier):
    out = []
    n = budget(tier, 400, 8000)
    for i in range(n):
        r = i % 10
        if r < 4:
            oob = _kernel_oob(rng) if rng.random() < 0.7 else _malformed(rng)
            out.append("cp%d op=parse oob=%s" % (i, gens.hx(oob)))
        elif r < 7:
            a = rng.choice([_addr4, _addr6, _addr6, lambda _r: b""])(rng)
            b = rng.choice([b"", _rb(rng, rng.choice([1, 16, 31, 32, 33, 39, 40, 41, 64])), b"\xff" * rng.choice([32, 40, 48])])
            out.append("ck%d op=pack b=%s addr=%s" % (i, gens.hx(b), gens.hx(a)))
        else:
            oob = _kernel_oob(rng) if rng.random() < 0.85 else _malformed(rng)
            out.append("cr%d op=reply b=%s oob=%s" % (i, gens.hx(_rb(rng, rng.choice([1, 3, 7]))), gens.hx(oob)))
    return out


def _first_pktinfo_dst(oob):
    """independent reader of well-formed ancillary data: destination of the first PKTINFO, unmapped; None when the data
    is not a sequence of well-formed padded messages or holds a short PKTINFO"""
    p = 0
    while p < len(oob):
        if len(oob) - p < 16:
            return None
        ln, level, typ = struct.unpack("<QII", oob[p:p + 16])
        if ln < 16 or ln > len(oob) - p:
            return None
        data = oob[p + 16:p + ln]
        if (level, typ) == (0, 8):
            return ("4:" + data[8:12].hex()) if len(data) >= 12 else None
        if (level, typ) == (41, 50):
            if len(data) < 20:
                return None
            a = data[:16]
            return ("4:" + a[12:].hex()) if a[:12] == bytes(10) + b"\xff\xff" else ("6:" + a.hex())
        p += (ln + 7) & ~7
    return "none"


def cmsg_oracle(line, res):
    f = gens.fields(line)
    if res.startswith("PANIC") or res.startswith("HANG") or res.startswith("CRASH"):
        return "internal/udpcmsg %s on %s" % (res.split()[0], f["op"])
    if f["op"] == "reply":
        want = _first_pktinfo_dst(bytes.fromhex(f["oob"]) if f["oob"] != "-" else b"")
        if want is None:
            return None
        r = gens.fields(res)
        if want == "none":
            return None if r.get("out") == "nil" else "no PKTINFO in the query's ancillary data, yet the response carries one: " + res
        if r.get("src") != want + "/0":
            return ("the query arrived at local address %s; the ancillary data of the response makes the kernel send from %s "
                    "(a client matches a UDP response by its source address)" % (want, r.get("src")))
    if f["op"] == "pack" and f["addr"] not in ("-", ""):
        a = bytes.fromhex(f["addr"])
        want = ("4:" + a.hex()) if len(a) == 4 else (("4:" + a[12:].hex()) if a[:12] == bytes(10) + b"\xff\xff" else "6:" + a.hex())
        r = gens.fields(res)
        if r.get("src") != want + "/0":
            return "CmsgPktInfo(%s): the kernel would send from %s" % (want, r.get("src"))
        if r.get("out") not in (None, "nil") and int(r.get("size", "0")) != len(r["out"]) // 2:
            return "CmsgSize = %s but the packed message has %d octets" % (r.get("size"), len(r["out"]) // 2)
    return None


def cmsg_compare(ir, mr):
    # a header cast past the slice (model: UNSAFE) reads whatever lies behind the slice: nothing to compare
    return True if mr == "UNSAFE" or "UNSAFE" in mr else ir == mr


def cmsg_classify(line, res):
    f = gens.fields(line)
    return f["op"] + ":" + (res.split(":")[0].split("=")[0] if f["op"] == "parse" else ("nil" if "out=nil" in res else res.split("src=")[-1][:1]))


PROPS["C03"]["kinds"].append(dict(name="cmsg", gen=cmsg_gen, oracle=cmsg_oracle, compare=cmsg_compare, classify=cmsg_classify,
                                  nontrivial=lambda l, r: r not in ("ERR", "none") and "out=nil" not in r, timeout=300))
PROPS["C03"]["rule"] += ("; cmsg: ancillary data of a multi_routes UDP listener (kernel-built message lists with PKTINFO among other "
                         "messages, v4 / v6 / v4-mapped; malformed stream: short header, Len out of range, short PKTINFO, ragged tail, "
                         "unpadded last message; recycled buffers with old content): ParseLocalAddr / CmsgSize / CmsgPktInfo octet for "
                         "octet against Net/Cmsg.v, oracle = the kernel would send the response from the query's destination address")
PROPS["C03"]["trusted"].append("C03 cmsg: linux/amd64 layout of Cmsghdr / Inet4Pktinfo / Inet6Pktinfo and the kernel's reading of "
                               "IP_PKTINFO (source = ipi_spec_dst) / IPV6_PKTINFO on sendmsg are modelled (cm_kernel_src), and sampled end "
                               "to end by kinds handle (udpmr) and udpmrstress on loopback addresses")
