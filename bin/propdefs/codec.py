import gens
from props import PROPS, budget

# ---------------------------------------------------------------- C01 / C02 / C09 (codec)
def c01_decode_gen(rng, tier):
    n = budget(tier, 12000, 400000)
    out = []
    for t, b in gens.boundary_msgs(rng):
        out.append("b_%s msg=%s" % (t, gens.hx(b)))
    for i in range(n // 3):
        out.append("g%d msg=%s" % (i, gens.hx(gens.gen_msg(rng, counts_lie=rng.random() < 0.05,
                                                            rdlen_lie=rng.random() < 0.05))))
    for i in range(n - n // 3):
        out.append("m%d msg=%s" % (i, gens.hx(gens.mutate(rng, gens.gen_msg(rng)))))
    if tier == "thorough":
        for i in range(20):
            out.append("big%d msg=%s" % (i, gens.hx(gens.gen_msg(rng, max_rr=60, big=True))))
    return out


def decode_oracle(line, res):
    if res.startswith("PANIC!") or res.startswith("HANG") or res == "CRASH":
        return "decoder did not reject cleanly: " + res[:60]
    return None


def pack_boundary(rng):
    """messages whose re-encoding stresses the compression table (C02 boundary catalogue)"""
    import struct
    out = []
    rec = lambda name, ip: gens.raw_name(name) + b"\0" + struct.pack(">HHIH", 1, 1, 60, 4) + bytes(ip)
    # label octets that look like a length octet: "ab\x01c" vs "ab"."c"
    out.append(("lenlike", gens.hdr(bits=0x8180, an=2) + rec([b"ab\x01c"], [1, 1, 1, 1]) + rec([b"ab", b"c"], [2, 2, 2, 2])))
    out.append(("lenlike2", gens.hdr(bits=0x8180, an=2) + rec([b"ab", b"c"], [1, 1, 1, 1]) + rec([b"ab\x01c"], [2, 2, 2, 2])))
    out.append(("lenlike3", gens.hdr(bits=0x8180, qd=1, an=1) + gens.raw_name([b"x\x03com"]) + b"\0\0\1\0\1" +
                rec([b"x", b"com"], [3, 3, 3, 3])))
    # shared suffixes, repeated names
    out.append(("shared", gens.hdr(bits=0x8180, qd=1, an=3) + gens.raw_name([b"www", b"example", b"com"]) + b"\0\0\1\0\1" +
                rec([b"www", b"example", b"com"], [1, 1, 1, 1]) + rec([b"example", b"com"], [2, 2, 2, 2]) +
                rec([b"mail", b"example", b"com"], [3, 3, 3, 3])))
    # names first seen beyond 0x3FFF
    big = gens.hdr(bits=0x8180, an=3) + gens.raw_name([b"pad"]) + b"\0" + struct.pack(">HHIH", 16, 1, 60, 17000) + bytes(17000)
    big += rec([b"late", b"example"], [1, 1, 1, 1]) + rec([b"late", b"example"], [2, 2, 2, 2])
    out.append(("beyond3fff", big))
    # a name FIRST written exactly at / around offset 0x4000 (the first offset a 14-bit pointer cannot express) and used again
    for start in (16382, 16383, 16384, 16385):
        L = start - 27
        m = gens.hdr(bits=0x8180, an=4) + gens.raw_name([b"pad"]) + b"\0" + struct.pack(">HHIH", 16, 1, 60, L) + bytes(L)
        assert len(m) == start
        m += rec([b"edge", b"example"], [1, 1, 1, 1]) + rec([b"edge", b"example"], [2, 2, 2, 2]) + rec([b"www", b"edge", b"example"], [3, 3, 3, 3])
        out.append(("at%d" % start, m))
    for n in (9, 10, 11, 12, 13, 64, 126, 127):
        out.append(("deep%d" % n, gens.deep_chain_msg(n)))
    return out


def c02_pack_gen(rng, tier):
    n = budget(tier, 5000, 120000)
    out = []
    for t, b in pack_boundary(rng):
        for c in (0, 1):
            out.append("b_%s_c%d c=%d size=0 msg=%s" % (t, c, c, gens.hx(b)))
    for i in range(n):
        m = gens.gen_msg(rng, max_rr=rng.choice([6, 6, 12, 30]))
        out.append("p%d c=%d size=0 msg=%s" % (i, rng.choice([0, 1, 1]), gens.hx(m)))
    if tier == "thorough":
        for i in range(30):
            out.append("big%d c=%d size=0 msg=%s" % (i, i % 2, gens.hx(gens.gen_msg(rng, max_rr=60, big=True))))
    return out


def pack_respec(line, res):
    if not res.startswith("OK "):
        return None
    return line + " out=" + res[3:]


def pack_nontrivial(line, res):
    return res.startswith("OK")


def c09_pack_gen(rng, tier):
    n = budget(tier, 5000, 120000)
    out = []
    k = 0
    while k < n:
        m = gens.gen_msg(rng, max_rr=rng.choice([6, 20, 40]), opt=rng.choice([True, True, False, None]),
                         one_question=rng.random() < 0.8, response=True,
                         types=rng.choice([None, [1], [1, 28], [16], [1, 5, 2, 15]]))
        c = rng.choice([0, 1, 1])
        sizes = [rng.choice([1, 100, 511, 512, 513, 1200, 1232, 4096, 65535])]
        # concentrate around the message's own (approximate) length
        ln = len(m)
        sizes += [max(1, ln + d) for d in rng.sample([-30, -12, -11, -2, -1, 0, 1, 2, 11, 40], 3)]
        sizes.append(rng.randrange(512, max(513, ln + 50)))
        for s in sizes:
            out.append("s%d c=%d size=%d msg=%s" % (k, c, s, gens.hx(m)))
            k += 1
    # the compression-table boundary catalogue (shared with C02) under size limits: large messages, names first seen at
    # / beyond offset 0x4000, deep chains — truncated at the limits the listeners use and around their own length
    for t, b in pack_boundary(rng):
        for s in (512, 16400, 65535, max(1, len(b) - 1)):
            out.append("b_%s_s%d c=1 size=%d msg=%s" % (t, s, s, gens.hx(b)))
    return out


CODEC_TRUST = ["codec: Go byte = N < 256 (the model's functions are total on all N lists); sync.Pool/bytespool recycling is "
               "outside the codec model (C20)"]

def c01_wedge_gen(rng, tier):
    import struct
    n = budget(tier, 240, 6000)
    cfg = "U=u;E=0;S=-;R=-:0:0:0"
    out = []
    for i in range(n):
        l = rng.choice(["udp", "udp", "tcp", "gnet", "http-post", "http-get", "fasthttp-post", "fasthttp-get"])
        r = rng.random()
        if r < 0.5:
            bad = gens.mutate(rng, gens.gen_msg(rng))
        elif r < 0.8:
            bad = rng.choice(gens.boundary_msgs(rng))[1]
        else:
            bad = bytes(rng.randrange(256) for _ in range(rng.choice([0, 1, 2, 11, 12, 13, 100, 600, 3000])))
        name = gens.raw_name([b"ok%d" % i, b"test"])
        q = struct.pack(">HHHHHH", rng.randrange(65536), 0x0100, 1, 0, 0, 0) + name + b"\0" + struct.pack(">HH", 1, 1)
        reply = struct.pack(">HHHHHH", 0, 0x8180, 1, 1, 0, 0) + name + b"\0" + struct.pack(">HH", 1, 1) + \
            b"\xc0\x0c" + struct.pack(">HHIH", 1, 1, 60, 4) + bytes([10, 0, 0, 1])
        out.append("w%d cfg=%s l=%s mode=%s bad=%s q=%s up=reply:%s" % (
            i, cfg, l, rng.choice(["frame", "frame", "raw"]), gens.hx(bad[:60000]), gens.hx(q), gens.hx(reply)))
    # malformed / unusual HTTP on the DoH listeners (the HTTP layer is part of "malformed input on any listener")
    for j, raw in enumerate(http_raw_catalogue(rng)):
        for l in ("http-post", "fasthttp-post"):
            i = n + 2 * j + (l == "fasthttp-post")
            name = gens.raw_name([b"okh%d" % i, b"test"])
            q = struct.pack(">HHHHHH", rng.randrange(65536), 0x0100, 1, 0, 0, 0) + name + b"\0" + struct.pack(">HH", 1, 1)
            reply = struct.pack(">HHHHHH", 0, 0x8180, 1, 1, 0, 0) + name + b"\0" + struct.pack(">HH", 1, 1) + \
                b"\xc0\x0c" + struct.pack(">HHIH", 1, 1, 60, 4) + bytes([10, 0, 0, 1])
            out.append("wh%d cfg=%s l=%s mode=httpraw bad=%s q=%s up=reply:%s" % (i, cfg, l, gens.hx(raw), gens.hx(q), gens.hx(reply)))
    # a valid query from UDP SOURCE PORT 0 (raw socket): its response cannot be sent (sendmsg: EINVAL); the listener
    # must go on serving the next client (seeds C03-E / C01-R: the write mutex stayed locked on the error path)
    for j in range(3):
        i = n + 7000 + j
        name = gens.raw_name([b"okp%d" % i, b"test"])
        q = struct.pack(">HHHHHH", rng.randrange(65536), 0x0100, 1, 0, 0, 0) + name + b"\0" + struct.pack(">HH", 1, 1)
        reply = struct.pack(">HHHHHH", 0, 0x8180, 1, 1, 0, 0) + name + b"\0" + struct.pack(">HH", 1, 1) + \
            b"\xc0\x0c" + struct.pack(">HHIH", 1, 1, 60, 4) + bytes([10, 0, 0, 1])
        pq = struct.pack(">HHHHHH", rng.randrange(65536), 0x0100, 1, 0, 0, 0) + gens.raw_name([b"p0x%d" % i, b"test"]) + b"\0" + struct.pack(">HH", 1, 1)
        out.append("wp%d cfg=%s l=udp mode=port0 bad=%s q=%s up=reply:%s" % (i, cfg, gens.hx(pq), gens.hx(q), gens.hx(reply)))
    # a DoH GET parameter whose base64 text carries percent-encoded line breaks: Go's base64 decoder skips CR / LF, so
    # the decoded message is SHORTER than DecodedLen of the text; a query that is cut short (its last 1..4 octets missing)
    # cannot be decoded and must be rejected with 400 - not completed with whatever the recycled buffer held (defect D24)
    k = 0
    for l in ("http-get", "fasthttp-get"):
        for cut in (1, 2, 3, 4):
            for brk in ("%0A", "%0D%0A", "%0a"):
                i = n + 5000 + k
                k += 1
                name = gens.raw_name([b"okg%d" % i, b"test"])
                q = struct.pack(">HHHHHH", rng.randrange(65536), 0x0100, 1, 0, 0, 0) + name + b"\0" + struct.pack(">HH", 1, 1)
                reply = struct.pack(">HHHHHH", 0, 0x8180, 1, 1, 0, 0) + name + b"\0" + struct.pack(">HH", 1, 1) + \
                    b"\xc0\x0c" + struct.pack(">HHIH", 1, 1, 60, 4) + bytes([10, 0, 0, 1])
                vq = struct.pack(">HHHHHH", rng.randrange(65536), 0x0100, 1, 0, 0, 0) + gens.raw_name([b"victim%d" % i, b"example"]) + \
                    b"\0" + struct.pack(">HH", 1, 1)
                out.append("wg%d cfg=%s l=%s@/dns-query?#%s mode=get expect=http-400 bad=%s q=%s up=reply:%s" % (
                    i, cfg, l, brk * rng.choice([4, 8, 12]), gens.hx(vq[:len(vq) - cut]), gens.hx(q), gens.hx(reply)))
    # COMPLETE, well-framed HTTP requests with unusual query strings / bodies: the listener must ANSWER each of them (any
    # status) - a handler that loops or blocks on them leaves the connection open and silent (seed C01-N)
    for j, raw in enumerate(http_complete_catalogue(rng)):
        for l in ("http-post", "fasthttp-post"):
            i = n + 3000 + 2 * j + (l == "fasthttp-post")
            name = gens.raw_name([b"okc%d" % i, b"test"])
            q = struct.pack(">HHHHHH", rng.randrange(65536), 0x0100, 1, 0, 0, 0) + name + b"\0" + struct.pack(">HH", 1, 1)
            reply = struct.pack(">HHHHHH", 0, 0x8180, 1, 1, 0, 0) + name + b"\0" + struct.pack(">HH", 1, 1) + \
                b"\xc0\x0c" + struct.pack(">HHIH", 1, 1, 60, 4) + bytes([10, 0, 0, 1])
            out.append("wc%d cfg=%s l=%s mode=httpraw expect=reply bad=%s q=%s up=reply:%s" % (i, cfg, l, gens.hx(raw), gens.hx(q), gens.hx(reply)))
    # raw octets on the TLS-based stream listeners: cleartext HTTP / DNS frames / garbage / a truncated ClientHello where a
    # TLS handshake is expected
    hello = b"\x16\x03\x01\x00\xc8\x01\x00\x00\xc4\x03\x03" + bytes(rng.randrange(256) for _ in range(60))
    tls_raw = [b"", b"\x00", hello, hello[:5], b"\x16\x03\x01\xff\xff" + b"\0" * 100, b"\x15\x03\x03\x00\x02\x02\x28",
               b"GET /dns-query HTTP/1.1\r\nHost: x\r\n\r\n", b"\x00\x1d" + bytes(29), bytes(rng.randrange(256) for _ in range(700)),
               b"\x17\x03\x03\x40\x00" + bytes(1000)]
    for j, raw in enumerate(tls_raw):
        for l in ("tls", "https-post"):
            i = n + 1000 + 2 * j + (l == "tls")
            name = gens.raw_name([b"okt%d" % i, b"test"])
            q = struct.pack(">HHHHHH", rng.randrange(65536), 0x0100, 1, 0, 0, 0) + name + b"\0" + struct.pack(">HH", 1, 1)
            reply = struct.pack(">HHHHHH", 0, 0x8180, 1, 1, 0, 0) + name + b"\0" + struct.pack(">HH", 1, 1) + \
                b"\xc0\x0c" + struct.pack(">HHIH", 1, 1, 60, 4) + bytes([10, 0, 0, 1])
            out.append("wt%d cfg=%s;T=1 l=%s mode=tlsraw bad=%s q=%s up=reply:%s" % (i, cfg, l, gens.hx(raw), gens.hx(q), gens.hx(reply)))
    return out


def http_raw_catalogue(rng):
    """raw HTTP/1.x requests a DoH listener must survive: missing / lying / absurd framing headers, wrong methods and
    paths, bad base64, oversized lines, binary garbage, pipelined and truncated requests"""
    import base64
    msg = b"\x12\x34\x01\x00\x00\x01\x00\x00\x00\x00\x00\x00\x01a\x00\x00\x01\x00\x01"
    ct = b"Content-Type: application/dns-message\r\n"
    host = b"Host: x\r\n"
    b64 = base64.urlsafe_b64encode(msg).rstrip(b"=")
    cat = [
        b"POST /dns-query HTTP/1.1\r\n" + host + ct + b"\r\n",                                   # no Content-Length at all
        b"POST /dns-query HTTP/1.1\r\n" + host + ct + b"\r\n" + msg,                             # ... with stray body octets
        b"POST /dns-query HTTP/1.0\r\n" + host + ct + b"\r\n" + msg,                             # HTTP/1.0, body until close
        b"POST /dns-query HTTP/1.1\r\n" + host + ct + b"Content-Length: 0\r\n\r\n",
        b"POST /dns-query HTTP/1.1\r\n" + host + ct + b"Content-Length: 5\r\n\r\n" + msg,      # shorter than the body
        b"POST /dns-query HTTP/1.1\r\n" + host + ct + b"Content-Length: 500\r\n\r\n" + msg,    # longer than the body
        b"POST /dns-query HTTP/1.1\r\n" + host + ct + b"Content-Length: 99999999999\r\n\r\n" + msg,
        b"POST /dns-query HTTP/1.1\r\n" + host + ct + b"Content-Length: -1\r\n\r\n" + msg,
        b"POST /dns-query HTTP/1.1\r\n" + host + ct + b"Content-Length: abc\r\n\r\n" + msg,
        b"POST /dns-query HTTP/1.1\r\n" + host + ct + b"Transfer-Encoding: chunked\r\n\r\n%x\r\n" % len(msg) + msg + b"\r\n0\r\n\r\n",
        b"POST /dns-query HTTP/1.1\r\n" + host + ct + b"Transfer-Encoding: chunked\r\n\r\nzz\r\n" + msg,
        b"POST /dns-query HTTP/1.1\r\n" + host + ct + b"Transfer-Encoding: chunked\r\n\r\nffffffffffffffff\r\n" + msg,
        b"POST /dns-query HTTP/1.1\r\n" + host + ct + b"Transfer-Encoding: chunked\r\nContent-Length: 3\r\n\r\n0\r\n\r\n",
        b"POST /dns-query HTTP/1.1\r\n" + host + ct + b"Expect: 100-continue\r\nContent-Length: %d\r\n\r\n" % len(msg),
        b"POST /dns-query HTTP/1.1\r\n" + host + b"Content-Length: %d\r\n\r\n" % len(msg) + msg,   # no Content-Type
        b"GET /dns-query HTTP/1.1\r\n" + host + b"\r\n",                                        # no dns parameter
        b"GET /dns-query?dns= HTTP/1.1\r\n" + host + b"\r\n",
        b"GET /dns-query?dns=%%%% HTTP/1.1\r\n" + host + b"\r\n",
        b"GET /dns-query?dns=" + b64 + b"&dns=" + b64 + b" HTTP/1.1\r\n" + host + b"\r\n",
        b"GET /dns-query?dns=" + b"A" * 70000 + b" HTTP/1.1\r\n" + host + b"\r\n",
        b"GET /dns-query?dns=" + b64 + b" HTTP/1.1\r\n" + host + b"Content-Length: 10\r\n\r\n",  # GET announcing a body
        b"GET /other?dns=" + b64 + b" HTTP/1.1\r\n" + host + b"\r\n",
        b"GET " + b"/" * 9000 + b" HTTP/1.1\r\n" + host + b"\r\n",
        b"HEAD /dns-query?dns=" + b64 + b" HTTP/1.1\r\n" + host + b"\r\n",
        b"PUT /dns-query HTTP/1.1\r\n" + host + ct + b"Content-Length: %d\r\n\r\n" % len(msg) + msg,
        b"OPTIONS * HTTP/1.1\r\n" + host + b"\r\n",
        b"CONNECT x:1 HTTP/1.1\r\n" + host + b"\r\n",
        b"PRI * HTTP/2.0\r\n\r\nSM\r\n\r\n",                                                # HTTP/2 preface on a cleartext port
        b"POST /dns-query HTTP/1.1\r\n" + host + ct + b"X-Big: " + b"h" * 70000 + b"\r\n\r\n",
        b"POST /dns-query HTTP/1.1\r\n" + host * 400 + b"\r\n",
        b"POST /dns-query HTTP/1.1\r\n" + host + ct + b"Content-Length: %d\r\n\r\n" % len(msg) + msg +
        b"POST /dns-query HTTP/1.1\r\n" + host + ct + b"\r\n",                                  # pipelined: good, then no length
        b"POST /dns-query HTTP/1.1\r\n" + host + ct + b"Content-Length: 70000\r\n\r\n" + b"\0" * 70000,
        b"POST /dns-query HTTP/1.1\r\nHost: x\r\nContent-Type: application/dns-message",          # cut inside the headers
        b"\x16\x03\x01\x02\x00\x01\x00\x01\xfc\x03\x03" + bytes(rng.randrange(256) for _ in range(200)),  # a TLS ClientHello
        bytes(rng.randrange(256) for _ in range(300)),
        b"\r\n\r\n\r\n",
        b"",
    ]
    return cat


def http_complete_catalogue(rng):
    import base64
    # a query for a name the fake upstream does not know would wait for the 6 s deadline: reject-free, unsupported
    # (QDCOUNT = 0) queries are answered NOTIMP at once; so are the 4xx cases
    msg = b"\x12\x34\x01\x00\x00\x00\x00\x00\x00\x00\x00\x00"
    b64 = base64.urlsafe_b64encode(msg).rstrip(b"=")
    hdr = b" HTTP/1.1\r\nHost: x\r\nAccept: application/dns-message\r\nConnection: close\r\n\r\n"
    qs = [b"&dns=" + b64, b"&&dns=" + b64, b"a=b&&dns=" + b64, b"a=b&dns=" + b64 + b"&", b"dns=" + b64 + b"&&", b"&", b"&&&&",
          b"a=b&&", b"a&&b", b"=", b"=&=", b"dns", b"dns&dns=" + b64, b"dns=&dns=" + b64, b"%26dns=" + b64, b";dns=" + b64,
          b"&" * 5000, b"&" * 5000 + b"dns=" + b64, b"dns=" + b64 + b"%0A%0A%0A", b"dns=" + b"%0A" * 40, b"dns=" + b64 + b"===",
          b"x=" + b"y" * 3000 + b"&&dns=" + b64, b"dns==" + b64, b"DNS=" + b64, b"dns=" + b64 + b"#frag&"]
    cat = [b"GET /dns-query?" + q + hdr for q in qs]
    ct = b"Content-Type: application/dns-message\r\n"
    for body in (msg, b"", b"\0", b"\xff" * 11, b"\xff" * 600):
        cat.append(b"POST /dns-query HTTP/1.1\r\nHost: x\r\nConnection: close\r\n" + ct + b"Content-Length: %d\r\n\r\n" % len(body) + body)
    return cat


def wedge_oracle(line, res):
    f = gens.fields(res)
    if gens.fields(line).get("expect") == "http-400" and res.startswith("bad=") and f.get("bad") != "http-400":
        return ("a DoH GET parameter that does not decode to a DNS message (a query cut short, line breaks in the base64 text) "
                "was not rejected with 400: " + res)
    if gens.fields(line).get("expect") == "reply" and res.startswith("bad=") and f.get("bad") != "reply":
        return "a complete, well-framed HTTP request got no reply at all within 3 s (connection %s): %s" % (f.get("bad"), res)
    if res.startswith("bad=") and (f.get("st") != "ok" or f.get("n") != "1"):
        return "after malformed input on the listener a valid query was not answered exactly once: " + res
    return None


def c01_up_gen(rng, tier):
    out = []
    scs = ["udp", "tcp", "tcp+pipeline", "tls", "tls+pipeline", "http", "https", "quic"]
    modes = ["garbage", "empty", "short", "counts", "ptrloop", "status", "hdr", "bigrdlen"]
    k = 0
    for sc in scs:
        ms = modes
        for m in ms:
            out.append("u%d sc=%s mode=%s" % (k, sc, m))
            k += 1
            if m in ("short", "hdr", "bigrdlen", "counts"):
                # the same after a well-formed exchange (the pooled read buffer holds a complete earlier reply)
                out.append("u%d sc=%s mode=%s warm=1" % (k, sc, m))
                k += 1
    return out


def up_oracle(line, res):
    f = gens.fields(res)
    if not res.startswith("first="):
        return None
    if f.get("first") not in ("err", "reply"):
        return "a malformed upstream reply did not simply fail the exchange: " + res
    if gens.fields(line).get("mode") in ("short", "hdr", "bigrdlen", "counts", "garbage", "ptrloop") and f.get("first") != "err":
        return ("a reply that does not decode (cut short / counts or lengths that lie / garbage) was ACCEPTED as the answer "
                "(decoded beyond the octets received?): " + res)
    if f.get("late") == "1":
        return "exchange against a garbage-sending upstream outlived its deadline: " + res
    if f.get("second") != "reply":
        return "after a malformed upstream reply a following exchange no longer succeeds: " + res
    return None


PROPS["C01"] = dict(
    kinds=[dict(name="decode", gen=c01_decode_gen, oracle=decode_oracle, shards=16,
                nontrivial=lambda l, r: True, timeout=1500),
           dict(name="wedge", gen=c01_wedge_gen, oracle=wedge_oracle, model=False,
                nontrivial=lambda l, r: "st=ok" in r, timeout=900),
           dict(name="upgarbage", gen=c01_up_gen, oracle=up_oracle, model=False,
                nontrivial=lambda l, r: "second=reply" in r, timeout=900,
                classify=lambda l, r: gens.fields(l).get("sc", "?") + "/" + gens.fields(r).get("first", "?"))],
    rule="decode: boundary catalogue (hop 10/11, label 63/64, name 254/255/256, pointer loops, reserved prefixes, "
         "RDLENGTH +-1, every truncation of a reference message, lying counts) + grammar-generated messages (all RR types, "
         "incoming compression) + mutated stream (truncation, byte flips, insertions, random bytes); distinct = distinct bytes; "
         "wedge: arbitrary/malformed bytes sent to a real listener (udp, tcp, gnet, DoH GET/POST on net/http and fasthttp) of "
         "the in-process router, then a valid query on the same listener must be answered exactly once (no model side: the "
         "oracle is the property itself); upgarbage: a fake upstream of every transport (udp, tcp, pipelined, DoT, DoH over "
         "http/https(h2), DoQ) replies malformed data (garbage, empty, truncated, lying counts, pointer loop, HTTP 500, "
         "RDLENGTH beyond the message): the real exchange must fail cleanly within its deadline and the next exchange succeed",
    assumptions=["Go slices index like the checked primitives of Base/Prelude.v"],
    trusted=CODEC_TRUST,
    level_note="C01: the decoder is total, panic-free and terminates within a concrete fuel bound for EVERY octet list; accepted "
               "messages are well-formed; the request handler's response is well-formed and always packs (fallbacks "
               "unreachable); the stream readers are total (C13). Partial: memory safety of the Go runtime and of the "
               "unsafe.String uses, and resource exhaustion, are outside the model; that listeners and upstream reply paths "
               "turn decode errors into drop/close/400/failed exchange is exercised end to end (kinds wedge, upgarbage, C13 "
               "streamgarbage), not proved.",
)
C02_NOTE = ("C02: Len exact and plain round trip for every well-formed message with arbitrary trailing octets; compressed "
            "round trip for EVERY well-formed message as well (compression-table invariant: a name of k labels needs at "
            "most k <= 127 hops; unconditional since the fix of K1 raised the decoder's pointer limit from 10 to 127). Partial: agreement of third-party decoders (miekg/dns) is tested "
            "by the harness, not proved.")
C09_NOTE = ("C09: totality of Pack on well-formed messages, the size bound and fits-untouched hold with and without "
            "compression; without compression the exact octets are the canonical encoding of the truncated message; with "
            "compression the output decodes to the kept records with TC iff omitted (every well-formed message); listener limits "
            "proved on the router model and observed on real sockets (handle kind).")
PROPS["C02"] = dict(
    kinds=[dict(name="pack", gen=c02_pack_gen, shards=16, respec=pack_respec, respec_kind="packspec", nontrivial=pack_nontrivial, timeout=1500)],
    rule="pack: every generated message the decoder accepts is re-encoded by Msg.Pack (compression on/off, no size limit); "
         "bytes compared with the model byte-for-byte; the model's decoder+view oracle is evaluated on the agreed bytes; "
         "non-trivial = decodable and packed OK",
    assumptions=[],
    trusted=CODEC_TRUST,
    level_note=C02_NOTE,
)
PROPS["C09"] = dict(
    kinds=[dict(name="pack", gen=c09_pack_gen, shards=16, respec=pack_respec, respec_kind="packspec", nontrivial=pack_nontrivial, timeout=1500)],
    rule="pack with size limits 1..65535 concentrated around each message's own length, OPT first/middle/last/absent, "
         "compression on/off; bytes compared with the model; spec_packsize (size bound, TC iff omission, counts, order, "
         "OPT and question retained, untouched when it fits) evaluated on the agreed bytes",
    assumptions=[],
    trusted=CODEC_TRUST,
    level_note=C09_NOTE,
)
