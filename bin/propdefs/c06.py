import gens
from props import PROPS, budget

# ---------------------------------------------------------------- C06
# kind "reuse": quiescent histories replayed on the real ReuseConnTransport and in Reuse.run_history.
# Events: S, SC, C<e>, R<e>, H<e>, T<e>, A<e>, AI, IT, DL, CL (see harness/cmd/implrun/c06.go).
#
# Go iterates the idle map in random order, the model takes the lowest index.  The observables are
# independent of that choice as long as all idle connections are equivalent, which the generator
# guarantees: AI / IT (which kill idle connections without removing them from the idle set) are only
# emitted when no query is owed anywhere, i.e. when EVERY connection is idle, so that dead and live
# idle connections never coexist.  Corpus cases obey the same rule.

def c06_hist(rng, length, mode):
    evs = []
    n = 0
    owed, half, cancelled = [], set(), set()
    for i in range(length):
        ch = []
        if len(owed) < 3 and n < 12:
            ch += [("S", None)] * 5 + [("SC", None)]
        for e in owed:
            if e in half:
                ch += [("T", e)] * 3
            else:
                ch += [("R", e)] * 3 + [("H", e)] * 2
            if e not in cancelled:
                ch += [("C", e)] * 2
            ch += [("A", e)]
            if e not in half:
                ch += [("G", e)]
        if not owed and n > 0:
            ch += [("AI", None)]
            if mode == "idle":
                ch += [("IT", None)] * 3
        if mode == "deadline" and owed:
            ch += [("DL", None)] * 2
        if i >= length - 3 and rng.random() < 0.08:
            ch += [("CL", None)] * 3
        if not ch:
            break
        ev, e = rng.choice(ch)
        if ev in ("S", "SC"):
            evs.append(ev)
            owed.append(n)
            if ev == "SC":
                cancelled.add(n)
            n += 1
        elif ev in ("R", "T", "A", "G"):
            evs.append("%s%d" % (ev, e))
            owed.remove(e)
            half.discard(e)
        elif ev == "H":
            evs.append("H%d" % e)
            half.add(e)
        elif ev == "C":
            evs.append("C%d" % e)
            cancelled.add(e)
        elif ev == "DL":
            evs.append("DL")
            owed, half = [], set()
        elif ev == "CL":
            evs.append("CL")
            owed, half = [], set()
            if rng.random() < 0.5:
                evs.append("S")
                n += 1
            break
        else:
            evs.append(ev)
    if rng.random() < 0.7:          # drain: end with every connection idle
        for e in list(owed):
            evs.append(("T%d" if e in half else "R%d") % e)
        if rng.random() < 0.5 and n < 12 and "CL" not in evs:
            evs += ["S", "R%d" % n]
    return evs


def c06_line(cid, evs, mode, pad=0):
    # pad: octets of EDNS0 padding in every query of the case (0 = the ordinary 32-octet query); 230 -> 277-octet,
    # 500 -> 547-octet, 1100 -> 1147-octet frames: both octets of the TCP length prefix matter (seed C06-I)
    return "%s idle=%d resp=%d%s h=%s" % (cid, 300 if mode == "idle" else 0, 400 if mode == "deadline" else 0,
                                         " pad=%d" % pad if pad else "", ",".join(evs))


def c06_pad(rng):
    return rng.choice([0, 0, 0, 0, 0, 0, 208, 209, 210, 500, 1100, 3000])


def c06_gen(rng, tier):
    out = []
    k = 0
    # boundary catalogue: every placement of the cancellation, split, abort, timer, deadline, close
    cat = [
        ("plain", "S,R0,S,R1"),                         # plain reuse
        ("plain", "SC,S,R1"),                           # cancel before write, fresh dial abandoned -> idle
        ("plain", "S,R0,SC,R1,S,R2"),                   # cancel before write on a reused conn; worker still drains
        ("plain", "S,C0,R0,S,R1"),                      # cancel between write and reply, then reuse
        ("plain", "S,C0,S,R1,R0,S,R2"),                 # ... not offered while the abandoned worker waits
        ("plain", "S,H0,C0,T0,S,R1"),                   # cancel mid-reply
        ("plain", "S,H0,C0,S,T0,R1"),                   # ... second exchange while the rest is pending
        ("plain", "S,H0,A0,S,R1"),                      # abort mid-reply: never idle
        ("plain", "S,C0,A0,S,R1"),                      # abort of an abandoned exchange
        ("plain", "S,G0,S,R1,S,R2"),                    # a reply that is no DNS message (length 2): never idle again
        ("plain", "S,R0,S,G1,S,R2,S,R3"),               # ... on a reused connection (20 octets, counts that lie)
        ("plain", "S,S,S,R0,R1,G2,S,R3,S,R4"),          # ... (length 11, 11 octets)
        ("plain", "S,C0,G0,S,R1"),                      # ... for an abandoned exchange
        ("plain", "S,R0,AI,S,R1"),                      # server closed the idle conn: retry on reused, then dial
        ("plain", "S,S,S,R0,R1,R2,AI,S,R3"),            # three dead idle conns walked by the retry loop
        ("idle", "S,R0,IT,S,R1"),                       # idle timer closed it
        ("idle", "S,C0,IT,R0,S,R1"),                    # timer does not touch a serving conn
        ("deadline", "S,DL,S,R0,R1"),                   # deadline: closed, late reply goes nowhere
        ("deadline", "S,H0,DL,S,T0,R1"),                # deadline mid-reply
        ("deadline", "S,R0,S,C1,DL,S,R2"),              # abandoned worker hits the deadline on a reused conn
        ("plain", "S,CL,S"),                            # Close with a worker blocked
        ("plain", "S,R0,CL,S"),
    ]
    for mode, h in cat:
        out.append(c06_line("b%d" % k, h.split(","), mode))
        k += 1
    for pad in (208, 209, 210, 464, 465, 500, 1100, 3000, 60000):    # 47 + pad octets: 255, 256, 257, 511, 512 ...
        for mode, h in (cat[0], cat[4], cat[6], cat[10]):
            out.append(c06_line("b%d" % k, h.split(","), mode, pad))
            k += 1
    nplain = budget(tier, 1400, 8000)
    ntimed = budget(tier, 80, 500)
    for i in range(nplain):
        out.append(c06_line("p%d" % i, c06_hist(rng, rng.randrange(4, budget(tier, 16, 40)), "plain"), "plain", c06_pad(rng)))
    for i in range(ntimed):
        out.append(c06_line("i%d" % i, c06_hist(rng, rng.randrange(4, 12), "idle"), "idle"))
        out.append(c06_line("d%d" % i, c06_hist(rng, rng.randrange(4, 12), "deadline"), "deadline"))
    return out


def c06_oracle(line, res):
    r = gens.fields(res)
    if "x" not in r:
        return None          # STUCK / PANIC!: handled as result classes by the comparison
    for i, o in enumerate(r["x"].split(",")):
        if o.startswith("M"):
            if "BADID" in o:
                return "exchange %d got a reply whose id is not its own" % i
            if o != "M%d" % i:
                return "exchange %d got the reply to another query (%s)" % (i, o)
    if int(r.get("maxout", "0")) > 1:
        return "the server saw %s queries outstanding on one connection" % r["maxout"]
    if r.get("dirty") == "1":
        return "a query arrived on a connection whose previous reply was only half sent"
    return None


def c06_classify(line, res):
    f = gens.fields(line)
    h = f.get("h", "").split(",")
    tags = []
    if "SC" in h:
        tags.append("cancel-before-write")
    if any(e.startswith("C") and e != "CL" for e in h):
        tags.append("cancel")
    if any(e.startswith("H") for e in h):
        tags.append("split")
    if any(e.startswith("A") for e in h):
        tags.append("abort")
    if any(e.startswith("G") for e in h):
        tags.append("garbage-reply")
    if "IT" in h:
        tags.append("idle-timer")
    if "DL" in h:
        tags.append("deadline")
    if "CL" in h:
        tags.append("close")
    return "+".join(tags) or "plain"


def c06_stress_gen(rng, tier):
    out = []
    reps = budget(tier, 2, 12)
    n = budget(tier, 400, 3000)
    k = 0
    for rep in range(reps):
        for via, idleus, slow in (("transport", 400, 0), ("transport", 1, 15), ("tcp", 2000, 0), ("udpfb", 0, 0), ("transport", 1, 0)):
            if (via, idleus, slow) == ("transport", 1, 0):
                # nearly every exchange dials; the dial takes 0..dialus, the impatient callers give up after 0..2*dialus:
                # cancellations land around the hand-over of the freshly dialled connection (seed C06-L)
                du = rng.choice([150, 400, 1000])
                out.append("s%d via=transport n=%d conc=%d idleus=1 slowclose=0 cancel=%d split=0 abort=0 delayus=%d seed=%d dialus=%d" % (
                    k, n, rng.choice([8, 16, 32]), rng.choice([50, 70]), du, rng.randrange(1, 1 << 30), du))
                k += 1
                continue
            out.append("s%d via=%s n=%d conc=%d idleus=%d slowclose=%d cancel=%d split=%d abort=%d delayus=%d seed=%d%s" % (
                k, via, n if via != "udpfb" else n // 3, rng.choice([4, 16, 32]), idleus, slow,
                rng.choice([10, 30, 60]), rng.choice([0, 20, 50]), rng.choice([0, 3, 10]),
                rng.choice([50, 300, 1500]), rng.randrange(1, 1 << 30),
                " pad=%d" % rng.choice([230, 500, 1100]) if rep % 2 == 1 else ""))
            k += 1
    return out


def c06_stress_oracle(line, res):
    r = gens.fields(res)
    if "badown" not in r:
        return None
    if r["badown"] != "0":
        return "%s exchanges returned a reply that is not the reply to their own query" % r["badown"]
    if int(r["maxout"]) > 1:
        return "the server saw %s queries outstanding on one connection" % r["maxout"]
    if r["dirty"] == "1":
        return "a query arrived on a connection that still owed or was half way through a reply"
    return None


def c06_points_gen(rng, tier):
    out = []
    k = 0
    for warm in (0, 1):
        for at in range(1, budget(tier, 26, 40)):
            for delayus in ((300,) if tier == "quick" else (0, 300, 3000)):
                out.append("cp%d at=%d warm=%d delayus=%d" % (k, at, warm, delayus))
                k += 1
    return out


def c06_points_oracle(line, res):
    r = gens.fields(res)
    if "x" not in r:
        return None
    xs = r["x"].split(",")
    base = 1 if gens.fields(line).get("warm") == "1" else 0
    for j, o in enumerate(xs):
        if o.startswith("M"):
            if "BADID" in o:
                return "exchange %d got a reply whose id is not its own" % j
            if o != "M%d" % (base + j):
                return "exchange %d got the reply to another query (%s)" % (j, o)
    for j, o in enumerate(xs[1:], 1):
        if not o.startswith("M"):
            return "follow-up exchange %d after a cancelled one failed (%s): %s" % (j, o, res)
    if int(r.get("maxout", "0")) > 1:
        return "the server saw %s queries outstanding on one connection" % r["maxout"]
    if r.get("dirty") == "1":
        return "a query arrived on a connection that still owed a reply"
    return None


PROPS["C06"] = dict(
    kinds=[
        dict(name="reuse", gen=c06_gen, oracle=c06_oracle, classify=c06_classify,
             nontrivial=lambda l, r: True, timeout=900, impl_shards=10),
        dict(name="reuse_cancelpoints", gen=c06_points_gen, oracle=c06_points_oracle, model=False, timeout=600,
             classify=lambda l, r: "warm" + gens.fields(l).get("warm", "?") + "/" + (gens.fields(r).get("x", "?").split(",")[0][:1]),
             nontrivial=lambda l, r: True),
        dict(name="reuse_stress", gen=c06_stress_gen, oracle=c06_stress_oracle, model=False,
             classify=lambda l, r: "stress-" + gens.fields(l).get("via", "?"),
             nontrivial=lambda l, r: True, timeout=900),
    ],
    rule="reuse: quiescent histories (start / start-cancelled / cancel / whole, half, rest of a reply / server abort / "
         "abort of idle conns / idle-timer expiry / I/O deadline / Close) over a scripted loopback TCP server with "
         "per-query-unique replies, replayed on the real ReuseConnTransport and in the extracted Reuse.run_history; "
         "distinct = distinct history; all non-trivial (each drives real exchanges). reuse_stress: concurrent "
         "non-quiescent runs through the transport, a tcp:// upstream and the TCP leg of a udp:// upstream, oracle only. "
         "reuse_cancelpoints: the caller's context cancelled just before its i-th observation by the code (every i, fresh dial and "
         "reused connection), then three follow-up exchanges, oracle only",
    assumptions=["atomicity and sequential consistency of Go mutex / channel / timer operations (the LTS steps)",
                 "loopback TCP: a reply written by the server is readable by the client; FIN/RST surface as read errors",
                 "timed histories: idle 300 ms / deadline 400 ms with automatic x3 re-run when the harness itself was slow"],
    trusted=["C06: scripted server and quiescence detection of harness/cmd/implrun/c06.go; hook "
             "internal/upstream/transport/verif_c06.go (set sizes, response time-out)"],
    level_note="partial: invariants proved for every reachable state of the LTS at the granularity of the Go code's "
               "atomic actions (mutex sections, channel operations, one conn read/write); atomicity of those runtime "
               "operations is assumed, schedules inside the runtime are only sampled (stress kind), real time is "
               "abstracted (time-outs are environment steps that may fire at any moment)",
)
