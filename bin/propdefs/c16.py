import gens
from props import PROPS, budget

# ---------------------------------------------------------------- C16
def c16_gen(rng, tier):
    out = []
    n = 0
    reps = budget(tier, 4, 24)
    for rep in range(reps):
        for udp in ("plain", "tc", "silent", "garbage", "bigplain", "bigtc"):
            for tcp in ("reply", "close", "silent", "garbage", "tc"):
                name = gens.rand_name(rng)
                if rng.random() < 0.4:
                    # a long name: the query is 256 octets or more (two-octet TCP length prefix with a non-zero high octet)
                    rl = lambda k: bytes(rng.choice(b"abcdefghijklmnopqrstuvwxyz0123456789") for _ in range(k))
                    target = rng.choice([238, 239, 240, 250, 254])          # query = 12 + name + 1 + 4: 255 / 256 / 257 / 267 / 271
                    name = gens.raw_name([rl(63), rl(63), rl(63), rl(target - 192 - 1)])
                    assert len(name) == target
                typ = rng.choice([1, 28, 15, 16, 33, 255, rng.randrange(1, 65536)])
                dl = 350 if (udp in ("silent", "garbage") or tcp == "silent") else 1500
                da = 1 if rng.random() < 0.4 else 0
                out.append("f%d udp=%s tcp=%s name=%s type=%d dl=%d da=%d" % (n, udp, tcp, gens.hx(name), typ, dl, da))
                n += 1
        if rep < budget(tier, 2, 6):
            # a SLOW server: the UDP reply (plain / TC) comes 2.3 - 3.2 s after the query, well inside the 5.5 s deadline;
            # nothing else arrives on the socket meanwhile (seed C16-M: the socket's idle time-out fired first)
            for udp, tcp in (("plain", "reply"), ("tc", "reply")):
                out.append("fs%d udp=%s tcp=%s name=%s type=1 dl=5500 da=0 ud=%d" % (n, udp, tcp, gens.hx(gens.rand_name(rng)),
                                                                                 rng.choice([2300, 2700, 3200])))
                n += 1
    # a HISTORY before the measured exchange: truncated reply answered over TCP, > 3 s of uptime, the UDP socket of the
    # upstream replaced (the server's port went away for a moment): the next exchange must work as on a fresh upstream
    # (seed C16-O: an absolute deadline left on the dialer both legs share)
    for udp, tcp in ((("plain", "reply"), ("tc", "reply")) if budget(tier, 0, 1) else (("plain", "reply"),)):
        out.append("fq%d udp=%s tcp=%s name=%s type=1 dl=1500 da=0 seq=tcgap gap=%d" % (n, udp, tcp, gens.hx(gens.rand_name(rng)),
                                                                                 rng.choice([3300, 3600])))
        n += 1
    # a VERY slow server: the UDP reply comes 10.5 s after the query (deadline 12.5 s): the UDP socket of the upstream
    # must still be there (its idle time-out is a minute; seeds C19-H / C16-M shortened it to 10 s / 2 s)
    for udp in (("plain",) if budget(tier, 0, 1) == 0 else ("plain", "tc")):
        out.append("fv%d udp=%s tcp=reply name=%s type=1 dl=12500 da=0 ud=10500" % (n, udp, gens.hx(gens.rand_name(rng))))
        n += 1
    return out


def c16_oracle(line, res):
    if "res=TRUNCATED" in res:
        return "caller received the truncated UDP message"
    if "TT-TC-CLEARED" in res:
        return "the TCP leg's answer was truncated too; the caller received it with the TC flag cleared"
    if "res=NIL-NIL" in res:
        return "the exchange returned neither a message nor an error (the caller must receive the outcome of the TCP exchange)"
    if "BADID" in res:
        return "reply id differs from the caller's id"
    f = gens.fields(line)
    r = gens.fields(res)
    if f["udp"] == "plain" and "res=U" not in res:
        return ("an untruncated UDP reply that arrived %s ms after the query, inside the caller's deadline of %s ms, was not "
                "returned to the caller: %s" % (f.get("ud", "0"), f.get("dl"), res))
    if f["udp"] == "bigplain" and "res=U" not in res:
        return "a large (2049..4096 octets) untruncated UDP reply was not returned to the caller: " + res
    if f["udp"] in ("tc", "bigtc") and r.get("tcpq") != "1":
        return "TC on UDP but %s TCP attempts" % r.get("tcpq")
    if f["udp"] not in ("tc", "bigtc") and r.get("tcpq") != "0":
        return "no TC on UDP but a TCP attempt was made"
    if r.get("sameq") == "0":
        return "TCP leg carried a different query"
    return None


PROPS["C16"] = dict(
    kinds=[dict(name="fallback", gen=c16_gen, oracle=c16_oracle,
                nontrivial=lambda l, r: True, timeout=600)],
    rule="every (UDP behaviour x TCP behaviour) pair of a scripted fake server listening on UDP+TCP of one "
         "loopback port, random question per case; distinct = distinct case line; all are non-trivial "
         "(each runs a real upstream.NewUpstream exchange)",
    assumptions=["loopback UDP/TCP delivery; 350 ms deadlines for silent legs; slow-server cases: reply after 2.3 - 3.2 s against a 5.5 s deadline"],
    trusted=["C16: the two legs are oracles (section variables); their own behaviour is C05/C06/C14"],
    level_note="C16: proved for every query, every UDP reply and every outcome of the TCP leg, with both legs as arbitrary "
               "functions (section variables); that the legs are the UDP transport and its sibling TCP transport for the "
               "same address is observed with a fake server listening on UDP+TCP of one port.",
)


