import gens
from props import PROPS, budget

# ---------------------------------------------------------------- C05 (pipelined connection)
# kind "pipeline": a quiescent history replayed on the REAL transport.PipelineTransport (scripted server over
#   net.Pipe with TCP framing, or a loopback UDP pair) and through Pipeline.run_history.
#     <id> net=<tcp|udp> q0=<first wire id> ev=<e,e,...>
#     S<cid>[:<flags>] start exchange k (k = number of earlier S); flags = write outcome chosen by the environment:
#        h held inside net.Conn.Write until U<k>, o oversized query (65508..65535 octets: EMSGSIZE on a real datagram
#        socket, connection stays open; a large frame over tcp), s scripted EMSGSIZE error, x scripted other error
#        (udp: write closes the connection; tcp: stays open)       U<k> the held Write of exchange k returns
#     R<k>.<mark> server replies with exchange k's wire id
#     I<id>.<mark> server emits header id <id>            G undecodable message      C<k> cancel exchange k
#     X peer close (tcp) / transport close (udp)          Y transport close
#   result  o=<M<mark>|B<mark>|E|W>,...  w=<wire id seen by the server|->,...  closed=<0|1>
# kind "pipeline_eol": n sequential exchanges, each answered at once (id exhaustion; > 65536 on one connection)
# kind "pipeline_burst": end-of-life boundary under concurrency (harness/cmd/implrun/c05b.go), oracle only
# kind "pipeline_conc": concurrent non-quiescent run, random reordering/duplication/unsolicited/drops/cancels,
#   judged only by the property's oracle (no model comparison)


def _steer(rng, q0, n_events, close_p=0.04, garbage_p=0.03, wfail=0.0, net="tcp"):
    """history generator; the tiny simulation below only STEERS the choice of events (never a verdict).
    wfail > 0: starts whose write is held and / or fails while other exchanges are in flight"""
    ev = []
    started = []        # per exchange: dict(cid, wid or None, st in pending|held|done|cancelled|failed, flags)
    state = dict(closed=False)
    mark = [rng.randrange(1, 1000)]

    def nm():
        mark[0] += rng.randrange(1, 4)
        return mark[0]

    def nextid():
        return q0 + len([e for e in started if e["wid"] is not None])

    def plan(flags):
        """(fails, closes) of a write with these flags"""
        if "x" in flags:
            return True, net == "udp"
        if "s" in flags:
            return True, False
        if "o" in flags and net == "udp":
            return True, False
        return False, False

    def close_all():
        state["closed"] = True
        for e in started:
            if e["st"] == "pending":
                e["st"] = "failed"

    def start():
        k = len(started)
        r = rng.random()
        if r < 0.35 and started:
            cid = rng.choice(started)["wid"] or 0        # caller id == some exchange's WIRE id
        elif r < 0.5:
            cid = min(65535, nextid() + rng.choice([0, 1, 2]))   # caller id == an upcoming wire id
        elif r < 0.6 and started:
            cid = rng.choice(started)["cid"]             # same caller id as another exchange
        elif r < 0.7:
            cid = rng.choice([0, 1, 65535, 65534])
        else:
            cid = rng.randrange(65536)
        flags = ""
        if wfail and rng.random() < wfail:
            flags = rng.choice(["h", "h", "ho", "hs", "hx", "o", "s", "x", "hs", "ho"])
        wid = None
        st = "failed"
        if not state["closed"] and nextid() <= 65535:
            wid = nextid()                               # the id is consumed whatever the write does
            fails, closes = plan(flags)
            if "h" in flags:
                st = "held"
            elif fails:
                st = "failed"
                if closes:
                    close_all()
            else:
                st = "pending"
        started.append(dict(cid=cid, wid=wid, st=st, flags=flags))
        ev.append("S%d%s" % (cid, (":" + flags) if flags else ""))

    def release(k):
        e = started[k]
        ev.append("U%d" % k)
        fails, closes = plan(e["flags"])
        if state["closed"] or fails:
            e["st"] = "failed"
            if fails and closes and not state["closed"]:
                close_all()
        else:
            e["st"] = "pending"

    start()
    while len(ev) < n_events:
        pend = [k for k, e in enumerate(started) if e["st"] == "pending"]
        held = [k for k, e in enumerate(started) if e["st"] == "held"]
        done = [k for k, e in enumerate(started) if e["st"] in ("done", "cancelled")]
        r = rng.random()
        if held and rng.random() < 0.3:
            release(rng.choice(held))                     # typically after other exchanges took later ids
        elif r < 0.24:
            start()
        elif r < 0.50 and pend:
            k = rng.choice(pend)                          # out-of-order: any pending exchange
            ev.append("R%d.%d" % (k, nm()))
            if not state["closed"]:
                started[k]["st"] = "done"
        elif r < 0.62 and done:
            k = rng.choice(done)                          # duplicate / late-after-cancel
            ev.append("R%d.%d" % (k, nm()))
        elif r < 0.76:
            c = rng.random()                              # unsolicited ids
            if c < 0.35:
                i = nextid() + rng.choice([0, 0, 1, 2])       # an id that WILL be assigned next
            elif c < 0.6 and started:
                i = rng.choice(started)["cid"]            # some caller's own id
            elif c < 0.8 and started:
                w = rng.choice(started)["wid"]            # also the id of a held or failed exchange
                i = (w if w is not None else 0) + rng.choice([-1, 1, 256, -256, 0, 0] if wfail else [-1, 1, 256, -256])
            else:
                i = rng.randrange(65536)
            i = max(0, min(65535, i))
            ev.append("I%d.%d" % (i, nm()))
            for k in pend:
                if started[k]["wid"] == i and not state["closed"]:
                    started[k]["st"] = "done"
        elif r < 0.88 and (pend or done):
            k = rng.choice(pend) if (pend and rng.random() < 0.8) else rng.choice(pend + done)
            if "h" in started[k]["flags"]:
                continue          # a reply may already sit in the channel of an exchange that was inside write: the
                                  # select would have two ready arms (Go picks at random); never cancel those
            ev.append("C%d" % k)
            if started[k]["st"] == "pending":
                started[k]["st"] = "cancelled"
        elif r < 0.88 + garbage_p:
            ev.append("G")
            if net == "tcp" and wfail:
                close_all()
        elif r < 0.88 + garbage_p + close_p:
            ev.append(rng.choice(["X", "Y"]))
            close_all()
        else:
            start()
    if wfail:
        for k, e in enumerate(started):
            if e["st"] == "held" and rng.random() < 0.8:
                release(k)
    return ev


def c05_pipeline_gen(rng, tier):
    out = []
    n = budget(tier, 900, 15000)
    for net in ("tcp", "udp"):
        for i in range(n):
            r = rng.random()
            if r < 0.72:
                q0 = 0
            elif r < 0.92:
                q0 = 65536 - rng.choice([1, 2, 3, 4, 6, 9])
            elif r < 0.96:
                q0 = 65536
            else:
                q0 = rng.randrange(1, 65000)
            ln = rng.choice([6, 10, 16, 24, 40]) if tier == "quick" else rng.choice([8, 16, 32, 64, 120])
            ev = _steer(rng, q0, ln, close_p=rng.choice([0.0, 0.0, 0.04, 0.08]), garbage_p=rng.choice([0.0, 0.0, 0.03]))
            out.append("h%s%d net=%s q0=%d ev=%s" % (net[0], i, net, q0, ",".join(ev)))
    # write failures interleaved with live exchanges (held writes, oversized datagrams, scripted write errors)
    n = budget(tier, 150, 3000)
    for net in ("udp", "tcp"):
        for i in range(n):
            r = rng.random()
            q0 = 0 if r < 0.7 else (65536 - rng.choice([2, 3, 4, 6, 9, 14]) if r < 0.92 else rng.randrange(1, 65000))
            ln = rng.choice([5, 8, 12, 20, 32]) if tier == "quick" else rng.choice([8, 16, 32, 64])
            ev = _steer(rng, q0, ln, close_p=rng.choice([0.0, 0.0, 0.03]), garbage_p=rng.choice([0.0, 0.0, 0.02]),
                        wfail=rng.choice([0.25, 0.4, 0.6]), net=net)
            out.append("w%s%d net=%s q0=%d ev=%s" % (net[0], i, net, q0, ",".join(ev)))
    return out


def _parse_pipeline(line, res):
    f = gens.fields(line)
    r = gens.fields(res)
    ev = f.get("ev", "").split(",") if f.get("ev", "-") not in ("", "-") else []
    o = r.get("o", "-")
    w = r.get("w", "-")
    outs = [] if o == "-" else o.split(",")
    wids = [] if o == "-" else w.split(",")
    return f, r, ev, outs, wids


def c05_pipeline_oracle(line, res):
    """the property itself, on the implementation's output: every returned mark was emitted for the returning
    exchange's own wire id (as seen by the server), caller id restored, no mark returned twice, ids distinct"""
    if not res.startswith("o="):
        return None
    f, r, ev, outs, wids = _parse_pipeline(line, res)
    if len(outs) != len(wids):
        return "malformed result"
    if r.get("reuse", "0") != "0":
        return "a wire id was used by two exchanges during the connection's life (%s id(s) found in the Write calls " \
               "of two exchanges)" % r["reuse"]
    sent = {}                                  # mark -> wire id it was emitted with
    for e in ev:
        if e[0] == "R":
            k, m = e[1:].split(".")
            k = int(k)
            if k < len(wids) and wids[k] != "-":
                sent[m] = wids[k]
        elif e[0] == "I":
            i, m = e[1:].split(".")
            sent[m] = i
    seen_marks = set()
    seen_ids = set()
    for k, (o, w) in enumerate(zip(outs, wids)):
        if w != "-":
            if w in seen_ids:
                return "wire id %s used by two exchanges on one connection" % w
            seen_ids.add(w)
            if int(w) > 65535:
                return "wire id above 65535"
        if o[0] in "MB":
            m = o[1:]
            if o[0] == "B":
                return "exchange %d: caller id not restored" % k
            if m not in sent:
                return "exchange %d returned a message the server never emitted (mark %s)" % (k, m)
            if w == "-" or sent[m] != w:
                return "exchange %d (wire id %s) returned the reply emitted for wire id %s (mark %s)" % (k, w, sent[m], m)
            if m in seen_marks:
                return "mark %s returned by two exchanges" % m
            seen_marks.add(m)
    return None


def c05_pipeline_classify(line, res):
    f = gens.fields(line)
    ev = f.get("ev", "")
    cls = [f.get("net", "?")]
    if int(f.get("q0", "0")) >= 65520:
        cls.append("eol")
    if "G" in ev:
        cls.append("garbage")
    if "X" in ev or "Y" in ev:
        cls.append("close")
    if "C" in ev:
        cls.append("cancel")
    if "I" in ev:
        cls.append("unsol")
    if ":" in ev:
        cls.append("wfail" if any(c in fl for fl in [e.split(":")[1] for e in ev.split(",") if ":" in e] for c in "osx")
                   else "whold")
    return "+".join(cls)


def c05_eol_gen(rng, tier):
    out = ["full_tcp net=tcp n=%d q0=0" % (65536 + rng.randrange(5, 200)),
           "near_udp net=udp n=%d q0=%d" % (rng.randrange(300, 500), 65536 - rng.randrange(50, 250)),
           "near_tcp net=tcp n=%d q0=%d" % (rng.randrange(30, 80), 65536 - rng.randrange(1, 25)),
           "none_tcp net=tcp n=%d q0=%d" % (rng.randrange(100, 300), rng.randrange(0, 60000))]
    if tier == "thorough":
        out += ["full_udp net=udp n=%d q0=0" % (65536 + rng.randrange(5, 200)),
                "twice_tcp net=tcp n=%d q0=%d" % (65536 + 300 + rng.randrange(5, 200), 65536 - 300)]
        for i in range(20):
            out.append("t%d net=%s n=%d q0=%d" % (i, rng.choice(["tcp", "udp"]), rng.randrange(100, 3000),
                                                   65536 - rng.randrange(0, 2000)))
    return out


def c05_eol_oracle(line, res):
    if not res.startswith("n0="):
        return None
    f = gens.fields(line)
    r = gens.fields(res)
    q0 = int(f["q0"])
    if int(r.get("n0", "0")) > 65536 - q0:
        return "connection 0 carried %s queries but only %d wire ids exist from %d: ids wrapped / reused" % (r["n0"], 65536 - q0, q0)
    if r.get("bad", "0") != "0":
        return "%s exchanges returned a foreign reply or an unrestored id" % r["bad"]
    if r.get("last", "-") != "-" and int(r["last"]) > 65535:
        return "wire id above 65535"
    return None


def c05_conc_gen(rng, tier):
    out = []
    if tier == "thorough":
        for i in range(10):
            out.append("k%d net=%s n=%d par=%d seed=%d q0=%d dup=%d unsol=%d drop=%d cancel=%d" % (
                i, rng.choice(["tcp", "udp"]), rng.choice([5000, 20000]), rng.choice([8, 32, 64, 128]),
                rng.randrange(1 << 30), rng.choice([0, 0, 65536 - rng.randrange(100, 3000)]),
                rng.choice([0, 10, 30]), rng.choice([0, 10, 30]), rng.choice([0, 1, 3]), rng.choice([0, 3, 10])))
        for i in range(6):
            out.append("kb%d net=%s n=%d par=%d seed=%d q0=%d dup=10 unsol=10 drop=1 cancel=3 big=%d" % (
                i, rng.choice(["tcp", "udp"]), rng.choice([5000, 20000]), rng.choice([8, 32, 64]), rng.randrange(1 << 30),
                rng.choice([0, 0, 65536 - rng.randrange(100, 3000)]), rng.choice([1, 3, 10])))
        out.append("kfull net=tcp n=70000 par=64 seed=%d q0=0 dup=10 unsol=10 drop=0 cancel=2" % rng.randrange(1 << 30))
    else:
        out.append("k0 net=tcp n=4000 par=24 seed=%d q0=0 dup=20 unsol=20 drop=1 cancel=5" % rng.randrange(1 << 30))
        out.append("k1 net=udp n=4000 par=24 seed=%d q0=0 dup=20 unsol=20 drop=1 cancel=5" % rng.randrange(1 << 30))
        out.append("k2 net=tcp n=3000 par=16 seed=%d q0=%d dup=20 unsol=20 drop=0 cancel=3" % (
            rng.randrange(1 << 30), 65536 - rng.randrange(200, 900)))
        # write failures (oversized queries, with the transport's retries) among the successful exchanges
        out.append("k3 net=udp n=3000 par=24 seed=%d q0=0 dup=10 unsol=10 drop=0 cancel=2 big=4" % rng.randrange(1 << 30))
        out.append("k4 net=tcp n=3000 par=24 seed=%d q0=0 dup=10 unsol=10 drop=0 cancel=2 big=4" % rng.randrange(1 << 30))
    return out


def c05_conc_oracle(line, res):
    r = gens.fields(res)
    if "viol" in r and r["viol"] != "none":
        return "concurrent run: " + r["viol"]
    return None


def c05_burst_gen(rng, tier):
    """end-of-life boundary under concurrency: every connection starts k ids before its end (preset hook) and
    bursts of n >= k+2 exchanges are released together through the real PipelineTransport"""
    out = []
    reps = budget(tier, 3, 40)
    i = 0
    for rep in range(reps):
        for net in ("tcp", "udp"):
            for k in (0, 1, 2, 3):
                for n in (k + 2, k + 2 + rng.choice([1, 2, 5]), rng.choice([16, 32, 64])):
                    rounds = rng.choice([60, 100, 150]) if n < 16 else rng.choice([30, 50])
                    if k == 0:
                        rounds = 10
                    out.append("u%d net=%s k=%d n=%d rounds=%d warm=%d stale=%d seed=%d dd=%d" % (
                        i, net, k, n, rounds, rng.randrange(2), 0 if rng.random() < 0.15 else 1,
                        rng.randrange(1 << 30), rng.choice([0, 0, 0, 200])))
                    i += 1
    return out


def c05_burst_oracle(line, res):
    r = gens.fields(res)
    if "viol" in r and r["viol"] != "none":
        return "boundary burst: " + r["viol"]
    f = gens.fields(line)
    if "maxids" in r and int(r["maxids"]) > int(f["k"]):
        return "a connection with %s ids left carried %s wire ids: wrapped / reused" % (f["k"], r["maxids"])
    return None



# kind "pipeline_shared": concurrent exchanges that were handed ONE payload slice (harness/cmd/implrun/c05c.go,
#   model Net/PipelineBuf.v plb_shared_run).  "ExchangeContext MUST NOT keep or modify m": sharing a slice is legal.
#     <id> net=<tcp|udp> q0=<n> warm=<w> hold=<0|1> bufs=<hex>,... ex=<slice index per exchange of the burst>
#   result  n= ok= bad= err= ids=<sorted ids read by the server> per=<datagrams per slice tail> other= pay=<1|0 per slice>
#           conns= viol=   (everything but viol= is schedule independent and predicted by the model)
def _c05_query(cid, labels, qtype=1, opt=False):
    b = bytes([cid >> 8, cid & 255, 1, 0, 0, 1, 0, 0, 0, 0, 0, 1 if opt else 0])
    for l in labels:
        b += bytes([len(l)]) + l
    b += bytes([0, qtype >> 8, qtype & 255, 0, 1])
    if opt:
        b += bytes([0, 0, 41, 4, 208, 0, 0, 0, 0, 0, 0])      # OPT, udp size 1232, no options
    return b


def _c05_shared_case(rng, cid_, net, q0, warm, hold, nbuf, ex, cids=None):
    total = warm + len(ex)
    bufs = []
    for i in range(nbuf):
        if cids is not None:
            cid = cids[i]
        else:
            r = rng.random()
            if r < 0.35:
                cid = min(65535, q0 + rng.randrange(total))      # the caller's id IS a wire id of this very burst
            elif r < 0.5:
                cid = rng.choice([0, 1, 65535, 666])
            elif r < 0.6 and bufs:
                cid = int.from_bytes(bufs[0][:2], "big")           # same caller id in two slices
            else:
                cid = rng.randrange(65536)
        lab = [b"s%d" % i]
        if rng.random() < 0.5:
            lab.append(bytes(rng.choice(b"abcdefghijklmnopqrstuvwxyz0123456789-") for _ in range(rng.randrange(1, 40))))
        lab.append(b"test")
        bufs.append(_c05_query(cid, lab, qtype=rng.choice([1, 28, 16, 65]), opt=rng.random() < 0.3))
    return "%s net=%s q0=%d warm=%d hold=%d bufs=%s ex=%s" % (
        cid_, net, q0, warm, hold, ",".join(gens.hx(b) for b in bufs), ",".join(str(i) for i in ex))


def c05_shared_gen(rng, tier):
    out = []
    reps = budget(tier, 10, 150)
    i = 0
    for rep in range(reps):
        for net in ("udp", "tcp"):
            for shape in ("one", "one_big", "groups", "mixed", "singles"):
                if shape == "one":                     # every exchange of the burst has the same slice
                    nbuf, ex = 1, [0] * rng.choice([2, 2, 3, 4, 8])
                elif shape == "one_big":
                    nbuf, ex = 1, [0] * rng.choice([16, 24, 32, 48])
                elif shape == "groups":                # several shared slices side by side
                    nbuf = rng.choice([2, 3, 4])
                    ex = [rng.randrange(nbuf) for _ in range(rng.choice([4, 8, 16, 32]))]
                elif shape == "mixed":                 # one shared slice among exchanges with slices of their own
                    k = rng.choice([2, 3, 6])
                    own = rng.choice([1, 2, 5])
                    nbuf = 1 + own
                    ex = [0] * k + list(range(1, 1 + own))
                    rng.shuffle(ex)
                else:                                  # control: nobody shares
                    nbuf = rng.choice([2, 4, 8])
                    ex = list(range(nbuf))
                warm = rng.choice([0, 0, 1, 2]) if len(ex) >= 2 else 0
                total = warm + len(ex)
                r = rng.random()
                if r < 0.6:
                    q0 = 0
                elif r < 0.75:
                    q0 = 65536 - total                 # the burst uses up the id space exactly
                elif r < 0.9:
                    q0 = 65536 - total - rng.choice([1, 2, 9])
                else:
                    q0 = rng.randrange(1, 60000)
                hold = 0 if rng.random() < 0.25 else 1
                out.append(_c05_shared_case(rng, "sh%d" % i, net, q0, warm, hold, nbuf, ex))
                i += 1
    return out


def c05_shared_oracle(line, res):
    """the property on the run: every exchange returns a message (the server answered every query it read) with
    the caller's id; the server read exactly the assigned ids q0..q0+n-1 once each, each in front of the tail of a
    caller's payload, as many per payload as exchanges were called with it; the callers' octets are untouched"""
    if not res.startswith("n="):
        return None
    f = gens.fields(line)
    r = gens.fields(res)
    if r.get("viol", "none") != "none":
        return "shared payload: " + r["viol"]
    n = int(r["n"])
    if int(r["ok"]) != n:
        return "shared payload: %s of %d exchanges returned the caller's id (bad=%s err=%s)" % (r["ok"], n, r["bad"], r["err"])
    if "0" in r.get("pay", "").split(","):
        return "shared payload: the caller's payload was modified"
    if r.get("conns") == "1":
        q0 = int(f["q0"])
        want = "%d-%d" % (q0, q0 + n - 1) if n > 1 else "%d" % q0
        if r.get("ids") != want:
            return "shared payload: the server read ids %s, assigned were %s" % (r.get("ids"), want)
    ex = [int(x) for x in f["ex"].split(",")]
    warm = int(f["warm"])
    cnt = [0] * len(f["bufs"].split(","))
    for b in ex[:warm] + ex:
        cnt[b] += 1
    if r.get("per") != ",".join(str(c) for c in cnt) or r.get("other") != "0":
        return "shared payload: datagrams per payload %s (other=%s), exchanges per payload %s" % (
            r.get("per"), r.get("other"), ",".join(str(c) for c in cnt))
    return None


def c05_shared_classify(line, res):
    f = gens.fields(line)
    ex = f.get("ex", "").split(",")
    shared = len(ex) - len(set(ex))
    return "%s+%s+%s%s" % (f.get("net", "?"), "hold" if f.get("hold") == "1" else "free",
                           "shared" if shared else "own", "+eol" if int(f.get("q0", "0")) >= 65000 else "")



# kind "pipeline_arms": the exchange enters its select with BOTH arms ready.  History = a short quiescent prefix, then
#   S<cid>:l (the Write puts the query on the wire but returns late), R<k>.<mark> (the server answers: the read loop
#   delivers the reply into the exchange's channel), X|Y (the connection is closed: c.ctx done), U<k> (Write returns:
#   select with the reply arm AND the connection arm ready; Go picks at random).  The model gives both outcomes
#   (Net/Pipeline.v pl_arms_outcomes); whichever arm is taken, a returned message carries the CALLER's id.
def c05_arms_gen(rng, tier):
    out = []
    n = budget(tier, 60, 1500)
    for net in ("tcp", "udp"):
        for i in range(n):
            q0 = 0 if rng.random() < 0.6 else rng.randrange(1, 60000)
            pre = _steer(rng, q0, rng.choice([1, 2, 4, 8]), close_p=0.0, garbage_p=0.0) if rng.random() < 0.7 else []
            k = len([e for e in pre if e[0] == "S"])
            r = rng.random()
            cid = rng.randrange(256, 65536) if r < 0.8 else rng.choice([q0 + k + 1, 65535, 300, 0x0100])
            cid = min(65535, cid)
            ev = pre + ["S%d:l" % cid, "R%d.%d" % (k, 5000 + i), rng.choice(["X", "X", "Y"]), "U%d" % k]
            out.append("a%s%d net=%s q0=%d ev=%s" % (net[0], i, net, q0, ",".join(ev)))
    return out


def c05_arms_compare(ir, mr):
    a, b = gens.fields(ir), gens.fields(mr)
    if not ir.startswith("o=") or "alt" not in b:
        return ir == mr
    if (a.get("w"), a.get("closed"), a.get("reuse")) != (b.get("w"), b.get("closed"), b.get("reuse")):
        return False
    oi, o1, o2 = a["o"].split(","), b["o"].split(","), b["alt"].split(",")
    return len(oi) == len(o1) == len(o2) and all(x in (y, z) for x, y, z in zip(oi, o1, o2))



# kind "pipeline_retry" (oracle only, harness/cmd/implrun/c05d.go): the reused connection dies after the server read
#   the query; the transport's retry on a fresh connection must come back with the CALLER's id and its own answer
def c05_retry_gen(rng, tier):
    out = []
    for i in range(budget(tier, 24, 400)):
        q0 = 0 if rng.random() < 0.6 else rng.randrange(1, 60000)
        r = rng.random()
        cid = rng.randrange(256, 65536) if r < 0.8 else rng.choice([65535, 0x0100, 0x8000, 12345])
        out.append("rt%d net=%s q0=%d warm=%d cid=%d seed=%d" % (
            i, rng.choice(["tcp", "udp"]), q0, rng.choice([1, 1, 2, 3, 7, 20]), cid, rng.randrange(1 << 30)))
    return out


def c05_retry_oracle(line, res):
    r = gens.fields(res)
    if "viol" in r and r["viol"] != "none":
        return "retry on a fresh connection: " + r["viol"]
    return None


PROPS["C05"] = dict(
    kinds=[
        dict(name="pipeline", gen=c05_pipeline_gen, oracle=c05_pipeline_oracle, classify=c05_pipeline_classify,
             nontrivial=lambda l, r: "M" in r, timeout=900),
        dict(name="pipeline_arms", gen=c05_arms_gen, oracle=c05_pipeline_oracle, compare=c05_arms_compare,
             classify=lambda l, r: gens.fields(l).get("net", "?") + ("+reply-arm" if gens.fields(r).get("o", "").split(",")[-1][:1]
                                                                  in ("M", "B") else "+conn-arm"),
             nontrivial=lambda l, r: r.startswith("o="), timeout=900),
        dict(name="pipeline_retry", gen=c05_retry_gen, oracle=c05_retry_oracle, model=False,
             classify=lambda l, r: gens.fields(l).get("net", "?") + ("+retried" if "retried=1" in r else ""),
             nontrivial=lambda l, r: "retried=1" in r and "viol=none" in r, timeout=600),
        dict(name="pipeline_eol", gen=c05_eol_gen, oracle=c05_eol_oracle,
             classify=lambda l, r: gens.fields(l).get("net", "?") + ("+retired" if "retired=1" in r else ""),
             nontrivial=lambda l, r: "retired=1" in r, timeout=900),
        dict(name="pipeline_burst", gen=c05_burst_gen, oracle=c05_burst_oracle, model=False,
             classify=lambda l, r: "%s+k%s" % (gens.fields(l).get("net", "?"), gens.fields(l).get("k", "?")),
             nontrivial=lambda l, r: "viol=none" in r and "ok=0 " not in r, timeout=900),
        dict(name="pipeline_shared", gen=c05_shared_gen, oracle=c05_shared_oracle, classify=c05_shared_classify,
             nontrivial=lambda l, r: "viol=none" in r and len(set(gens.fields(l)["ex"].split(","))) <
             len(gens.fields(l)["ex"].split(",")), timeout=900),
        dict(name="pipeline_conc", gen=c05_conc_gen, oracle=c05_conc_oracle, model=False,
             classify=lambda l, r: gens.fields(l).get("net", "?") + ("+eol" if gens.fields(l).get("q0", "0") != "0" else "") +
             ("+wfail" if gens.fields(l).get("big", "0") != "0" else ""),
             nontrivial=lambda l, r: "viol=none" in r, timeout=1500),
    ],
    rule="pipeline: quiescent histories (start / reply by exchange / absolute-id emission / garbage / cancel / close) "
         "from VERIF_SEED, half over net.Pipe with TCP framing, half over a loopback UDP pair, first wire id 0 or "
         "preset near 65535 through the verif hook; replayed on the real PipelineTransport and through "
         "Pipeline.run_history; distinct = distinct case line; non-trivial = at least one exchange returned a "
         "message; pipeline_arms: a Write that returns late, the reply delivered, the connection closed, then the select with "
         "both arms ready, compared with both model outcomes (pl_arms_outcomes); pipeline_retry: the reused connection "
         "dies after the server read the query, the retry on a fresh connection must return the caller's id; "
         "plus histories with write failures interleaved with live exchanges (a Write held inside "
         "net.Conn.Write while later exchanges take ids, then failing: oversized query = the kernel's EMSGSIZE on the "
         "real datagram socket, scripted EMSGSIZE / other errors on both transports; wire ids of ALL Write calls "
         "recorded, failed ones included). pipeline_eol: >65536 sequential exchanges on one real connection. pipeline_burst: "
         "connections preset to 65536-k (k=0..3) and bursts of >= k+2 exchanges released together through the real "
         "transport, stale replies for ids 0/1, oracle only. pipeline_shared: bursts of exchanges called with "
         "the SAME payload slice (plus slices of their own, sequential reuse, ids near the end), all writers held "
         "inside write together or free running, UDP and TCP framing; ids/octets read by the server, ids returned, "
         "payload octets before/after compared with Net/PipelineBuf.v plb_shared_run and judged by the oracle. pipeline_conc: concurrent non-quiescent runs judged "
         "by the oracle only.",
    assumptions=["Go mutex / channel / map-under-lock operations are atomic and sequentially consistent (the LTS steps)",
                 "closeWithErr is modelled as one atomic step",
                 "quiescence of the real code between events is detected by a wrapper around the dialled net.Conn "
                 "(read loop blocked in Read with every emitted byte consumed); 5 s waits for expected returns, "
                 "30 ms settle before the final snapshot",
                 "schedules inside the Go runtime are sampled (pipeline_conc), not enumerated",
                 "a payload slice read by several exchanges at once is read untorn (Go memory model); that the Go write is the "
                 "model's write (private copy) is tested by pipeline_shared, not proved"],
    trusted=["C05: scripted server + conn wrapper in harness/cmd/implrun/c05.go; verif hook "
             "transport.VerifNewPipelineTransportPreset (copy of NewPipelineTransport that presets nextQid); "
             "pipeline_shared: wrapper around the dialled net.Conn whose Write waits until every exchange of the burst is "
             "inside Write (harness/cmd/implrun/c05c.go); pipeline: the same wrapper holds / fails the Write of chosen "
             "exchanges and cancels the caller of a failing Write (no transport retry: one exchange = one model thread; "
             "retries run in pipeline_conc big=)"],
    level_note="partial: theorems cover every schedule of the model's atomic actions (addQueueC, write, read, "
               "getQueueC, non-blocking send, select arms, deleteQueueC, close) for any number of exchanges and any "
               "server behaviour; atomicity of the Go mutex/channel primitives and the one-step closeWithErr are "
               "assumed; the tie to the code is by replaying quiescent histories plus sampled concurrent runs.",
)


# ---------------------------------------------------------------- upcancelpoints (C05, C14)
def upcancelpoints_gen(rng, tier):
    out = []
    k = 0
    for scheme in ("udp", "tcp", "tcp+pipeline"):
        for warm in (0, 1):
            for at in range(1, budget(tier, 12, 24)):
                for delayus in ((400,) if tier == "quick" else (0, 400, 4000)):
                    out.append("up%d scheme=%s at=%d warm=%d delayus=%d" % (k, scheme, at, warm, delayus))
                    k += 1
    return out


def upcancelpoints_oracle(line, res):
    r = gens.fields(res)
    if "x" not in r:
        return None
    xs = r["x"].split(",")
    if "X" in xs:
        return "an exchange returned a reply that is not the reply to its own query: " + res
    if "NIL" in xs:
        return "an exchange returned neither a message nor an error: " + res
    for j, o in enumerate(xs[1:], 1):
        if o != "M":
            return "follow-up exchange %d after a cancelled one did not get its reply (%s): %s" % (j, o, res)
    if int(r.get("el", "0")) > 1500:
        return "the exchange whose context was cancelled returned only after %s ms" % r["el"]
    return None


def upcancelpoints_kind():
    return dict(name="upcancelpoints", gen=upcancelpoints_gen, oracle=upcancelpoints_oracle, model=False, timeout=600,
                nontrivial=lambda l, r: True,
                classify=lambda l, r: gens.fields(l).get("scheme", "?") + "/warm" + gens.fields(l).get("warm", "?") + "/" +
                gens.fields(r).get("x", "?").split(",")[0])


PROPS["C05"]["kinds"].append(upcancelpoints_kind())
PROPS["C05"]["rule"] += ("; upcancelpoints: udp / tcp / tcp+pipeline upstreams, the caller's context cancelled just before its i-th observation "
                         "by the code (every i, fresh and warm), then three follow-up exchanges (oracle only)")
