import ipaddress

import gens
from props import PROPS, budget

# ---------------------------------------------------------------- C15 (limiter)
S = 10 ** 9          # ns per second = scaled units per token
EPS = 1000           # 1e-6 token, the epsilon band of every comparison (float64 vs exact arithmetic)
TTL = 60 * S         # entryTtl


# ---- addresses --------------------------------------------------------------------------------
def a4(x):
    return "4-%08x" % (x & 0xFFFFFFFF)


def a6(x):
    return "6-%032x" % (x & ((1 << 128) - 1))


def mapped(x):
    return a6((0xFFFF << 32) | (x & 0xFFFFFFFF))


def parse_addr(s):
    fam, h = s.split("-", 1)
    return (4 if fam == "4" else 6), int(h, 16)


def prop_defaults(f):
    """effective parameters as the PROPERTY states them: omitted masks mean /24 and /48, omitted burst = rate"""
    rate, burst, v4, v6 = int(f["rate"]), int(f["burst"]), int(f["v4"]), int(f["v6"])
    if rate <= 0:
        rate = 20
    if burst <= 0:
        burst = rate
    if not (1 <= v4 <= 32):
        v4 = 24
    if not (1 <= v6 <= 128):
        v6 = 48
    return rate, burst, v4, v6


def prop_key(addr, v4, v6):
    """subnet key as the property states it (declarative, via the ipaddress module)"""
    fam, x = parse_addr(addr)
    if fam == 6:
        ip = ipaddress.IPv6Address(x)
        if ip.ipv4_mapped is not None:
            fam, x = 4, int(ip.ipv4_mapped)
    if fam == 4:
        net = ipaddress.IPv4Network((x, v4), strict=False)
        return "4-%08x" % int(net.network_address)
    net = ipaddress.IPv6Network((x, v6), strict=False)
    return "6-%032x" % int(net.network_address)


def addr_pool(rng):
    """a handful of subnets: same /24, adjacent /24, v4-mapped twins, same /48, adjacent /48, same /64"""
    base4 = rng.randrange(1 << 32) & 0xFFFFFF00
    if rng.random() < 0.2:
        base4 = rng.choice([0x7F000000, 0x0A000000, 0xC0A80100, 0xFFFFFF00, 0x00000000])
    base6 = (rng.randrange(1 << 128) >> 80) << 80
    if rng.random() < 0.3:
        base6 = 0x20010DB8 << 96 | (rng.randrange(1 << 16) << 80)
    pool = [
        a4(base4 | 1), a4(base4 | 200), a4(base4 | 255), a4(base4),         # one /24
        a4((base4 + 0x100) | 1), a4((base4 - 0x100) | 77),                    # adjacent /24s
        a4(base4 ^ 0x80), a4(base4 ^ 0x8000),                                 # inside / outside at other masks
        mapped(base4 | 1), mapped(base4 | 9), mapped((base4 + 0x100) | 1),    # v4-mapped twins
        a6(base6 | 1), a6(base6 | (0xFFFF << 64) | 9), a6(base6 | (1 << 79)),  # one /48
        a6(base6 + (1 << 80) + 1), a6(base6 - (1 << 80) + 5),                 # adjacent /48s
        a6(base6 | (0x1234 << 64) | 1), a6(base6 | (0x1234 << 64) | (1 << 63)),  # one /64
    ]
    if rng.random() < 0.15:
        pool += [a6(0), a6(1), a4(0), a4(0xFFFFFFFF), a6((1 << 128) - 1), a6(0xFFFF << 32), a6(0xFFFE << 32 | 5)]
    k = rng.choice([2, 3, 5, 8, len(pool)])
    rng.shuffle(pool)
    return pool[:k]


RATES = [1, 1, 2, 3, 7, 10, 20, 20, 50, 100, 1000, 5000, 100000]
V4S = [0, 0, 24, 32, 16, 8, 25, 31, 1, 33, -1]
V6S = [0, 0, 48, 64, 56, 128, 32, 47, 49, 1, 129, -5]


def rand_opts(rng, omit=0.3):
    rate = rng.choice(RATES)
    burst = rng.choice([0, 1, 2, 5, rate, 2 * rate, 10 * rate, 60 * rate, 60 * rate + 1, 61 * rate, 100 * rate, 1000])
    if rng.random() < 0.03:
        rate = 0
    v4 = 0 if rng.random() < omit else rng.choice(V4S)
    v6 = 0 if rng.random() < omit else rng.choice(V6S)
    return rate, burst, v4, v6


def rand_dt(rng, rate):
    r = max(rate, 1)
    per = S // r
    return rng.choice([
        0, 0, 0, 1, 2, 1000, rng.randrange(1, 10 ** 6), rng.randrange(1, 10 ** 8), rng.randrange(1, 2 * 10 ** 9),
        per, per, per - 1, per + 1, 2 * per, 3 * per + 1, per // 2, per // 3,
        S, S - 1, 5 * S, 30 * S, 59 * S, 60 * S - 1, 60 * S, 60 * S + 1, 61 * S, 120 * S, rng.randrange(1, 200) * S,
    ])


def rand_cost(rng, burst_eff):
    return rng.choice([1, 1, 1, 2, 2, 3, 3, 15, burst_eff, burst_eff + 1, max(1, burst_eff - 1),
                       rng.randrange(1, burst_eff + 1), max(1, burst_eff // 2)])


def gen_history(rng, n_ops, rate, burst_eff, pool, gc_p, nonmono_p):
    ops = []
    for _ in range(n_ops):
        dt = rand_dt(rng, rate)
        if rng.random() < nonmono_p:
            dt = -rng.choice([1, 1000, S, 61 * S])
        if rng.random() < gc_p:
            ops.append("g:%d" % dt)
        else:
            ops.append("a:%d:%s:%d" % (dt, rng.choice(pool), rand_cost(rng, burst_eff)))
    return ops


def c15_limiter_gen(rng, tier):
    n = budget(tier, 5000, 100000)
    out = []
    for i in range(n):
        rate, burst, v4, v6 = rand_opts(rng)
        reff, beff, _, _ = prop_defaults(dict(rate=rate, burst=burst, v4=v4, v6=v6))
        pool = addr_pool(rng)
        mode = rng.random()
        gc_p = 0.0 if mode < 0.35 else rng.choice([0.03, 0.1, 0.25])
        nonmono = 0.03 if rng.random() < 0.08 else 0.0
        ops = gen_history(rng, rng.choice([8, 20, 40, 80, 150]), rate, beff, pool, gc_p, nonmono)
        out.append("h%d rate=%d burst=%d v4=%d v6=%d clock=virt ops=%s" % (i, rate, burst, v4, v6, ",".join(ops)))
    # real collector (gc() reads the real clock): one g op, arrivals keep 2 s clear of its 60 s threshold
    for i in range(budget(tier, 500, 8000)):
        rate, burst, v4, v6 = rand_opts(rng)
        reff, beff, _, _ = prop_defaults(dict(rate=rate, burst=burst, v4=v4, v6=v6))
        pool = addr_pool(rng)
        ops = gen_history(rng, rng.choice([6, 12, 30]), rate, beff, pool, 0.0, 0.0)
        pos = rng.randrange(1, len(ops) + 1)
        t, times = 0, []
        for op in ops[:pos]:
            t += int(op.split(":")[1])
            times.append(t)
        ok = False
        for _ in range(30):
            dtg = rng.choice([0, 1, S, 30 * S, 57 * S, 58 * S, 62 * S, 63 * S, 70 * S, 120 * S, rng.randrange(1, 150) * S])
            g = t + dtg
            if all(abs(x - (g - TTL)) >= 2 * S for x in times):
                ok = True
                break
        if not ok:
            continue
        ops.insert(pos, "g:%d" % dtg)
        out.append("r%d rate=%d burst=%d v4=%d v6=%d clock=real ops=%s" % (i, rate, burst, v4, v6, ",".join(ops)))
    return out


def parse_ops(f):
    """-> list of ('a', t, addr, n) / ('g', t), monotone flag"""
    t = 0
    evs = []
    mono = True
    for op in f["ops"].split(","):
        if not op:
            continue
        p = op.split(":")
        dt = int(p[1])
        if dt < 0:
            mono = False
        t += dt
        if p[0] == "a":
            evs.append(("a", t, p[2], int(p[3])))
        else:
            evs.append(("g", t))
    return evs, mono


def c15_limiter_oracle(line, res):
    """The property on the implementation's own decisions: a reference token bucket per subnet (keys and
    defaults as the property states them).  Over-admission <=> some window exceeds burst + rate*window;
    a refusal while the subnet's own bucket holds the cost <=> interference / wrongful refusal."""
    f = gens.fields(line)
    r = gens.fields(res)
    if "dec" not in r:
        return None
    evs, mono = parse_ops(f)
    if not mono:
        return None        # the property is about timed arrival sequences; unsorted ones are differential-only
    rate, burst, v4, v6 = prop_defaults(f)
    dec = r["dec"] if r["dec"] != "-" else ""
    B = burst * S
    # per key: [tokens, last_t] of the property's bucket, following the implementation's own decisions.  Collector
    # runs are not part of the property: whatever the collector does, the window bound and the "own budget" clause
    # must hold (they did not before the repair of finding K3: an idle entry was dropped and reborn full).
    st = {}
    i = 0
    for e in evs:
        if e[0] == "g":
            continue
        _, t, addr, n = e
        if i >= len(dec):
            return "decision sequence shorter than the history"
        d = dec[i]
        i += 1
        k = prop_key(addr, v4, v6)
        if k not in st:
            st[k] = [B, t]
        v = st[k]
        prop = min(B, v[0] + rate * (t - v[1]))
        v[0], v[1] = prop, t
        if d == "1":
            if n * S > prop + rate + EPS:
                return "window bound exceeded: subnet %s admitted cost %d at t=%d ns with only %.6f tokens (burst %d, rate %d)%s" % (
                    k, n, t, prop / S, burst, rate, " [history with collector runs]" if any(x[0] == "g" for x in evs) else "")
            v[0] = prop - n * S
        else:
            if n <= burst and prop - n * S >= EPS:
                return "refused within budget: subnet %s refused cost %d at t=%d ns holding %.6f tokens (burst %d, rate %d)" % (
                    k, n, t, prop / S, burst, rate)
    return None


def c15_limiter_compare(ir, mr):
    a, b = gens.fields(ir), gens.fields(mr)
    if "dec" not in a or "dec" not in b or (b.get("len") != "?" and a.get("len") != b.get("len")):
        return False
    da, db = a["dec"], b["dec"]
    if len(da) != len(db):
        return False
    return all(y == "?" or x == y for x, y in zip(da, db))


def c15_limiter_classify(line, res):
    f = gens.fields(line)
    r = gens.fields(res)
    c = f.get("clock", "?")
    if ",g:" in f.get("ops", "") or f.get("ops", "").startswith("g:"):
        c += "+gc"
    if ":-" in f.get("ops", ""):
        c += "+nonmono"
    if "6-00000000000000000000ffff" in f.get("ops", ""):
        c += "+mapped"
    if r.get("near", "0") != "0":
        c += "+near-threshold"
    return c


# ---- defaults / mask ----------------------------------------------------------------------------
def c15_defaults_gen(rng, tier):
    out = ["consts consts=1"]
    n = budget(tier, 3000, 60000)
    k = 0
    for rate in (0, 1, 20):
        for burst in (0, 7):
            for v4 in (0, 24, 32, 33, -1, 1):
                for v6 in (0, 48, 64, 128, 129, 1):
                    pool = addr_pool(rng)
                    out.append("d%d rate=%d burst=%d v4=%d v6=%d addrs=%s" % (k, rate, burst, v4, v6, ",".join(pool)))
                    k += 1
    for i in range(n):
        rate, burst, v4, v6 = rand_opts(rng, omit=0.25)
        if rng.random() < 0.5:
            v4 = rng.randrange(-2, 36)
            v6 = rng.randrange(-2, 132)
        pool = addr_pool(rng)
        for _ in range(3):
            pool.append(a4(rng.randrange(1 << 32)))
            pool.append(a6(rng.randrange(1 << 128)))
            pool.append(mapped(rng.randrange(1 << 32)))
        out.append("r%d rate=%d burst=%d v4=%d v6=%d addrs=%s" % (i, rate, burst, v4, v6, ",".join(pool)))
    return out


def c15_defaults_oracle(line, res):
    f = gens.fields(line)
    r = gens.fields(res)
    if "consts" in f:
        if not res.startswith("ttl=%d " % TTL):
            return None     # a changed constant is a model mismatch, not by itself a property failure
        return None
    if "eff" not in r:
        return None
    rate, burst, v4, v6 = prop_defaults(f)
    eff = r["eff"].split("/")
    want = [str(rate), str(burst), str(v4), str(v6)]
    if eff != want:
        return "effective options %s, the property says %s (omitted masks mean /24 and /48, omitted burst = rate)" % (
            "/".join(eff), "/".join(want))
    addrs = [a for a in f["addrs"].split(",") if a]
    keys = r.get("keys", "").split(",")
    for a, k in zip(addrs, keys):
        w = prop_key(a, v4, v6)
        if k != w:
            return "address %s is charged to %s, the property says %s" % (a, k, w)
    return None


def c15_defaults_classify(line, res):
    f = gens.fields(line)
    if "consts" in f:
        return "consts"
    c = []
    for k, lo, hi in (("rate", 1, None), ("burst", 1, None), ("v4", 1, 32), ("v6", 1, 128)):
        v = int(f[k])
        c.append(k + ("-omitted" if v == 0 else "-neg" if v < 0 else "-toobig" if hi and v > hi else ""))
    return " ".join(x for x in c if "-" in x) or "all-configured"


# ---- admission at the listeners (e2e) --------------------------------------------------------------
COST = dict(udp_query=1, tcp_query=2, http_query=2, quic_query=2, tcp_conn=3, quic_conn=15, upstream=3)
CLIENTS = [a4(0x7F000101), a4(0x7F000102), a4(0x7F000201), a4(0x7F000301), a4(0x7F0003FE)]
HTTP_CARRIER = a4(0x7F000909)
HDR_ADDRS = [a4(0x0A010203), a4(0x0A0102FE), a4(0x0A010303), mapped(0x7F000101), mapped(0x0A010203),
             a6(0x20010DB8000100000000000000000001), a6(0x20010DB80001FFFF0000000000000009),
             a6(0x20010DB8000200000000000000000001), a4(0x7F000201)]


def c15_admit_gen(rng, tier):
    out = []
    n = budget(tier, 120, 1500)
    for i in range(n):
        burst = rng.choice([3, 4, 5, 8, 14, 15, 16, 18, 20, 25, 29, 30, 40])
        v4 = rng.choice([0, 0, 24, 32])
        v6 = rng.choice([0, 0, 48, 64])
        steps = []
        http = rng.random() < 0.5
        if http:
            steps.append("hc:" + HTTP_CARRIER)
        kinds = rng.choice([["uq"], ["uq", "tq"], ["uq", "tq", "qq"], ["qq"], ["qq", "uq"], ["tq"]])
        clients = rng.sample(CLIENTS, rng.choice([1, 2, 3]))
        for _ in range(rng.choice([3, 5, 8, 10])):
            if http and rng.random() < 0.12:
                steps.append("hx:%d" % rng.randrange(10))
            elif http and rng.random() < 0.4:
                steps.append("hq:" + rng.choice(HDR_ADDRS))
            else:
                steps.append("%s:%s" % (rng.choice(kinds), rng.choice(clients)))
        out.append("e%d rate=1 burst=%d v4=%d v6=%d global=0 steps=%s" % (i, burst, v4, v6, ",".join(steps)))
    # round 6: listeners on abstract unix sockets (the transport peer has no IP address): a reverse proxy opens many
    # connections on behalf of clients from many subnets (address in the header); tcp over the unix socket as well
    for i in range(budget(tier, 14, 140)):
        burst = rng.choice([5, 5, 6, 7, 9, 12])
        subs = [a4((10 << 24) | (rng.randrange(1, 250) << 16) | (j << 8) | rng.randrange(1, 250)) for j in range(8)]
        subs += [a6((0x20010DB8 << 96) | (rng.randrange(1 << 16) << 80) | 1), mapped(0x0A630001 + (rng.randrange(200) << 8))]
        rng.shuffle(subs)
        steps = []
        nconn = rng.choice([3, 4, 5, 6])
        for j in range(nconn):
            steps.append("hc:none")
            steps += ["hq:" + subs[(j + t) % len(subs)] for t in range(rng.choice([1, 1, 2]))]
            if rng.random() < 0.35:
                steps.append("tq:" + rng.choice(["none", "none2", "none3", "none4"]))
            if rng.random() < 0.15:
                steps.append("hx:%d" % rng.randrange(10))
        if rng.random() < 0.5:
            steps += ["hq:" + subs[0]] * rng.choice([1, 2])
        out.append("x%d rate=1 burst=%d v4=%d v6=%d global=0 unix=1 steps=%s" % (
            i, burst, rng.choice([0, 24]), rng.choice([0, 48]), ",".join(steps)))
    # round 2: configured masks end to end.  DoH clients (address from the header) placed relative to BOTH configured
    # masks (cfg_pool): a noisy client exhausts its subnet, then neighbours inside / outside its subnet ask
    for i in range(budget(tier, 60, 600)):
        v4, v6 = rng.choice(CFG_V4), rng.choice(CFG_V6)
        if i < 12:
            v4, v6 = [(32, 56), (24, 48), (8, 64), (32, 128), (24, 32), (1, 48), (16, 0), (0, 64), (33, 56), (24, 129), (48, 24), (32, 32)][i]
        pool, base4, base6 = cfg_pool(rng, v4, v6)
        burst = rng.choice([5, 5, 6, 7, 10])
        noisy = rng.choice([base4, base6, base6])
        others = [a for a in pool if a != noisy]
        if noisy == base6:
            others = [a for a in others if a.startswith("6-") and not a.startswith("6-00000000000000000000ffff")] + rng.sample(others, 2)
        rng.shuffle(others)
        steps = ["hc:" + HTTP_CARRIER, "hq:" + noisy, "hq:" + noisy]
        steps += ["hq:" + a for a in others[:rng.choice([3, 5, 6])]]
        if rng.random() < 0.5:
            steps.insert(rng.randrange(2, len(steps) + 1), "hx:%d" % rng.randrange(10))
        steps.append("hq:" + noisy)
        out.append("m%d rate=1 burst=%d v4=%d v6=%d global=0 steps=%s" % (i, burst, v4, v6, ",".join(steps)))
    return out


def c15_admit_oracle(line, res):
    """per-subnet accounting as the property states it (cost table of app/router/limiter.go, every charge goes to
    the CLIENT's subnet), following the implementation's own outcomes; all events within one refill period"""
    f = gens.fields(line)
    r = gens.fields(res)
    if "out" not in r:
        return None
    _, burst, v4, v6 = prop_defaults(f)
    outs = r["out"].split(",")
    steps = [x for x in f["steps"].split(",") if x]
    if len(outs) != len(steps):
        return None
    tok = {}
    conns = set()

    def bucket(a):
        k = prop_key(a, v4, v6)
        tok.setdefault(k, burst)
        return k

    for st, o in zip(steps, outs):
        kind, a = st.split(":")
        if o.endswith("+fwd"):
            return "step %s: outcome %s but the query reached the upstream (a query the limiter did not admit must not be forwarded)" % (st, o)
        if a.startswith("none"):
            # a peer without an IP address (listener on a unix socket): there is no subnet to charge; the clients behind
            # the connection are limited per request by the address in the client_addr_header
            if kind in ("hc", "tq") and o == "CLOSED":
                return ("step %s: the connection of a peer without an IP address (listener on a unix socket) was closed by the "
                        "limiter: the connection cost can only be charged to a valid peer address; the clients behind such "
                        "connections (client_addr_header) are all within their own budgets" % st)
            continue
        if kind == "hx":
            # the client address header does not parse: no subnet can be charged, so the request must not be processed
            if o != "400":
                return "step %s: a request whose client address header does not parse was answered %s; it must get 400 and must not be processed" % (st, o)
            continue
        k = bucket(a)
        if "-nofwd" in o:
            return None
        if kind == "hc":
            if o == "CLOSED" and tok[k] >= COST["tcp_conn"]:
                return "step %s: connection closed although subnet %s holds %d tokens" % (st, k, tok[k])
            if o == "ACCEPT":
                if tok[k] < COST["tcp_conn"]:
                    return "step %s: connection admitted with %d tokens (cost %d)" % (st, tok[k], COST["tcp_conn"])
                tok[k] -= COST["tcp_conn"]
            continue
        ccost = dict(tq=COST["tcp_conn"], qq=COST["quic_conn"]).get(kind)
        qcost = dict(uq=COST["udp_query"], tq=COST["tcp_query"], qq=COST["quic_query"], hq=COST["http_query"])[kind]
        refusal = dict(uq="REFUSED", tq="REFUSED", qq="SCLOSED", hq="503")[kind]
        if ccost is not None and (kind, a) not in conns:
            if o == "CLOSED":
                if tok[k] >= ccost:
                    return "step %s: connection closed although subnet %s holds %d tokens (cost %d): refused because of other subnets' traffic" % (
                        st, k, tok[k], ccost)
                continue
            if o in ("ANS", refusal):
                if tok[k] < ccost:
                    return "step %s: connection admitted with %d tokens (cost %d)" % (st, tok[k], ccost)
                tok[k] -= ccost
                conns.add((kind, a))
            else:
                return None
        if o == "ANS":
            if tok[k] < qcost:
                return "step %s: query admitted with %d tokens (cost %d)" % (st, tok[k], qcost)
            tok[k] -= qcost
            if tok[k] >= COST["upstream"]:
                tok[k] -= COST["upstream"]
        elif o == refusal:
            if tok[k] >= qcost:
                return "step %s: query refused although subnet %s holds %d tokens (cost %d)" % (st, k, tok[k], qcost)
        elif o in ("REFUSED", "503", "SCLOSED", "CLOSED"):
            return "step %s: refusal signalled as %s, the property says %s" % (st, o, refusal)
        elif tok[k] < qcost and kind in ("uq", "tq", "hq") and (o.isdigit() or o.startswith("RCODE") or o == "EMPTY"):
            return "step %s: subnet %s holds %d tokens (cost %d) and the query was answered %s, the property says %s" % (
                st, k, tok[k], qcost, o, refusal)
        else:
            return None
    return None


def c15_admit_classify(line, res):
    f = gens.fields(line)
    ks = sorted(set(x.split(":")[0] for x in f.get("steps", "").split(",") if x))
    r = gens.fields(res).get("out", "")
    tags = [t for t in ("REFUSED", "503", "CLOSED", "SCLOSED") if t in r.split(",")]
    m = ""
    if int(f.get("v4", "0")) != 0 or int(f.get("v6", "0")) != 0:
        m = " masks-set" + ("-differ" if f.get("v4") != f.get("v6") else "")
    if f.get("unix") == "1":
        m += " unix-socket"
    return "+".join(ks) + "=>" + ("/".join(tags) or "all-admitted") + m


# ---- round 2: the router's configuration mapping -------------------------------------------------------
# boundary catalogue of the mask fields (0 = omitted; out-of-range values fall back to the default of the family)
CFG_V4 = [0, 1, 8, 16, 24, 25, 31, 32, 33, -1, 48, 128]
CFG_V6 = [0, 1, 8, 24, 32, 47, 48, 49, 56, 64, 127, 128, 129, -5]


def flip(x, width, bit_from_top):
    """x with the bit number bit_from_top (0 = most significant of `width`) inverted"""
    return x ^ (1 << (width - 1 - bit_from_top))


def cfg_pool(rng, v4, v6):
    """addresses placed relative to BOTH configured masks: for each family a base, a neighbour inside the same subnet
    (first bit after the family's mask inverted), a neighbour in the adjacent subnet (last bit of the family's mask
    inverted), and neighbours that differ right after / right at the OTHER family's prefix length (same first
    <other mask> bits, different subnet — or the converse), plus v4-mapped twins of the IPv4 addresses."""
    _, _, m4, m6 = prop_defaults(dict(rate=1, burst=1, v4=v4, v6=v6))
    b4 = rng.randrange(1 << 32)
    b6 = rng.randrange(1 << 128)
    if rng.random() < 0.5:
        b6 = (0x20010DB8 << 96) | rng.randrange(1 << 96)
    if (b6 >> 32) == 0xFFFF:
        b6 ^= 1 << 127
    p4 = [b4, flip(b4, 32, m4 - 1)]
    if m4 < 32:
        p4.append(flip(b4, 32, m4))
    for q in (m6, m6 - 1, 24, 8):
        if 0 <= q < 32:
            p4.append(flip(b4, 32, q))
    p6 = [b6, flip(b6, 128, m6 - 1)]
    if m6 < 128:
        p6.append(flip(b6, 128, m6))
    for q in (m4, m4 - 1, 32, 48, 56, 64, 127):
        if 0 <= q < 128:
            p6.append(flip(b6, 128, q))
    pool = [a4(x) for x in p4] + [a6(x) for x in p6 if (x >> 32) != 0xFFFF]
    pool += [mapped(p4[0]), mapped(p4[1]), mapped(p4[-1])]
    return pool, a4(b4), a6(b6)


def c15_config_gen(rng, tier):
    out = []
    n = budget(tier, 1500, 30000)
    combos = [(v4, v6) for v4 in CFG_V4 for v6 in CFG_V6]
    for i in range(n):
        v4, v6 = combos[i % len(combos)] if i < 2 * len(combos) else (rng.choice(CFG_V4), rng.choice(CFG_V6))
        rate = rng.choice([1, 1, 2, 5, 20, 100])
        burst = rng.choice([0, 1, 2, 5, 10, rate, 3 * rate])
        glob = rng.choice([0, 0, 0, 0, 50])
        if i % 97 == 96:
            rate = rng.choice([0, -1])
        reff, beff, _, _ = prop_defaults(dict(rate=rate, burst=burst, v4=v4, v6=v6))
        pool, base4, base6 = cfg_pool(rng, v4, v6)
        ops = []
        # isolation script: one client spends its subnet's whole burst, then every other address asks once at the
        # same instant (same subnet: refused; any other subnet: admitted), then the noisy client again
        noisy = rng.choice([base4, base6, base6])
        ops.append("a:0:%s:%d" % (noisy, beff))
        others = [a for a in pool if a != noisy]
        rng.shuffle(others)
        for a in others[:rng.choice([4, 8, len(others)])]:
            ops.append("a:0:%s:%d" % (a, rng.choice([1, 1, beff])))
        ops.append("a:0:%s:1" % noisy)
        gc_p = rng.choice([0.0, 0.05])
        ops += gen_history(rng, rng.choice([0, 6, 15, 30]), rate, beff, pool, gc_p, 0.0)
        out.append("c%d global=%d rate=%d burst=%d v4=%d v6=%d clock=virt addrs=%s ops=%s" % (
            i, glob, rate, burst, v4, v6, ",".join(pool), ",".join(ops)))
    return out


def c15_config_oracle(line, res):
    f = gens.fields(line)
    r = gens.fields(res)
    if r.get("cl") != "1" or int(f["rate"]) <= 0:
        return None       # limit <= 0 = "no client limit": the code's convention, tied by the model comparison
    rate, burst, v4, v6 = prop_defaults(f)
    eff = r.get("eff", "").split("/")
    want = [str(rate), str(burst), str(v4), str(v6)]
    if eff != want:
        return ("the router configured with limit=%s burst=%s v4_mask=%s v6_mask=%s runs its client limiter with %s "
                "(rate/burst/v4/v6), the property says %s (IPv4 clients by v4_mask, IPv6 clients by v6_mask; /24 and /48 "
                "unless configured otherwise)" % (f["rate"], f["burst"], f["v4"], f["v6"], "/".join(eff), "/".join(want)))
    addrs = [a for a in f["addrs"].split(",") if a]
    keys = r.get("keys", "").split(",")
    for a, k in zip(addrs, keys):
        w = prop_key(a, v4, v6)
        if k != w:
            return "address %s is charged to %s, the property says %s (v4_mask=%s v6_mask=%s)" % (a, k, w, f["v4"], f["v6"])
    return c15_limiter_oracle(line, res)


def c15_config_compare(ir, mr):
    a, b = gens.fields(ir), gens.fields(mr)
    for k in ("cl", "glob", "eff", "keys"):
        if a.get(k) != b.get(k):
            return False
    if a.get("cl") != "1":
        return ir == mr
    return c15_limiter_compare(ir, mr)


def c15_config_classify(line, res):
    f = gens.fields(line)
    c = []
    for k, hi in (("v4", 32), ("v6", 128)):
        v = int(f[k])
        c.append("%s-%s" % (k, "omitted" if v == 0 else "neg" if v < 0 else "toobig" if v > hi else "set"))
    if int(f["v4"]) != int(f["v6"]):
        c.append("differ")
    if int(f["rate"]) <= 0:
        c.append("no-client-limit")
    if int(f.get("global", "0")) > 0:
        c.append("global")
    return " ".join(c)


# ---- round 2: concurrent first arrivals ------------------------------------------------------------------
RACE_TOL_NS = 10 ** 6      # clock=real: 1 ms of refill granted on top of the measured round time


def c15_race_gen(rng, tier):
    out = []
    k = 0
    for i in range(budget(tier, 36, 300)):
        rate = rng.choice([1, 2, 10, 20, 100])
        burst = rng.choice([1, 2, 5, 10, 15, 20, min(60 * rate, 100)])
        burst = min(burst, 60 * rate)
        fam = rng.choice(["4", "4", "6"])
        v4 = rng.choice([0, 24, 16, 32, 28])
        v6 = rng.choice([0, 48, 56, 64])
        g = rng.choice([2, 4, 8, 16, 16, 32])
        calls = rng.choice([1, 1, 2, 4])
        cost = min(burst, rng.choice([1, 1, 2, 3, 15, burst, burst, max(1, burst // 2)]))
        if i % 4 == 3:
            mode, rounds = "gc", budget(tier, 150, 600)
        else:
            mode, rounds = "fresh", budget(tier, 400, 2000)
        out.append("x%d rate=%d burst=%d v4=%d v6=%d fam=%s g=%d calls=%d cost=%d rounds=%d mode=%s clock=virt" % (
            k, rate, burst, v4, v6, fam, g, calls, cost, rounds, mode))
        k += 1
    for i in range(budget(tier, 6, 40)):
        rate = rng.choice([1, 2, 10])
        burst = rng.choice([1, 5, 10, 20])
        g = rng.choice([8, 16])
        cost = rng.choice([1, burst])
        out.append("x%d rate=%d burst=%d v4=%d v6=%d fam=%s g=%d calls=%d cost=%d rounds=%d mode=fresh clock=real" % (
            k, rate, burst, rng.choice([0, 24]), rng.choice([0, 48, 64]), rng.choice(["4", "6"]), g, rng.choice([1, 2]), cost,
            budget(tier, 300, 1500)))
        k += 1
    return out


def _rng2(s):
    lo, hi = s.split("..")
    return int(lo), int(hi)


def c15_race_oracle(line, res):
    """the property on what the real limiter admitted: the goroutines of a round arrive for ONE subnet that has no
    bucket yet (or whose bucket has just been collected); within the round the subnet gets at most
    burst + rate * elapsed (elapsed = 0 in virtual time), and the full burst when enough is asked; the control
    subnet gets exactly what its own bucket holds"""
    f = gens.fields(line)
    r = gens.fields(res)
    if "adm" not in r or r["adm"] == "?":
        return None
    rate, burst, _, _ = prop_defaults(f)
    g, calls, cost, rounds = int(f["g"]), int(f["calls"]), int(f["cost"]), int(f["rounds"])
    want = (min(g * calls, burst // cost) * cost) if cost <= burst else 0
    what = "%d goroutines x %d calls of cost %d released together on a subnet without a bucket" % (g, calls, cost)
    if f["clock"] == "real":
        a, el = (int(x) for x in r["worst"].split(":"))
        bound = burst + rate * (el + RACE_TOL_NS) / S
        if a > bound + 1e-6:
            return "window bound exceeded: %s: cost %d admitted within %d ns, burst + rate*window = %d + %d*%.6f s (+1 ms tolerance) = %.3f" % (
                what, a, el, burst, rate, el / S, bound)
        lo, _ = _rng2(r["adm"])
        if lo < want:
            return "refused within budget: %s: only %d admitted, the subnet's full bucket holds %d" % (what, lo, burst)
        return None
    for fld, when in (("adm", "at one instant"), ("adm2", "at one instant right after the collector dropped the subnet's idle entry")):
        if fld not in r:
            continue
        lo, hi = _rng2(r[fld])
        if hi > burst:
            return "window bound exceeded: %s: cost %d admitted %s, burst %d (rate %d, window 0)" % (what, hi, when, burst, rate)
        if lo < want:
            return "refused within budget: %s: only %d admitted %s, the subnet's full bucket holds %d" % (what, lo, when, burst)
    if "coll" in r:
        ctl_want = 2 * rounds * burst
    else:
        ctl_want = min(min(burst, 3), rounds)
    if r.get("ctl", "-") != "-" and int(r["ctl"]) != ctl_want:
        return "another subnet is affected: the control subnet was admitted cost %s, its own bucket says %d" % (r["ctl"], ctl_want)
    return None


def c15_race_compare(ir, mr):
    a, b = gens.fields(ir), gens.fields(mr)
    if b.get("adm") == "?":
        return "adm" in a and a.get("r") == b.get("r")
    return ir == mr


def c15_race_classify(line, res):
    f = gens.fields(line)
    return "%s/%s fam%s g=%s" % (f["clock"], f["mode"], f["fam"], f["g"])


# ---- round 4: the composed limiter (global bucket + per-subnet buckets) through resourceLimiter.AllowN ------------
def _ph(calls, sleep=0):
    return "%d/%s" % (sleep, "+".join("%s:%d" % (a, n) for a, n in calls))


def c15_global_gen(rng, tier):
    out = []
    k = 0

    def subnets(n, fam=None):
        res = []
        for i in range(n):
            if (fam or rng.choice("446")) == "4":
                res.append(a4((10 << 24) | (rng.randrange(1, 250) << 16) | (rng.randrange(256) << 8) | rng.randrange(1, 255)))
            else:
                res.append(a6((0x20010DB8 << 96) | (rng.randrange(1 << 32) << 64) | rng.randrange(1, 1 << 16)))
        return res

    # (1) overload: other subnets (each within its own budget) use up the global bucket while the victim retries;
    #     after the global bucket has refilled the victim asks again
    for i in range(budget(tier, 24, 240)):
        g = rng.choice([3, 5, 5, 8, 10])
        rate = rng.choice([1, 1, 2])
        burst = rng.choice([3, 4, 5, 6, 8])
        victim = subnets(1)[0]
        others = subnets(g + 2)
        p0 = [(a, 1) for a in others[:g]]
        tries = rng.choice([1, 2, burst - 1, burst, burst + 2])
        vcalls = [(victim, 1)] * tries
        if rng.random() < 0.5:
            p0 = p0 + vcalls
        else:                       # interleaved with a second wave of the others
            p0 = p0 + vcalls[:tries // 2] + [(a, 1) for a in others[g:]] + vcalls[tries // 2:]
        phases = [_ph(p0)]
        if rng.random() < 0.4:      # the victim keeps retrying while the overload goes on
            phases.append(_ph([(rng.choice(others), 1) for _ in range(g)] + [(victim, 1)] * rng.choice([1, 2, 3]),
                              rng.choice([300, 600, 1000])))
        p2 = [(victim, 1)] * rng.choice([1, 2, 3, burst]) + [(rng.choice(others), 1) for _ in range(rng.choice([0, 2]))]
        phases.append(_ph(p2, rng.choice([1100, 1300, 1600])))
        out.append("g%d global=%d rate=%d burst=%d v4=%d v6=%d ph=%s" % (
            k, g, rate, burst, rng.choice([0, 24]), rng.choice([0, 48, 64]), ",".join(phases)))
        k += 1
    # (2) random phases over a few subnets, global limit on/off, client limit on/off
    for i in range(budget(tier, 40, 400)):
        g = rng.choice([0, 0, 3, 5, 10, 20, 50])
        rate = rng.choice([1, 2, 5, 20]) if rng.random() < 0.9 else 0
        burst = rng.choice([0, 3, 5, 10, 15])
        pool = subnets(rng.choice([2, 3, 5]))
        if rng.random() < 0.3:
            x = rng.randrange(1 << 32)
            pool += [a4(x), mapped(x)]
        if rng.random() < 0.5:
            pool.append(a4(parse_addr(pool[0])[1] ^ 1) if pool[0].startswith("4-") else a6(parse_addr(pool[0])[1] ^ 1))
        _, beff, _, _ = prop_defaults(dict(rate=rate, burst=burst, v4=0, v6=0))
        phases = []
        total = 0
        for j in range(rng.choice([1, 2, 3, 4])):
            sl = 0 if j == 0 else rng.choice([0, 200, 500, 900, 1100, 1500])
            if total + sl > 3000:
                sl = 0
            total += sl
            calls = [(rng.choice(pool), rng.choice([1, 1, 1, 2, 3, 15, beff, beff + 1])) for _ in range(rng.choice([3, 8, 15, 25]))]
            phases.append(_ph(calls, sl))
        out.append("g%d global=%d rate=%d burst=%d v4=%d v6=%d ph=%s" % (
            k, g, rate, burst, rng.choice([0, 24, 32]), rng.choice([0, 48, 56]), ",".join(phases)))
        k += 1
    return out


def _global_parse(line, res):
    f = gens.fields(line)
    r = gens.fields(res)
    if "t=" not in res or "res" not in r:
        return None
    phases = []
    for ps in f["ph"].split(","):
        sl, cs = ps.split("/", 1)
        phases.append([(c.split(":")[0], int(c.split(":")[1])) for c in cs.split("+") if c])
    times = [tuple(int(x) for x in t.split(":")) for t in r["t"].split(",")]
    rs = [("" if x == "-" else x) for x in r["res"].split(",")]
    if len(times) != len(phases) or len(rs) != len(phases) or any(len(a) != len(b) for a, b in zip(phases, rs)):
        return None
    return f, phases, times, rs


def c15_global_respec(line, res):
    if _global_parse(line, res) is None:
        return None
    r = gens.fields(res)
    return "%s t=%s ires=%s" % (line, r["t"], r["res"])


def c15_global_oracle(line, res):
    """The property on the results of the real resourceLimiter.  Reference buckets follow the implementation's own
    results; every bucket is kept as an interval [lo, hi] of tokens (a call of phase p happened somewhere in [a_p, b_p]).
    * admitted although the subnet's own bucket (charged with what was ADMITTED for it, nothing else) cannot hold the cost
    * refused by the CLIENT limit although that bucket surely holds the cost: the subnet is within its budget and is
      refused because of other traffic (queries the global limit refused must not be charged to the subnet)
    * refused by the GLOBAL limit although none is configured / although the global bucket (charged with every query
      that got past it) surely holds the cost"""
    p = _global_parse(line, res)
    if p is None:
        return None
    f, phases, times, rs = p
    glob = int(f["global"])
    has_client = int(f["rate"]) > 0
    rate, burst, v4, v6 = prop_defaults(f)
    st = {}                      # key -> [lo, hi, t_last_lo, t_last_hi]
    G = [glob * S, glob * S, 0, 0]

    def adv(b, cap, rt, a, bb):
        # refill over at least (a - t_last_hi) and at most (bb - t_last_lo)
        lo = min(cap, b[0] + rt * max(0, a - b[3]))
        hi = min(cap, b[1] + rt * max(0, bb - b[2]))
        return lo, hi

    for calls, (a, bb), r in zip(phases, times, rs):
        for (addr, n), x in zip(calls, r):
            k = prop_key(addr, v4, v6)
            if has_client and k not in st:
                st[k] = [burst * S, burst * S, a, bb]
            glo, ghi = adv(G, glob * S, glob, a, bb) if glob > 0 else (0, 0)
            if x == "g":
                if glob <= 0:
                    return "call %s:%d refused by the global limit although no global limit is configured" % (addr, n)
                if n <= glob and glo - n * S >= EPS:
                    return "call %s:%d refused by the global limit although the global bucket holds at least %.6f tokens" % (
                        addr, n, glo / S)
                continue         # a query the global limit refuses is charged to nobody
            if glob > 0:
                if x == "o" and n * S > ghi + glob + EPS:
                    return "global limit exceeded: call %s:%d got past the global bucket holding at most %.6f tokens" % (addr, n, ghi / S)
                # lower bound: every query that was not refused by the global limit has been charged to it (the code
                # consults the global bucket first); upper bound: only what was ADMITTED is known to have been charged
                G[0], G[1], G[2], G[3] = max(glo - n * S, -glob), (ghi - n * S if x == "o" else ghi), a, bb
            if not has_client:
                if x == "c":
                    return "call %s:%d refused by the client limit although no client limit is configured" % (addr, n)
                continue
            b = st[k]
            lo, hi = adv(b, burst * S, rate, a, bb)
            if x == "o":
                if n * S > hi + rate + EPS:
                    return "window bound exceeded: subnet %s admitted cost %d holding at most %.6f tokens (burst %d, rate %d)" % (
                        k, n, hi / S, burst, rate)
                b[0], b[1], b[2], b[3] = max(lo - n * S, -rate), hi - n * S, a, bb
            elif x == "c":
                if n <= burst and lo - n * S >= EPS:
                    return ("subnet %s is within its budget (its own bucket, charged only with what was admitted for it, holds at "
                            "least %.6f tokens; burst %d, rate %d) and is refused cost %d by the CLIENT limit: refused because of "
                            "other subnets' traffic (e.g. queries the global limit refused were charged to the subnet)" % (
                                k, lo / S, burst, rate, n))
                # a refusal changes nothing
            else:
                return None
    return None


def c15_global_classify(line, res):
    f = gens.fields(line)
    r = gens.fields(res).get("res", "")
    c = "global-%s client-%s" % ("on" if int(f["global"]) > 0 else "off", "on" if int(f["rate"]) > 0 else "off")
    c += " =>" + "".join(sorted(set(x for x in r if x in "ogc")))
    if f["ph"].count(",") and "g" in r.split(",")[0]:
        c += " refill-after-global-refusal"
    return c


# ---- round 4, end to end: overload of the global limit through the real UDP listener ----------------------------------
def c15_admitglobal_gen(rng, tier):
    out = []
    for i in range(budget(tier, 8, 60)):
        g = rng.choice([8, 10, 12])
        burst = rng.choice([6, 7, 9])
        victim = a4(0x7F000201 + (rng.randrange(1, 9) << 8))                  # 127.0.x.1
        others = [a4(0x7F001401 + (j << 8)) for j in range(12)]                # 127.0.20.1 ... (one /24 each)
        rng.shuffle(others)
        steps = ["uq:" + a for a in others[:rng.choice([4, 5, 6])]]           # each within its own budget (cost 1 + 3)
        tries = rng.choice([3, 5, burst, burst + 1])
        pos = rng.choice([0, 2])
        flood = steps[pos:] + ["uq:" + victim] * tries
        if rng.random() < 0.5:
            flood = flood[:len(steps) - pos + tries // 2] + ["uq:" + a for a in others[6:8]] + flood[len(steps) - pos + tries // 2:]
        steps = steps[:pos] + flood
        steps.append("sl:%d" % rng.choice([1200, 1400]))
        steps += ["uq:" + victim] * 3
        out.append("ag%d rate=1 burst=%d v4=0 v6=0 global=%d victim=%s steps=%s" % (i, burst, g, victim, ",".join(steps)))
    return out


def c15_admitglobal_oracle(line, res):
    """Other subnets, each within its own budget, use up the global bucket while the victim retries; after a pause > 1 s
    (the global bucket, rate = burst, is full again) the victim's k-th query must be answered as long as what was
    ADMITTED for its subnet (an answered query is charged at most 1 + 3) still leaves the cost of a query:
    4*(answered so far) + 1 <= burst, and the same for the global bucket.  Refill is not even counted."""
    f = gens.fields(line)
    r = gens.fields(res)
    if "out" not in r or "SLOW" in res:
        return None
    outs = r["out"].split(",")
    steps = [x for x in f["steps"].split(",") if x]
    if len(outs) != len(steps) or "SL" not in outs:
        return None
    burst, glob, victim = int(f["burst"]), int(f["global"]), f["victim"]
    cut = outs.index("SL")
    for st, o in zip(steps, outs):
        if o.endswith("+fwd"):
            return "step %s: outcome %s but the query reached the upstream (a refused query must not be forwarded)" % (st, o)
    # every try of the victim that was not REFUSED counts as charged (answered, or answer lost)
    a = sum(1 for st, o in zip(steps[:cut], outs[:cut]) if st == "uq:" + victim and o != "REFUSED")
    k = 0
    for st, o in zip(steps[cut + 1:], outs[cut + 1:]):
        if st != "uq:" + victim:
            return None
        own = 4 * (a + k) + 1
        if own > burst or 4 * k + 1 > glob:
            return None
        if o == "REFUSED":
            return ("the victim %s (nothing but %d answered queries, cost <= %d, was ever admitted for its subnet; burst %d, 1/s) is "
                    "REFUSED %d ms after the overload although the global bucket (%d/s) is full again and its own bucket must "
                    "hold at least %d tokens: refused because of other subnets' traffic (its refused tries during the overload "
                    "were charged to it)" % (victim, a + k, 4 * (a + k), burst, int(steps[cut].split(":")[1]), glob, burst - 4 * (a + k)))
        if not o.startswith("ANS"):
            return None
        k += 1
    return None


def c15_admitglobal_classify(line, res):
    r = gens.fields(res).get("out", "")
    outs = r.split(",")
    if "SL" not in outs:
        return "not-run"
    cut = outs.index("SL")
    return "overload:%s after:%s" % ("refusals" if "REFUSED" in outs[:cut] else "no-refusal", "/".join(outs[cut + 1:]))


# ---- round 6: one long-lived stream connection (limiter + in-flight cap) -------------------------------------------------
STREAM_CONN = dict(tcp=3, tls=15, gnet=3, quic=15)
STREAM_QUERY = dict(tcp=2, tls=2, gnet=0, quic=2)          # gnet has no per-query check


def c15_stream_gen(rng, tier):
    out = []
    k = 0

    def emit(l, rate, burst, maxc, updelay, steps):
        nonlocal k
        out.append("s%d l=%s rate=%d burst=%d maxc=%d updelay=%d steps=%s" % (k, l, rate, burst, maxc, updelay, ",".join(steps)))
        k += 1

    # (A) a storm of limiter refusals on ONE connection, a pause long enough for the bucket to refill, queries again
    for i in range(budget(tier, 12, 120)):
        l = rng.choice(["tcp", "tcp", "tcp", "tls", "tls", "quic"])
        rate = rng.choice([1, 2, 2])
        maxc = rng.choice([1, 2, 2, 3, 4])
        burst = STREAM_CONN[l] + rng.choice([5, 7, 9, 12])
        steps = ["c"]
        if rng.random() < 0.3:
            steps.append("d")
            burst += STREAM_CONN[l]
        for rnd in range(rng.choice([1, 1, 2])):
            steps += [rng.choice(["q", "q", "q", "n" if "d" in steps else "q"]) for _ in range(rng.choice([4, 5, 7, 9]))]
            if rng.random() < 0.3:
                steps.append("p%d" % rng.choice([2, 3]))
            steps.append("s%d" % (rng.choice([1400, 2400, 2600, 3400]) // rate + (0 if rate == 1 else 200)))
            steps += ["q"] * rng.choice([1, 2, 3])
        emit(l, rate, burst, maxc, 0, steps)
    # (B) the cap itself: pipelined bursts larger than max_concurrent_queries while the upstream is slow; every slot
    #     must be free again afterwards
    for i in range(budget(tier, 8, 80)):
        l = rng.choice(["tcp", "tcp", "tls", "gnet", "gnet"])
        rate = rng.choice([2, 5, 20])
        maxc = rng.choice([1, 2, 3, 4])
        burst = rng.choice([60, 100, 150])
        steps = ["c", "p%d" % (maxc + rng.choice([1, 2, 3])), "q"]
        steps += [rng.choice(["p%d" % (maxc + 1), "q", "s400", "p2", "p%d" % (maxc + 2)]) for _ in range(rng.choice([2, 4, 6]))]
        steps += ["s%d" % rng.choice([600, 1400]), "p%d" % maxc, "q"]
        emit(l, rate, burst, maxc, 150, steps)
    # (C) mixed
    for i in range(budget(tier, 8, 80)):
        l = rng.choice(["tcp", "tls", "gnet", "quic"])
        rate = rng.choice([1, 2, 5])
        maxc = rng.choice([0, 2, 3, 5])
        burst = STREAM_CONN[l] * 2 + rng.choice([4, 8, 15])
        steps = ["c", "d"]
        total = 0
        for _ in range(rng.choice([6, 10, 14])):
            st = rng.choice(["q", "q", "q", "n", "n", "p2", "p3", "s400", "s1400", "s700"])
            if st[0] == "s":
                if total > 3000:
                    continue
                total += int(st[1:])
            steps.append(st)
        emit(l, rate, burst, maxc, rng.choice([0, 0, 150]), steps)
    return out


def _stream_parse(line, res):
    f = gens.fields(line)
    r = gens.fields(res)
    if "t=" not in res or "out" not in r:
        return None
    steps = [x for x in f["steps"].split(",") if x]
    times = [tuple(int(x) for x in t.split(":")) for t in r["t"].split(",")]
    outs = r["out"].split(",")
    if len(times) != len(steps) or len(outs) != len(steps):
        return None
    if any(ch in "TX" for o in outs for ch in o):
        return None             # a lost reply is not this property's business, and nothing can be accounted after it
    return f, steps, times, outs


def c15_stream_respec(line, res):
    if _stream_parse(line, res) is None:
        return None
    r = gens.fields(res)
    return "%s t=%s iout=%s" % (line, r["t"], r["out"])


def c15_stream_oracle(line, res):
    """The property on what the client of ONE connection observed.  The subnet's bucket is kept as an interval [lo, hi] of
    tokens (an event of step i happened somewhere in [a_i, b_i]), charged as the cost table says with what was ADMITTED
    (connection 3 / 15, query 2, +3 for the forwarded query when the bucket holds it).  A query is refused rightly only if
    the bucket cannot hold its cost, or -- tcp / tls / gnet -- if max_concurrent_queries queries of the connection are in
    flight at that moment, i.e. earlier queries of the SAME pipelined burst (every earlier step has been answered
    completely; one slot of slack for a reply whose slot is given back a moment later)."""
    p = _stream_parse(line, res)
    if p is None:
        return None
    f, steps, times, outs = p
    l, rate, burst = f["l"], int(f["rate"]), int(f["burst"])
    maxc = int(f["maxc"]) if int(f["maxc"]) > 0 else 100
    ccost, qcost = STREAM_CONN[l], STREAM_QUERY[l]
    has_cap = l in ("tcp", "tls", "gnet")
    refusal = "C" if l == "quic" else "R"
    B = burst * S
    b = None                    # [lo, hi, t_last_lo, t_last_hi]
    dead = [False, False]

    def adv(a, bb):
        lo = min(B, b[0] + rate * max(0, a - b[3]))
        hi = min(B, b[1] + rate * max(0, bb - b[2]))
        return lo, hi

    for st, (a, bb), o in zip(steps, times, outs):
        if st[0] == "s":
            continue
        who = 1 if st[0] in "dn" else 0
        if b is None:
            b = [B, B, a, bb]
        if st[0] in "cd":
            lo, hi = adv(a, bb)
            if o == "A":
                if ccost * S > hi + rate + EPS:
                    return "step %s: connection admitted although the subnet's bucket holds at most %.6f tokens (cost %d)" % (st, hi / S, ccost)
                b[:] = [max(lo - ccost * S, -rate), hi - ccost * S, a, bb]
            else:
                dead[who] = True
                if lo - ccost * S >= EPS:
                    return "step %s: connection closed at accept although the subnet's bucket holds at least %.6f tokens (cost %d)" % (st, lo / S, ccost)
            continue
        if dead[who]:
            return None
        # Within one step the read loop's checks (cost 2 each) race with the handlers' charges for the forwarded queries
        # (3 each, only when the bucket holds them): lo counts every earlier charge of the step as done, hi none of them.
        handled = 0
        lo, hi = adv(a, bb)
        for j, ch in enumerate(o):
            if ch == "A":
                if qcost and qcost * S > hi + rate + EPS:
                    return "step %s query %d: admitted although the subnet's bucket holds at most %.6f tokens (cost %d)" % (st, j, hi / S, qcost)
                lo, hi = lo - qcost * S, hi - qcost * S
                handled += 1
            elif ch == refusal:
                by_cap = has_cap and handled + 2 > maxc
                lo_now = lo - 3 * S * handled
                by_limiter = qcost > 0 and lo_now - qcost * S < EPS
                if not by_cap and not by_limiter:
                    return ("step %s query %d: refused although the client is within budget: its subnet's bucket holds at least %.6f "
                            "tokens (query cost %d; burst %d, rate %d) and at most %d of max_concurrent_queries=%d queries of the "
                            "connection are in flight (every earlier step was answered completely)" % (
                                st, j, lo_now / S, qcost, burst, rate, handled + 1 if has_cap else 0, maxc))
            else:
                return None
        if handled:
            # after the step: all charges for forwarded queries are done; one that found fewer than 3 tokens left them
            lo, hi = max(lo - 3 * S * handled, -rate), max(hi - 3 * S * handled, min(hi, 3 * S))
        b[:] = [max(lo, -rate), hi, a, bb]
    return None


def c15_stream_classify(line, res):
    f = gens.fields(line)
    outs = gens.fields(res).get("out", "")
    c = f["l"] + (" delay" if int(f["updelay"]) > 0 else "") + " maxc=%s" % f["maxc"]
    seen_ref = False
    tag = ""
    for st, o in zip(f["steps"].split(","), outs.split(",")):
        if st[0] in "qnp" and ("R" in o or (f["l"] == "quic" and "C" in o)):
            seen_ref = True
        if st[0] == "s" and seen_ref:
            tag = " refusals-then-pause"
    return c + tag


C15_TRUST = ["C15: x/time/rate modelled as an exact integer-arithmetic token bucket (tokens scaled by 1e9); decisions within "
             "1e-6 token of the threshold are not compared (float64)",
             "C15: xsync.MapOf.LoadOrCompute is ONE atomic get-or-create step (the interleaving machine of LimiterConc.v); "
             "tested by kind limrace, not proved"]

PROPS["C15"] = dict(
    kinds=[
        dict(name="limdefaults", gen=c15_defaults_gen, oracle=c15_defaults_oracle, classify=c15_defaults_classify, timeout=600,
             nontrivial=lambda l, r: True),
        dict(name="limiter", gen=c15_limiter_gen, oracle=c15_limiter_oracle, compare=c15_limiter_compare,
             classify=c15_limiter_classify, shards=8, timeout=900, nontrivial=lambda l, r: "dec=" in r),
        dict(name="limconfig", gen=c15_config_gen, oracle=c15_config_oracle, compare=c15_config_compare,
             classify=c15_config_classify, shards=4, timeout=600, nontrivial=lambda l, r: "eff=" in r),
        dict(name="limrace", gen=c15_race_gen, oracle=c15_race_oracle, compare=c15_race_compare,
             classify=c15_race_classify, timeout=600, nontrivial=lambda l, r: r.startswith("r=")),
        dict(name="limglobal", gen=c15_global_gen, oracle=c15_global_oracle, model=False, respec=c15_global_respec,
             respec_kind="limglobalspec", respec_all=True, classify=c15_global_classify, timeout=600,
             nontrivial=lambda l, r: r.startswith("t=")),
        dict(name="limstream", gen=c15_stream_gen, oracle=c15_stream_oracle, model=False, respec=c15_stream_respec,
             respec_kind="limstreamspec", respec_all=True, classify=c15_stream_classify, timeout=900,
             nontrivial=lambda l, r: r.startswith("t=")),
        dict(name="admitglobal", gen=c15_admitglobal_gen, oracle=c15_admitglobal_oracle, model=False,
             classify=c15_admitglobal_classify, timeout=600, nontrivial=lambda l, r: r.startswith("out=") and "SL" in r),
        dict(name="admit", gen=c15_admit_gen, oracle=c15_admit_oracle, classify=c15_admit_classify, timeout=600,
             nontrivial=lambda l, r: r.startswith("out=")),
    ],
    rule="limiter: virtual-time arrival histories (8..80 ops) on the real ClientLimiter: addresses from one /24, adjacent /24s, "
         "v4-mapped twins, one /48, adjacent /48s, boundary addresses; rates 1..100000, bursts incl. omitted, 60*rate, 60*rate+1; "
         "time gaps 0, 1 ns, 1/rate s +-1 ns, 59/60/61 s, > 60 s; costs 1,2,3,15,burst,burst+1; collector runs through the gc hook "
         "(= gcAt, virtual clock) and through the real gc() (clock=real); a few non-monotone histories (differential only). "
         "limdefaults: option structs with omitted/out-of-range fields -> effective options and mask results. "
         "limconfig: router configurations (v4_mask x v6_mask over 0,1,8,16,24,25,31,32,33,-1,48,128 x 0,1,8,24,32,47,48,49,56,64,"
         "127,128,129,-5; burst omitted or set; global limit on/off; limit <= 0) through initResourceLimiter; clients placed relative "
         "to BOTH masks (inside / adjacent subnet of their family, differing right at / after the other family's prefix length, "
         "v4-mapped twins); isolation script + random history. "
         "limrace: G in 2..32 goroutines released together on a subnet without a bucket (fresh, or just collected), 150..1500 "
         "rounds per case, virtual time (one instant) and real clock. "
         "admit: + DoH clients placed relative to both configured masks. distinct = distinct case line",
    assumptions=["client limiter rates are integers (LimiterConfig.Client.Limit is an int)",
                 "burst < 9.2e9 * rate (a new rate.Limiter is full at its first use)",
                 "arrival timestamps are non-decreasing (time.Now() is monotonic) for the window bound"],
    trusted=C15_TRUST,
    level_note="proof: window bound for all histories incl. collector runs and all parameters (K3 repaired), isolation, defaults, the "
               "router's configuration mapping (subnet = address truncated to the configured mask of its family; isolation and "
               "bound for the composed system) and the refusal rule proved; concurrent first arrivals proved on an interleaving "
               "machine with an atomic get-or-create (refuted for a split one) and tested on the real code (limrace); x/time/rate "
               "is modelled as an exact integer token bucket and tied by a virtual-time differential (decisions within <= 1e-6 "
               "token of the threshold not compared); time.Now()-driven paths (resourceLimiter.AllowN, global limit) only e2e "
               "for the client limiter at rate 1/s and in limrace clock=real",
)
