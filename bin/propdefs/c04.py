import gens
from props import PROPS, budget


def c04_gen(rng, tier):
    n = budget(tier, 8, 40)
    out = []
    for i in range(n):
        kinds = rng.choice(["u", "t", "p", "up", "tp", "utp"])
        cache = rng.choice([0, 2000, 6000, 200000])
        rules = "-:0:0:%d" % rng.randrange(len(kinds))
        cfg = "U=%s;E=%d;S=-;R=%s;C=%d" % (kinds, rng.choice([0, 1]), rules, cache)
        out.append("x%d cfg=%s clients=%d per=%d names=%d seed=%d delay=%d" % (
            i, cfg, budget(tier, 32, 64), budget(tier, 250, 1500), rng.choice([8, 40, 200]), rng.randrange(1 << 30),
            rng.choice([0, 5, 30])))
    # one long run under heavy eviction pressure (tiny cache, many names): recycled cache entries
    out.append("xe cfg=U=u;E=0;S=-;R=-:0:0:0;C=16384 clients=32 per=%d names=600 seed=%d delay=0 ls=udp" % (
        budget(tier, 8000, 60000), rng.randrange(1 << 30)))
    # short TTLs and paced clients: cache hits fall into the refresh window, so background prefetches run concurrently
    # with request handling (their questions must be questions some client asked)
    out.append("xp cfg=U=u;E=0;S=-;R=-:0:0:0;C=200000 clients=24 per=%d names=40 seed=%d delay=5 ttl=4 pace=8" % (
        budget(tier, 700, 3000), rng.randrange(1 << 30)))
    return out


def c04_oracle(line, res):
    f = gens.fields(res)
    if not res.startswith("total="):
        return None
    if f.get("upforeign", "0") != "0":
        return "an upstream received a query for a question no client asked (torn or recycled question): " + f.get("upsample", "")[:200]
    if f.get("wrong") != "0":
        return "a response carried an answer that is not the keyed function of its own question: " + f.get("first", "")[:300]
    if int(f.get("servfail", "0")) > int(f.get("total", "0")) // 3:
        return "more than a third of the queries failed although the upstreams answer 15 questions in 16: " + res
    if int(f.get("noresp", "0")) > int(f.get("total", "0")) // 50:
        return "more than 2% of the queries got no response: " + res
    return None


PROPS["C04"] = dict(
    kinds=[dict(name="mix", gen=c04_gen, oracle=c04_oracle, model=False, timeout=900,
                nontrivial=lambda l, r: r.startswith("total=") and " ok=0 " not in r,
                classify=lambda l, r: "cache" + gens.fields(l).get("cfg", "").split("C=")[-1])],
    rule="mix: concurrent keyed-answer stress through the in-process router: 24-64 client goroutines x 120-1500 queries "
         "over udp/tcp/gnet/DoH listeners, names drawn from a small pool (repeats => cache hits), cache sizes 0 / ~20 / ~60 / "
         "ample entries (eviction pressure), udp / tcp / pipelined upstreams answering a keyed function of (name, type, class) "
         "after pseudo-random delays (reordering); one question in 16 is answered TC on UDP and served over TCP, one in 16 "
         "fails on every transport (TC on UDP and a closed TCP leg: SERVFAIL expected); oracle (independent decoder miekg/dns): the answer section of every "
         "response is the keyed function of the question that client asked; evaluations = runs, each of thousands of queries",
    assumptions=["component contracts of C04_own_answer: C05/C06 (exchange returns own reply), C07 (injective key, hit => same key), C20"],
    trusted=["C04: the theorem is about the abstract composition (Router/System.v); the concurrent runs sample real schedules"],
    level_note="Partial: the theorem covers every interleaving of the abstract system whose component contracts are the "
               "theorems of C05/C06/C07/C20; schedules inside the Go runtime are sampled by the stress runs, not enumerated.")
