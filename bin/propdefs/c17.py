import gens
from props import PROPS, budget

# ---------------------------------------------------------------- C17: peers are reached and authenticated as configured
PORT = "61234"          # stands for "the fake server's port" in endpoint cases (substituted by implrun)

V6_SHAPES = ["::1", "::", "2001:db8::1", "0:0:0:0:0:0:0:1", "fe80::1", "::ffff:192.0.2.1", "2001:db8:0:0:1:0:0:1",
             "1::", "::a", "a::b", "2001:DB8::A", "0::1", "::0:1", "0000::0001", "::0.0.0.1", "1:2:3:4:5:6:7:8",
             "2001:db8::", "::12", "::123", "ff02::1:ff00:42"]
V4_SHAPES = ["127.0.0.1", "8.8.8.8", "192.0.2.1", "1.1.1.1", "10.0.0.254", "1", "1.2"]
DOM_SHAPES = ["localhost", "dns.example", "a", "x-y_z.example.com", "EXAMPLE.org", "xn--dns-1.example", "a.b.c.d.e.f"]
PORTS = ["1", "53", "853", "65535", "00053", "443", "8443", "80"]
DEFAULTS = ["53", "853", "443", "80"]
SCHEMES = [  # text, base, default port, stream?, tls?, http?
    (None, "udp", "53", False, False, False),
    ("udp", "udp", "53", False, False, False),
    ("tcp", "tcp", "53", True, False, False),
    ("tcp+pipeline", "tcp", "53", True, False, False),
    ("tls", "tls", "853", True, True, False),
    ("tls+pipeline", "tls", "853", True, True, False),
    ("https", "https", "443", True, True, True),
    ("http", "http", "80", True, False, True),
    ("h3", "h3", "443", False, True, True),
    ("quic", "quic", "853", False, True, False),
    ("doq", "quic", "853", False, True, False),
    ("TLS", "tls", "853", True, True, False),
    ("Https", "https", "443", True, True, True),
]


def hs(s):
    return gens.hx(s.encode("latin-1"))


def rand_v6(rng):
    r = rng.random()
    if r < 0.4:
        return rng.choice(V6_SHAPES)
    groups = ["%x" % rng.randrange(65536) for _ in range(rng.randint(1, 7))]
    i = rng.randrange(len(groups) + 1)
    s = ":".join(groups[:i]) + "::" + ":".join(groups[i:])
    if rng.random() < 0.2:
        s = s.upper()
    if rng.random() < 0.3:
        full = ":".join("%x" % rng.randrange(65536) for _ in range(8))
        s = full
    return s


def rand_v4(rng):
    return rng.choice(V4_SHAPES) if rng.random() < 0.4 else ".".join(str(rng.randrange(256)) for _ in range(4))


def rand_dom(rng):
    if rng.random() < 0.5:
        return rng.choice(DOM_SHAPES)
    return ".".join(gens.rand_label(rng, maxlen=8, exotic=0).decode("latin-1") for _ in range(rng.randint(1, 4)))


def rand_port(rng):
    return rng.choice(PORTS) if rng.random() < 0.6 else "".join(rng.choice("0123456789") for _ in range(rng.randint(1, 5)))


def rand_host(rng):
    """(kind, name, text-in-URL)"""
    k = rng.choice(["v4", "dom", "v6", "v6"])
    if k == "v4":
        n = rand_v4(rng)
        return k, n, n
    if k == "dom":
        n = rand_dom(rng)
        return k, n, n
    n = rand_v6(rng)
    return k, n, "[" + n + "]"


def join(name, port):
    return ("[%s]:%s" % (name, port)) if ":" in name else "%s:%s" % (name, port)


# ---------------- kind addr
def addr_gen(rng, tier):
    out = []
    n = [0]

    def add(fn, a, b=None, c=None, exp=None, cls=None):
        l = "a%d fn=%s a=%s" % (n[0], fn, hs(a))
        if b is not None:
            l += " b=%s" % hs(b)
        if c is not None:
            l += " c=%s" % hs(c)
        if cls:
            l += " cls=%s" % cls
        if exp is not None:
            l += " exp=%s" % hs(exp)
        out.append(l)
        n[0] += 1

    # boundary catalogue of tryTrimIpv6Brackets
    for s in ["", "[", "]", "[]", "[a]", "[ab]", "[abc]", "a]", "[a", "ab", "[[]]", "[::1]", "[::1]:53", "[::]", "[:]"]:
        exp = s[1:-1] if len(s) >= 2 and s[0] == "[" and s[-1] == "]" else s
        add("trim", s, exp=exp, cls="cat")
    for v in V6_SHAPES:
        add("trim", "[" + v + "]", exp=v, cls="v6")
        add("trim", "[" + v + "]:853", exp="[" + v + "]:853", cls="v6port")
    for s in ["@x", "x", "", "a@", "@", "[@]"]:
        add("net", s, cls="cat")
    reps = budget(tier, 800, 8000)
    for _ in range(reps):
        k, name, text = rand_host(rng)
        port = rand_port(rng) if rng.random() < 0.5 else None
        dp = rng.choice(DEFAULTS)
        auth = text + (":" + port if port else "")
        add("trim", auth, exp=(name if (k == "v6" and not port) else auth), cls=k)
        uh = name if (k == "v6" and not port) else auth          # urlAddrHost after a correct trim
        add("rmport", uh, exp=name, cls=k)
        add("dial", uh, "", dp, exp=join(name, port or dp), cls=k + ("p" if port else ""))
        hh, pp = (name, port) if port else (uh, "")
        add("split", uh, cls=k)
        # dial_addr override forms
        dk, dname, dtext = rand_host(rng)
        dport = rand_port(rng) if rng.random() < 0.5 else None
        if dport:
            add("dial", uh, dtext + ":" + dport, dp, exp=join(dname, dport), cls="da-" + dk + "p")
        else:
            add("dial", uh, dname, dp, exp=join(dname, dp), cls="da-" + dk)
        if rng.random() < 0.25:
            un = "@" + rand_dom(rng)
            add("dial", uh, un, dp, exp=un, cls="da-unix")
            add("net", un, cls="unix")
            add("net", join(name, port or dp), cls="tcp")
    # K5 (fixed): bracketed IPv6 dial_addr without a port
    for v in V6_SHAPES[:6] + [rand_v6(rng) for _ in range(4)]:
        dp = rng.choice(DEFAULTS)
        add("dial", "dns.example", "[" + v + "]", dp, exp=join(v, dp), cls="dabr")
    # malformed stream: differential only (net.SplitHostPort / JoinHostPort re-implementation on every shape)
    alpha = "[]:a1"
    import itertools
    maxlen = budget(tier, 5, 6)
    for L in range(0, maxlen + 1):
        for t in itertools.product(alpha, repeat=L):
            add("split", "".join(t), cls="exh")
    wide = "[]:@./a1-%"
    for _ in range(budget(tier, 1500, 30000)):
        s = "".join(rng.choice(wide) for _ in range(rng.randint(0, 9)))
        fn = rng.choice(["trim", "rmport", "split", "dial", "dial", "net"])
        if fn == "dial":
            d = "".join(rng.choice(wide) for _ in range(rng.randint(0, 7))) if rng.random() < 0.6 else ""
            add("dial", s, d, rng.choice(DEFAULTS), cls="fuzz")
        else:
            add(fn, s, cls="fuzz")
    for _ in range(budget(tier, 200, 3000)):
        s = bytes(rng.randrange(256) for _ in range(rng.randint(0, 6))).decode("latin-1")
        add(rng.choice(["trim", "rmport", "split"]), s, cls="bytes")
    return out


def addr_oracle(line, res):
    f = gens.fields(line)
    r = gens.fields(res)
    if f["fn"] == "net":
        want = "unix" if gens.unhx(f["a"]).startswith(b"@") else "tcp"
        if r.get("r") != want:
            return "network for dial address %r is %s, expected %s" % (gens.unhx(f["a"]), r.get("r"), want)
        return None
    if "exp" not in f:
        return None
    if r.get("r") != f["exp"]:
        got = gens.unhx(r.get("r", "-")) if "r" in r else res
        what = {"trim": "bracket trim changed the host text", "rmport": "server name is not the URL host",
                "dial": "dial target is not the configured host/port"}.get(f["fn"], f["fn"])
        return "%s: got %r, configured %r" % (what, got, gens.unhx(f["exp"]))
    return None


def addr_classify(line, res):
    f = gens.fields(line)
    return f["fn"] + "/" + f.get("cls", "-")


# ---------------- kind endpoint
LOOP6 = ["::1", "0:0:0:0:0:0:0:1", "0::1", "::0:1", "0000::0001", "::0.0.0.1", "0:0::1"]
FAR = [("v6", "2001:db8::1"), ("v6", "2001:DB8::A"), ("v6", "::ffff:192.0.2.1"), ("v6", "2001:db8::"),
       ("v6", "1:2:3:4:5:6:7:8"), ("v6", "::12"), ("v4", "192.0.2.1"), ("v4", "10.1.2.3")]


HH_SCHEMES = [  # text, base, default port, stream?
    ("http", "http", "80", True), ("https", "https", "443", True), ("h3", "h3", "443", False),
    ("HTTP", "http", "80", True), ("Https", "https", "443", True), ("H3", "h3", "443", False)]
HH_HOSTS = [("v4", "192.0.2.53"), ("v4", "127.0.0.1"), ("v6", "2001:db8::53"), ("v6", "::1"), ("v6", "2001:DB8::A"),
            ("v6", "::ffff:192.0.2.1"), ("v6", "1:2:3:4:5:6:7:8"), ("v6", "::"), ("dom", "dns.example"),
            ("dom", "localhost"), ("dom", "x-y_z.example.com")]
HH_OTHER_PORTS = ["8443", "8080", "1", "65535", "00443", "0080", "4430", "44", "53"]


def hosthdr_fields(st, base, dport, stream, hk, name, port, da, h1, listen=None):
    """one endpoint case line (without id) whose URL authority is hk/name[:port]; da is the way to the fake server"""
    text = "[" + name + "]" if hk == "v6" else name
    auth = text + (":" + port if port else "")
    url = st + "://" + auth + "/dns-query"
    if da is None:
        expdial, expnet = join(name, port or dport), ("tcp" if stream else "udp")
    elif da == "@U":
        expdial, expnet, listen = "@U", "unix", "unix"
    else:
        expdial, expnet = da, ("tcp" if stream else "udp")
        listen = "v6" if da.startswith("[") else "v4"
    tls = base != "http"
    return ("url=%s da=%s listen=%s san=%s snivis=%d loop=0 sch=%s hk=%s expdial=%s expnet=%s name=%s auth=%s h1=%d "
            "cls=hosthdr/%s" % (hs(url), hs(da or ""), listen, name if tls else "-", 1 if hk == "dom" else 0, base,
                                hk + ("p" if port else "") + ("+da" if da else ""), expdial, expnet, name, auth, h1,
                                "none" if port is None else ("default" if port == dport else "other")))


def hosthdr_cases(rng, tier):
    out = []
    k = 0
    for (st, base, dport, stream) in HH_SCHEMES:
        for (hk, name) in HH_HOSTS:
            other_default = "80" if dport == "443" else "443"
            ports = [None, dport, rng.choice(HH_OTHER_PORTS + [other_default])]
            if tier == "thorough":
                ports += [other_default] + rng.sample(HH_OTHER_PORTS, 3)
            for port in ports:
                das = ["127.0.0.1:" + PORT, "[::1]:" + PORT] + (["@U"] if stream else [])
                da = das[k % len(das)]
                k += 1
                out.append(hosthdr_fields(st, base, dport, stream, hk, name, port, da, (k // 3) % 2 if base == "https" else 0))
    # the default port written out and NO dial_addr: the fake server sits on the privileged port itself (machine lock)
    for (st, base, dport, stream, hk, name, listen) in [("https", "https", "443", True, "v4", "127.0.0.1", "priv4"),
                                                         ("http", "http", "80", True, "v6", "::1", "priv6"),
                                                         ("h3", "h3", "443", False, "v6", "::1", "priv6")][:budget(tier, 3, 3)]:
        out.append(hosthdr_fields(st, base, dport, stream, hk, name, dport, None, 0, listen=listen))
    return out


def endpoint_gen(rng, tier):
    out = []
    n = 0
    reps = budget(tier, 2, 8)
    priv_budget = budget(tier, 6, 24)
    for rep in range(reps):
        for (st, base, dport, stream, tls, http) in SCHEMES:
            hosts = [("v4", "127.0.0.1"), ("dom", "localhost"), ("v6", rng.choice(LOOP6)), ("v6", rng.choice(LOOP6)),
                     rng.choice(FAR), rng.choice(FAR), ("dom", "dns.example")]
            for (hk, name) in hosts:
                for port in (None, PORT):
                    das = [None]
                    das += rng.sample(["127.0.0.1", "127.0.0.1:" + PORT, "::1", "[::1]:" + PORT, "localhost:" + PORT,
                                       "localhost", "[" + rng.choice(LOOP6) + "]:" + PORT, "@U"], 3)
                    for da in das:
                        text = "[" + name + "]" if hk == "v6" else name
                        auth = text + (":" + port if port else "")
                        path = ""
                        if http:
                            path = "/dns-query"
                        elif st is not None and rng.random() < 0.15:
                            path = "/x"
                        url = (st + "://" if st is not None else "") + auth + path
                        # where the property says the connection goes
                        if da is None:
                            tname, tport = name, port
                        elif da.startswith("@"):
                            tname, tport = da, None
                        elif da.startswith("["):
                            tname, tport = da[1:da.index("]")], da[da.index("]") + 2:]
                        elif da.count(":") == 1:
                            tname, tport = da.split(":")
                        else:
                            tname, tport = da, None
                        if da is not None and da.startswith("@"):
                            if not stream:
                                continue        # udp/quic sockets cannot reach a unix socket: helper kind covers the string
                            expdial, expnet, listen = "@U", "unix", "unix"
                        else:
                            expdial = join(tname, tport or dport)
                            expnet = "tcp" if stream else "udp"
                            fam = "v6" if ":" in tname else "v4"
                            reachable = tname in ("127.0.0.1", "localhost") or tname in LOOP6
                            if da is None and hk == "dom" and name != "localhost":
                                continue        # would need a resolver
                            if tport == PORT and reachable:
                                listen = fam
                            elif tport is None and reachable and not stream and base != "udp" and priv_budget > 0 \
                                    and tname in ("127.0.0.1", "::1", "localhost"):
                                priv_budget -= 1
                                listen = "priv6" if fam == "v6" else "priv4"
                            else:
                                listen = "none"
                                if not stream and base != "udp":
                                    # nothing is observable on the quic path without a server, and a client left
                                    # retransmitting its Initial to a loopback port would disturb a later case
                                    continue
                        san = name
                        if tls and listen != "none" and rng.random() < 0.15:
                            san = {"v4": "127.0.0.2", "v6": "::2", "dom": "other.test"}[hk]
                        snivis = 1 if hk == "dom" else 0
                        loop = 1 if tname == "localhost" else 0
                        out.append("e%d url=%s da=%s listen=%s san=%s snivis=%d loop=%d sch=%s hk=%s expdial=%s expnet=%s name=%s auth=%s"
                                   % (n, hs(url), hs(da or ""), listen, san if tls else "-", snivis, loop, base,
                                      hk + ("p" if port else "") + ("+da" if da else ""), expdial, expnet, name, auth))
                        n += 1
    # round 4 — the Host header / :authority an actual DoH request carries, for the URL-host grammar x
    # {port absent, the scheme's DEFAULT port written out, other ports}: the server is reached through dial_addr (or,
    # budgeted, on the privileged default port itself), so the URL authority is free
    for ln in hosthdr_cases(rng, tier):
        out.append("e%d %s" % (n, ln))
        n += 1
    # unsupported / malformed forms: both sides must refuse
    for u in ["ftp://127.0.0.1", "udp+pipeline://127.0.0.1", "http+pipeline://127.0.0.1", "tls://127.0.0.1:x",
              "tls://[::1]:5x", "tls://[::1]x", "3tls://127.0.0.1", "://127.0.0.1"]:
        out.append("e%d url=%s da=- listen=none san=- snivis=0 loop=0 sch=bad hk=bad" % (n, hs(u)))
        n += 1
    return out


def canon_hostport(t):
    """textual dial target -> canonical (what the kernel is handed): compressed lower-case IPv6, v4-mapped as IPv4"""
    import ipaddress
    if t.startswith("[") and "]:" in t:
        h, p = t[1:t.index("]:")], t[t.index("]:") + 2:]
    elif t.count(":") == 1:
        h, p = t.split(":")
    else:
        return t
    try:
        ip = ipaddress.ip_address(h)
        if ip.version == 6 and ip.ipv4_mapped is not None:
            ip = ip.ipv4_mapped
        h = str(ip)
    except ValueError:
        pass
    return join(h, p)


def endpoint_canon(res):
    r = gens.fields(res)
    if "dial" in r and r["dial"] != "-":
        r["dial"] = canon_hostport(r["dial"])
    return sorted(r.items())


def endpoint_compare(ir, mr):
    return endpoint_canon(ir) == endpoint_canon(mr)


def endpoint_oracle(line, res):
    f = gens.fields(line)
    r = gens.fields(res)
    if "dial" in r and r["dial"] != "-":
        r["dial"] = canon_hostport(r["dial"])
    if "expdial" in f:
        f["expdial"] = canon_hostport(f["expdial"])
    if f.get("sch") == "bad":
        return None
    if r.get("new") != "ok":
        return "a supported address form was refused"
    if r.get("dial", "-") != "-" and r["dial"] != f["expdial"]:
        return "dialled %s, configured %s" % (r["dial"], f["expdial"])
    if r.get("dial", "-") != "-" and r.get("net") != f["expnet"]:
        return "network %s, expected %s" % (r.get("net"), f["expnet"])
    if r.get("sni", "-") != "-" and r["sni"] != f["name"]:
        return "SNI %s is not the URL host %s" % (r["sni"], f["name"])
    if r.get("host", "-") != "-" and r["host"] != f["auth"]:
        return "the %s the server received is %s, not the URL authority %s as written in the configuration" % (
            "HTTP/1.1 Host header" if r.get("hv") == "1" else "HTTP/%s :authority" % r.get("hv", "?"), r["host"], f["auth"])
    if f.get("cls", "").startswith("hosthdr") and r.get("x") == "ok" and r.get("host", "-") == "-":
        return "the DoH request reached the server without a Host / :authority"
    if f["listen"] != "none" and f["san"] != "-":
        if f["san"] == f["name"] and r.get("hs") == "fail":
            return "server with a certificate for the URL host (%s) was not reached/accepted" % f["name"]
        if f["san"] != f["name"] and r.get("hs") == "ok":
            return "certificate for %s accepted although the URL host is %s" % (f["san"], f["name"])
    if f["listen"] != "none" and f["san"] == "-" and r.get("x") != "ok":
        return "fake server at the configured target was not reached"
    return None


def endpoint_classify(line, res):
    f = gens.fields(line)
    return "%s/%s/%s" % (f.get("sch"), f.get("hk"), f.get("listen"))


# ---------------- kind tls
# sysroot*: issued by the CA of the process's SYSTEM trust store (which the harness controls through SSL_CERT_FILE /
# SSL_CERT_DIR) and NOT by the configured ca: refused whenever a ca is configured, accepted by default
CERTS = ["valid", "wrongname", "unknownca", "expired", "selfsigned", "sysroot", "sysrootwrongname"]


def tls_gen(rng, tier):
    out = []
    n = 0
    for rep in range(budget(tier, 1, 4)):
        for proto in ("tls", "https", "quic", "h3"):
            for ca in (0, 1):
                for ins in (0, 1):
                    for peer in CERTS:
                        for (ck, srvreq) in ((0, 0), (1, 0), (1, 1), (0, 1)):
                            if tier != "thorough" and proto != "tls" and (ck, srvreq) in ((1, 0), (0, 1)) and rng.random() < 0.5:
                                continue
                            vc = 1 if rng.random() < 0.08 else 0
                            out.append("t%d role=up proto=%s ca=%d ck=%d ins=%d vc=%d peer=%s srvreq=%d"
                                       % (n, proto, ca, ck, ins, vc, peer, srvreq))
                            n += 1
            if proto == "h3":
                continue                # upstream-only helper scheme
            for vc in (0, 1):
                for ca in (0, 1):
                    for peer in CERTS[:6] + ["absent"]:
                        out.append("t%d role=ls proto=%s ca=%d ck=1 ins=%d vc=%d peer=%s srvreq=0"
                                   % (n, proto, ca, rng.randrange(2), vc, peer))
                        n += 1
    return out


def tls_oracle(line, res):
    f = gens.fields(line)
    r = gens.fields(res)
    if f["role"] == "ls":
        if f["vc"] == "1" and r.get("served") == "1" and not (f["ca"] == "1" and f["peer"] in ("valid", "wrongname")):
            return ("verify_client_cert listener (%s) served a client whose certificate is %s (configured ca: %s)"
                    % (f["proto"], f["peer"], f["ca"]))
        return None
    if r.get("x") == "ok" and not (f["ins"] == "1" or (f["ca"] == "1" and f["peer"] == "valid")
                                   or (f["ca"] == "0" and f["peer"] == "sysroot")):
        return "%s upstream exchanged with a server whose certificate is %s (ca=%s, insecure_skip_verify=0)" % (
            f["proto"], f["peer"], f["ca"])
    if r.get("start") == "ok" and r.get("x") == "fail" and f["ca"] == "0" and f["ins"] == "0" and f["peer"] == "sysroot" \
            and (f["srvreq"] == "0" or f["ck"] == "1"):
        return ("%s upstream without a configured ca refused a server whose certificate chains to a system root "
                "(system roots are the default)" % f["proto"])
    return None


def tls_classify(line, res):
    f = gens.fields(line)
    return "%s/%s/%s" % (f["role"], f["proto"], f["peer"])


# ---------------- kind sockets: EVERY socket an upstream opens goes to the configured target
STRAY = "61235"         # stands for "the stray server's port" (the server listening where the URL host points)


def sockets_gen(rng, tier):
    out = []
    n = [0]
    priv_budget = [budget(tier, 8, 40)]

    def nets(base):
        return ["udp", "tcp"] if base == "udp" else (["udp"] if base in ("quic", "h3") else ["tcp"])

    def add(st, base, http, auth, da, main, mport, stray, target, cls):
        path = "/dns-query" if http else ""
        url = (st + "://" if st is not None else "") + auth + path
        exp = ",".join(sorted("%s/%s" % (nw, target) for nw in nets(base)))
        out.append("s%d url=%s da=%s sch=%s main=%s mport=%s stray=%s exp=%s cls=%s"
                   % (n[0], hs(url), hs(da or ""), base, main, mport, stray or "-", exp, cls))
        n[0] += 1

    for rep_ in range(budget(tier, 2, 10)):
        for (st, base, dport, stream, tls, http) in SCHEMES:
            # (a) no dial_addr: everything goes to the URL host and port
            for (text, ip) in [("127.0.0.1", "127.0.0.1"), rng.choice([("127.0.0.2", "127.0.0.2"), ("127.0.0.3", "127.0.0.3")]),
                               ("[" + rng.choice(LOOP6) + "]", "::1")][:budget(tier, 2, 3) if rep_ else 3]:
                add(st, base, http, text + ":" + PORT, None, ip, "eph", None, join(ip, PORT), "plain")
            # (b) dial_addr host:port differing from the URL host[:port]; a stray server listens at the URL host
            urls = [("127.0.0.2:" + STRAY, "127.0.0.2"), ("[::1]:" + STRAY, "::1"), ("127.0.0.2", None),
                    ("dns.example", None), ("dns.example:" + STRAY, None), ("[2001:db8::1]:" + STRAY, None),
                    ("127.0.0.1:" + STRAY, "127.0.0.1")]
            das = [("127.0.0.1:" + PORT, "127.0.0.1"), ("[::1]:" + PORT, "::1"), ("127.0.0.3:" + PORT, "127.0.0.3"),
                   ("[" + rng.choice(LOOP6) + "]:" + PORT, "::1")]
            for (auth, stray) in rng.sample(urls, budget(tier, 3, 5)):
                da, main = rng.choice(das)
                add(st, base, http, auth, da, main, "eph", stray, join(main, PORT), "da")
            # (c) default ports (need the privileged port on a private loopback address; budgeted)
            if priv_budget[0] > 0 and rng.random() < 0.5:
                priv_budget[0] -= 1
                if rng.random() < 0.5:
                    add(st, base, http, "127.0.0.2:" + STRAY, "127.0.0.17", "127.0.0.17", "priv", "127.0.0.2",
                        join("127.0.0.17", dport), "da-noport")
                else:
                    add(st, base, http, "127.0.0.18", None, "127.0.0.18", "priv", None, join("127.0.0.18", dport), "noport")
    return out


def sockets_parse(s):
    if not s or s == "-":
        return set()
    out = set()
    for x in s.split(","):
        nw, _, a = x.partition("/")
        out.add((nw, canon_hostport(a)))
    return out


def sockets_canon(res):
    r = gens.fields(res)
    if "socks" in r:
        r["socks"] = tuple(sorted(sockets_parse(r["socks"])))
    return sorted(r.items())


def sockets_compare(ir, mr):
    return sockets_canon(ir) == sockets_canon(mr)


def sockets_oracle(line, res):
    f = gens.fields(line)
    r = gens.fields(res)
    if r.get("new") != "ok":
        return "a supported address form was refused"
    got = sockets_parse(r.get("socks", "-"))
    exp = sockets_parse(f["exp"])
    target = sorted(exp)[0][1]
    for (nw, a) in sorted(got - exp):
        return "a %s socket was opened to %s; every socket of this upstream must go to the configured target %s" % (nw, a, target)
    if r.get("stray", "0") != "0":
        return "%s connection(s)/quer(ies) reached the server at the URL host although dial_addr sends everything to %s" % (
            r["stray"], target)
    for (nw, a) in sorted(exp - got):
        return "the upstream never opened its %s socket to the configured target %s" % (nw, a)
    return None


def sockets_classify(line, res):
    f = gens.fields(line)
    return "%s/%s" % (f.get("sch"), f.get("cls"))


# ---------------- kind tlscfg: makeTlsConfig field by field
def tlscfg_gen(rng, tier):
    out = []
    n = 0
    for ca in (0, 1):
        for ck in (0, 1):
            for ins in (0, 1):
                for vc in (0, 1):
                    for rc in (0, 1):
                        out.append("c%d ca=%d ck=%d ins=%d vc=%d rc=%d" % (n, ca, ck, ins, vc, rc))
                        n += 1
    return out


def tlscfg_oracle(line, res):
    f = gens.fields(line)
    r = gens.fields(res)
    if r.get("cfg") != "ok":
        return None
    want = "configured" if f["ca"] == "1" else "system"
    if r.get("roots") != want:
        return "RootCAs is %s, configured: %s (a configured ca replaces the system roots; none means system roots)" % (
            r.get("roots"), want)
    if f["vc"] == "1" and (r.get("cas") != "configured" or r.get("auth") != "requireandverify"):
        return "verify_client_cert: ClientCAs=%s ClientAuth=%s, expected the configured ca alone / requireandverify" % (
            r.get("cas"), r.get("auth"))
    if f["vc"] == "0" and r.get("auth") != "none":
        return "client certificates demanded (%s) without verify_client_cert" % r.get("auth")
    if r.get("ins") != f["ins"]:
        return "InsecureSkipVerify=%s, configured %s" % (r.get("ins"), f["ins"])
    return None



# ---------------- kind upcfg: the router's mapping  upstream config entry -> upstream  (initUpstream + NewUpstream)
# every scheme text NewUpstream accepts (url.Parse lower-cases the scheme: letter case is a free dimension)
UPC_BASE = [  # text, fake server protocol, tls based?, http?
    ("udp", "udp", False, False),
    ("tcp", "tcp", False, False),
    ("tcp+pipeline", "tcp", False, False),
    ("http", "http", False, True),
    ("tls", "tls", True, False),
    ("tls+pipeline", "tls", True, False),
    ("https", "https", True, True),
    ("h3", "h3", True, True),
    ("quic", "quic", True, False),
    ("doq", "quic", True, False),
]
UPC_NAME = "upc17.test"     # a name no resolver knows: reachable through dial_addr only


def upc_recase(rng, text):
    """a letter-case variant of a scheme text that differs from the lower-case one"""
    while True:
        t = "".join(c.upper() if rng.random() < 0.5 else c for c in text)
        if t != text:
            return t


def upc_spellings(rng, tier):
    out = []
    for (text, srv, tls, http) in UPC_BASE:
        out.append((text, srv, tls, http))
        out.append((text.upper(), srv, tls, http))
        for _ in range(budget(tier, 1, 3)):
            out.append((upc_recase(rng, text), srv, tls, http))
    seen = set()
    res = []
    for x in out:
        if x[0] not in seen:
            seen.add(x[0])
            res.append(x)
    return res


def upc_line(cid, st, srv, tls, http, mode, ca, ck, ins, peer, srvreq, v6=False, urlport=True, uhost=None, uport=None,
             h1=0):
    """uhost=(hk, name) / uport: the URL authority of a da-mode case (default: the unresolvable name, port token)"""
    ip, listen = ("::1", "v6") if v6 else ("127.0.0.1", "v4")
    if mode == "da":
        if uhost is None:
            name = UPC_NAME
            auth = name + ((":" + PORT) if urlport else "")
        else:
            name = uhost[1]
            auth = ("[" + name + "]" if uhost[0] == "v6" else name) + (":" + uport if uport else "")
        da = join(ip, PORT)
    else:
        name = ip
        auth = join(ip, PORT)
        da = ""
    url = (st + "://" if st is not None else "") + auth + ("/dns-query" if http else "")
    return ("%s url=%s da=%s srv=%s listen=%s san=%s ca=%d ck=%d ins=%d peer=%s srvreq=%d st=%s tls=%d mode=%s auth=%s "
            "http=%d h1=%d" % (cid, hs(url), hs(da), srv, listen, name if tls else "-", ca, ck, ins, peer if tls else "-",
                               srvreq, st if st is not None else "-", 1 if tls else 0, mode, auth, 1 if http else 0, h1))


def upcfg_gen(rng, tier):
    out = []
    n = [0]

    def add(*a, **kw):
        out.append(upc_line("u%d" % n[0], *a, **kw))
        n[0] += 1

    # scheme omitted (udp)
    for mode in ("da", "url"):
        add(None, "udp", False, False, mode, rng.randrange(2), rng.randrange(2), rng.randrange(2), "-", 0,
            v6=rng.random() < 0.3)
    for (st, srv, tls, http) in upc_spellings(rng, tier):
        if not tls:
            # plain transports: the TLS options of the entry change nothing
            for mode in ("da", "url"):
                for _ in range(budget(tier, 1, 3)):
                    add(st, srv, tls, http, mode, rng.randrange(2), rng.randrange(2), rng.randrange(2), "-", 0,
                        v6=rng.random() < 0.3, urlport=rng.random() < 0.5)
            continue
        for rep_ in range(budget(tier, 1, 4)):
            for ca in (0, 1):
                for ins in (0, 1):
                    for peer in CERTS:
                        ck, srvreq = rng.choice(((0, 0), (0, 0), (1, 0), (1, 1), (0, 1)))
                        add(st, srv, tls, http, rng.choice(("da", "url")), ca, ck, ins, peer, srvreq,
                            v6=rng.random() < 0.25, urlport=rng.random() < 0.5)
            # the client certificate of the entry is presented, on both ways of reaching the server
            for mode in ("da", "url"):
                add(st, srv, tls, http, mode, 1, 1, 0, "valid", 1, v6=rng.random() < 0.25)
            add(st, srv, tls, http, rng.choice(("da", "url")), 0, 1, 0, "sysroot", 1)
    # round 4 — DoH through the router: the Host / :authority of the request for the URL-host grammar x {port absent,
    # default port written out, another port}; the server is reached through dial_addr
    k = 0
    for (st, base, dport, stream) in HH_SCHEMES:
        tls = base != "http"
        hosts = [("v6", "2001:db8::53"), ("v6", "::1"), ("v4", "192.0.2.53"), ("dom", "dns.example")]
        if tier == "thorough":
            hosts = HH_HOSTS
        for uh in hosts:
            for port in (None, dport, rng.choice(HH_OTHER_PORTS)):
                k += 1
                add(st, base, tls, True, "da", 1 if tls else 0, 0, 0, "valid", 0, v6=(k % 3 == 0), uhost=uh, uport=port,
                    h1=(k % 2 if base == "https" else 0))
    return out


def upcfg_compare(ir, mr):
    return endpoint_canon(ir) == endpoint_canon(mr)


def upcfg_oracle(line, res):
    f = gens.fields(line)
    r = gens.fields(res)
    what = "upstream %s (dial_addr %s)" % (f["st"] + "://" if f["st"] != "-" else "without scheme",
                                          "set" if f["mode"] == "da" else "not set")
    if r.get("start") != "ok":
        return "%s: a valid config entry was refused" % what
    if r.get("dial", "-") == "-":
        return "%s never reached the configured target (%s)" % (
            what, "the dial_addr of the entry" if f["mode"] == "da" else "host and port of addr")
    if f.get("http") == "1" and r.get("host", "-") != "-" and r["host"] != f["auth"]:
        return ("%s: the Host / :authority the server received is %s, not the authority of addr as written in the "
                "configuration (%s)" % (what, r["host"], f["auth"]))
    if f.get("http") == "1" and r.get("x") == "ok" and r.get("host", "-") == "-":
        return "%s: the DoH request reached the server without a Host / :authority" % what
    if f["tls"] != "1":
        if r.get("x") != "ok":
            return "%s: no answer from the server at the configured target" % what
        return None
    pool = "the configured ca" if f["ca"] == "1" else "the system roots (no ca configured)"
    cert_ok = f["ins"] == "1" or (f["ca"] == "1" and f["peer"] == "valid") or (f["ca"] == "0" and f["peer"] == "sysroot")
    if r.get("x") == "ok" and not cert_ok:
        return ("%s exchanged with a server whose certificate is %s; it must verify against %s "
                "(insecure_skip_verify=0)" % (what, f["peer"], pool))
    if r.get("x") == "fail" and cert_ok and (f["srvreq"] == "0" or f["ck"] == "1"):
        return ("%s refused a server whose certificate is %s although the entry says ca=%s insecure_skip_verify=%s "
                "cert/key=%s (server demands a client certificate: %s): the TLS options of the entry are not applied"
                % (what, f["peer"], f["ca"], f["ins"], f["ck"], f["srvreq"]))
    return None


def upcfg_classify(line, res):
    f = gens.fields(line)
    return "%s/%s/%s" % (f["st"].lower(), f["mode"], f["peer"])



# ---------------- kind uprouter: SEVERAL upstream entries in one router — every entry keeps its own verdict
UPR_NAMES = ["lan.test", "dns.test", "upc17.test", "resolver.test"]
UPR_BAD = {0: ["selfsigned", "unknownca", "valid", "wrongname", "expired"],       # refused by a strict entry without ca
           1: ["selfsigned", "unknownca", "sysroot", "wrongname", "expired"]}     # ... with the configured ca
UPR_GOOD = {0: "sysroot", 1: "valid"}


def upr_entry(i, st, srv, tls, http, mode, ca, ck, ins, peer, srvreq, v6=False, name=None, urlport=True, tag=None):
    uh = ("dom", name) if (name is not None and mode == "da") else None
    ln = upc_line("x", st, srv, tls, http, mode, ca, ck, ins, peer, srvreq, v6=v6, urlport=urlport, uhost=uh,
                  uport=(PORT if urlport else None) if uh else None)
    f = gens.fields(ln)
    f["tag"] = tag if tag is not None else "u%d" % i
    return f


def upr_line(cid, entries, split=0):
    keys = ["tag", "url", "da", "srv", "listen", "san", "ca", "ck", "ins", "peer", "srvreq", "st", "tls", "mode"]
    parts = ["%s n=%d split=%d" % (cid, len(entries), split)]
    for i, f in enumerate(entries):
        parts += ["%s%d=%s" % (k, i, f[k]) for k in keys]
    return " ".join(parts)


def uprouter_gen(rng, tier):
    out = []
    n = [0]

    def add(entries, split=0):
        out.append(upr_line("m%d" % n[0], entries, split))
        n[0] += 1

    sp = upc_spellings(rng, tier)
    tls_sp = [x for x in sp if x[2]]
    base_tls = [x for x in UPC_BASE if x[2]]
    # catalogue: two entries that name the SAME ca / cert / key files (or none) and differ in insecure_skip_verify only,
    # both orders, both facing a server a strict entry must refuse; a third, strict entry facing a good server
    for (text, srv, tls, http) in base_tls:
        for (ca, ck) in ((0, 0), (1, 0), (1, 1)):
            for order in (0, 1):
                st2, srv2, _, http2 = rng.choice(tls_sp) if rng.random() < 0.5 else (text, srv, tls, http)
                peers = rng.sample(UPR_BAD[ca], 2)
                a = dict(st=text, srv=srv, http=http, ins=1, peer=peers[0])
                b = dict(st=st2, srv=srv2, http=http2, ins=0, peer=peers[1])
                es = [a, b] if order == 0 else [b, a]
                if rng.random() < 0.5:
                    st3, srv3, _, http3 = rng.choice(tls_sp)
                    es.insert(rng.randrange(3), dict(st=st3, srv=srv3, http=http3, ins=0, peer=UPR_GOOD[ca]))
                names = rng.sample(UPR_NAMES, len(es))
                add([upr_entry(i, e["st"], e["srv"], True, e["http"], rng.choice(("da", "da", "url")), ca, ck, e["ins"],
                               e["peer"], 0, v6=rng.random() < 0.2, name=names[i], urlport=rng.random() < 0.5)
                     for i, e in enumerate(es)],
                    split=0 if rng.random() < 0.8 else rng.randrange(1, len(es)))
    # random routers: 2..4 entries, TLS fields mostly shared, everything else free; a quarter split over two routers
    for _ in range(budget(tier, 70, 600)):
        k = rng.randint(2, 4)
        bca, bck = rng.randrange(2), rng.randrange(2)
        es = []
        names = [rng.choice(UPR_NAMES) for _ in range(k)]
        for i in range(k):
            st, srv, tls, http = rng.choice(sp) if rng.random() < 0.2 else rng.choice(tls_sp)
            ca, ck = (bca, bck) if rng.random() < 0.75 else (rng.randrange(2), rng.randrange(2))
            srvreq = 1 if rng.random() < 0.25 else 0
            es.append(upr_entry(i, st, srv, tls, http, rng.choice(("da", "url")), ca, ck, rng.randrange(2),
                                rng.choice(CERTS), srvreq, v6=rng.random() < 0.2, name=names[i],
                                urlport=rng.random() < 0.5))
        if rng.random() < 0.04:
            es[-1]["tag"] = es[0]["tag"]            # duplicate tag: refused (when both are in the same router)
        add(es, split=rng.randrange(1, k) if rng.random() < 0.25 else 0)
    return out


def upr_groups(f):
    k, split = int(f["n"]), int(f.get("split", "0"))
    return [list(range(0, split)), list(range(split, k))] if 0 < split < k else [list(range(k))]


def uprouter_compare(ir, mr):
    def canon(res):
        r = gens.fields(res)
        for k in list(r):
            if k.startswith("d") and r[k] != "-":
                r[k] = canon_hostport(r[k])
        return sorted(r.items())
    return canon(ir) == canon(mr)


def uprouter_oracle(line, res):
    f = gens.fields(line)
    r = gens.fields(res)
    k = int(f["n"])
    groups = upr_groups(f)
    dup = any(len(set(f["tag%d" % i] for i in g)) < len(g) for g in groups)
    if r.get("start") != "ok":
        return None if dup else "a router with %d valid upstream entries (distinct tags) did not start" % k
    if dup:
        return "a router with two upstreams of the same tag started"

    def desc(i):
        return "%s://(ca=%s cert/key=%s insecure_skip_verify=%s)" % (f["st%d" % i], f["ca%d" % i], f["ck%d" % i], f["ins%d" % i])
    for g in groups:
        for i in g:
            keys = ["srv", "ca", "ck", "ins", "peer", "srvreq", "st", "tls", "mode"]
            pl = "x " + " ".join("%s=%s" % (kk, f["%s%d" % (kk, i)]) for kk in keys)
            pr = "start=ok dial=%s x=%s" % (r.get("d%d" % i, "-"), r.get("x%d" % i, "fail"))
            why = upcfg_oracle(pl, pr)
            if why:
                others = ", ".join("#%d %s" % (j, desc(j)) for j in g if j != i)
                return ("entry #%d %s of a router with %d upstreams [others: %s]%s: %s — every upstream must behave as "
                        "its own entry alone" % (i, desc(i), len(g), others,
                                                 " (a second router is alive in the process)" if len(groups) > 1 else "", why))
    return None


def uprouter_classify(line, res):
    f = gens.fields(line)
    k = int(f["n"])
    mixed = False
    for i in range(k):
        for j in range(i + 1, k):
            if (f["ca%d" % i], f["ck%d" % i]) == (f["ca%d" % j], f["ck%d" % j]) and f["ins%d" % i] != f["ins%d" % j]:
                mixed = True
    return "n%d/%s/%s" % (k, "split" if len(upr_groups(f)) > 1 else "one", "sharedfiles-insdiffer" if mixed else "other")



# ---------------- kind lsrouter: SEVERAL TLS listeners in one router — every listener keeps its own verdict
def lsrouter_gen(rng, tier):
    out = []
    n = [0]
    peers = CERTS[:6] + ["absent"]

    def add(entries):
        parts = ["l%d n=%d" % (n[0], len(entries))]
        for i, (proto, ca, vc, peer) in enumerate(entries):
            parts.append("proto%d=%s ca%d=%d vc%d=%d peer%d=%s" % (i, proto, i, ca, i, vc, i, peer))
        out.append(" ".join(parts))
        n[0] += 1

    # catalogue: same files, verify_client_cert differs, both orders, clients a verifying listener must refuse
    for pa in ("tls", "https", "quic"):
        for order in (0, 1):
            pb = rng.choice(("tls", "https", "quic"))
            a = (pa, 1, 1, rng.choice(["absent", "selfsigned", "unknownca", "sysroot", "expired"]))
            b = (pb, 1, 0, rng.choice(["absent", "selfsigned", "unknownca"]))
            es = [a, b] if order == 0 else [b, a]
            if rng.random() < 0.5:
                es.insert(rng.randrange(3), (rng.choice(("tls", "https")), 1, 1, "valid"))
            add(es)
    for _ in range(budget(tier, 24, 300)):
        k = rng.randint(2, 3)
        es = []
        for i in range(k):
            ca = 1 if rng.random() < 0.8 else 0
            vc = rng.randrange(2) if ca else (1 if rng.random() < 0.1 else 0)   # vc without ca: the router must not start
            es.append((rng.choice(("tls", "tls", "https", "quic")), ca, vc, rng.choice(peers)))
        add(es)
    return out


def lsrouter_oracle(line, res):
    f = gens.fields(line)
    r = gens.fields(res)
    k = int(f["n"])
    bad = any(f["vc%d" % i] == "1" and f["ca%d" % i] == "0" for i in range(k))
    if r.get("start") != "ok":
        return None if bad else "a router with %d valid TLS listeners did not start" % k
    for i in range(k):
        if f["vc%d" % i] == "1" and r.get("s%d" % i) == "1" and not (f["ca%d" % i] == "1" and f["peer%d" % i] in ("valid", "wrongname")):
            others = ", ".join("#%d %s(vc=%s ca=%s)" % (j, f["proto%d" % j], f["vc%d" % j], f["ca%d" % j]) for j in range(k) if j != i)
            return ("listener #%d (%s, verify_client_cert, ca=%s) of a router with %d listeners [others: %s] served a client "
                    "whose certificate is %s" % (i, f["proto%d" % i], f["ca%d" % i], k, others, f["peer%d" % i]))
        if f["vc%d" % i] == "0" and r.get("s%d" % i) == "0":
            others = ", ".join("#%d %s(vc=%s ca=%s)" % (j, f["proto%d" % j], f["vc%d" % j], f["ca%d" % j]) for j in range(k) if j != i)
            return ("listener #%d (%s) without verify_client_cert refused a client (certificate: %s) in a router with %d "
                    "listeners [others: %s]: every listener must behave as its own entry alone"
                    % (i, f["proto%d" % i], f["peer%d" % i], k, others))
    return None


def lsrouter_classify(line, res):
    f = gens.fields(line)
    k = int(f["n"])
    vcs = set(f["vc%d" % i] for i in range(k))
    return "n%d/%s" % (k, "vcdiffer" if len(vcs) > 1 else "vcsame")



# ---------------- kind uphistory: several entries, ONE server / server name, a sequence of exchanges
UPH_SRV = {"tls": ["tls", "tls+pipeline", "TLS"], "https": ["https", "Https"], "quic": ["quic", "doq", "DoQ"], "h3": ["h3", "H3"]}


def uphistory_gen(rng, tier):
    out = []
    n = [0]

    def add(srv, peer, entries, steps, split=0):
        parts = ["h%d n=%d split=%d srv=%s name=h%d.sess.c17.test peer=%s steps=%s"
                 % (n[0], len(entries), split, srv, n[0], peer, ",".join(str(x) for x in steps))]
        for i, (ca, ins) in enumerate(entries):
            parts.append("st%d=%s ca%d=%d ins%d=%d" % (i, rng.choice(UPH_SRV[srv]), i, ca, i, ins))
        out.append(" ".join(parts))
        n[0] += 1

    for srv in ("tls", "https", "quic", "h3"):
        # entry 0 trusts the server's certificate, entry 1 (same server name) does not
        for (peer, trusting, other) in (("valid", (1, 0), (0, 0)), ("sysroot", (0, 0), (1, 0)),
                                        ("selfsigned", (rng.randrange(2), 1), (rng.randrange(2), 0))):
            for steps in ([1, 0, 1, 1], [0, 1, 0, 1]):
                if peer == "selfsigned" and steps[0] == 0 and rng.random() < 0.5:
                    continue
                add(srv, peer, [trusting, other], steps, split=rng.choice((0, 0, 1)))
        add(srv, "valid", [(1, 0), (0, 0), (1, 0)], [1, 0, 2, 1, 1], split=rng.choice((0, 2)))
    for _ in range(budget(tier, 24, 300)):
        srv = rng.choice(("tls", "tls", "https", "quic", "h3"))
        k = rng.randint(2, 3)
        es = [(rng.randrange(2), 1 if rng.random() < 0.2 else 0) for _ in range(k)]
        steps = [rng.randrange(k) for _ in range(rng.randint(3, 6))]
        add(srv, rng.choice(["valid", "sysroot", "valid", "sysroot", "selfsigned", "unknownca", "expired", "wrongname"]),
            es, steps, split=rng.randrange(1, k) if rng.random() < 0.3 else 0)
    return out


def uphistory_oracle(line, res):
    f = gens.fields(line)
    r = gens.fields(res)
    if r.get("start") != "ok":
        return "a router with %s valid upstream entries did not start" % f["n"]
    steps = [int(x) for x in f["steps"].split(",")]
    hist = []
    for si, i in enumerate(steps):
        ca, ins, peer = f["ca%d" % i], f["ins%d" % i], f["peer"]
        cert_ok = ins == "1" or (ca == "1" and peer == "valid") or (ca == "0" and peer == "sysroot")
        got = r.get("t%d" % si)
        me = "#%d %s://(ca=%s insecure_skip_verify=%s)" % (i, f["st%d" % i], ca, ins)
        if got == "ok" and not cert_ok:
            return ("step %d: entry %s exchanged on a new connection with the server (certificate: %s) it must refuse — after "
                    "the exchanges [%s] of the entries of the same server name; the verdict of an entry does not depend "
                    "on what other entries did before" % (si, me, peer, "; ".join(hist)))
        if got != "ok" and cert_ok:
            return ("step %d: entry %s refused the server (certificate: %s) it accepts alone — after [%s]"
                    % (si, me, peer, "; ".join(hist)))
        hist.append("%s: %s" % (me, got))
    return None


def uphistory_classify(line, res):
    f = gens.fields(line)
    return "%s/%s/%s" % (f["srv"], f["peer"], "split" if f.get("split", "0") != "0" else "one")


# ---------------- kind resolve: dial targets that are NAMES are resolved for every new connection
def resolve_gen(rng, tier):
    out = []
    n = [0]

    def add(st, base, http, mode, scen):
        name = "n%d.c17r.test" % n[0]
        if mode == "url":
            auth, da, san = name + ":" + PORT, "", name
        else:
            auth, da, san = "fixed.c17r.test:" + PORT, name + ":" + PORT, "fixed.c17r.test"
        url = (st + "://" if st is not None else "") + auth + ("/dns-query" if http else "")
        tls = base in ("tls", "https", "quic", "h3")
        out.append("n%d url=%s da=%s srv=%s scen=%s name=%s san=%s st=%s mode=%s"
                   % (n[0], hs(url), hs(da), base, scen, name, san if tls else "-", st if st is not None else "-", mode))
        n[0] += 1

    for (st, base, dport, stream, tls, http) in SCHEMES:
        modes = ["url", "da"]
        rng.shuffle(modes)
        for mode in modes:
            add(st, base, http, mode, "move")
        add(st, base, http, modes[0], "late")
        add(st, base, http, modes[1], "multi")
        if tier == "thorough":
            add(st, base, http, modes[1], "late")
            add(st, base, http, modes[0], "multi")
    return out


def resolve_oracle(line, res):
    f = gens.fields(line)
    r = gens.fields(res)
    what = "upstream %s whose %s is the name %s" % (f["st"] + "://" if f["st"] != "-" else "without scheme",
                                                  "url host" if f["mode"] == "url" else "dial_addr", f["name"])
    if r.get("new") != "ok":
        return "%s could not be constructed%s" % (what, " while the name did not resolve yet (it is resolved when a "
                                                  "connection is dialled, not at construction)" if f["scen"] == "late" else "")
    if f["scen"] == "multi":
        if r.get("x1") != "ok" or r.get("at1") != "in":
            return "%s (two addresses, a server on each): the exchange reached none of them" % what
        return None
    if r.get("x1") != "ok" or r.get("at1") != "a":
        return "%s: the name is 127.0.0.1 but the exchange arrived at '%s' (x=%s)" % (what, r.get("at1"), r.get("x1"))
    if f["scen"] == "move" and (r.get("x2") != "ok" or r.get("at2") != "b"):
        return ("%s: the name moved to 127.0.0.2 and the old connection ended, but the NEW connection went to '%s' (x=%s); "
                "every connection is dialled to the configured host, i.e. to the address the name has when it is dialled"
                % (what, r.get("at2"), r.get("x2")))
    return None


def resolve_classify(line, res):
    f = gens.fields(line)
    return "%s/%s/%s" % (f["srv"], f["mode"], f["scen"])



# ---------------- kind sockopts: every configured socket option on every socket of every ip network
def sockopts_gen(rng, tier):
    out = []
    n = 0
    for nw in ("tcp4", "tcp6", "udp4", "udp6"):
        for role in ("dial", "listen"):
            combos = [(7, "lo", 1, 65536, 32768, 5000), (0, "-", 0, 0, 0, 0), (1, "-", 0, 0, 0, 5000), (0, "lo", 0, 0, 0, 0),
                      (4242, "-", 1, 0, 0, 0), (0, "-", 0, 16384, 0, 0), (0, "-", 0, 0, 16384, 1234), (255, "lo", 0, 0, 0, 5000)]
            for _ in range(budget(tier, 6, 60)):
                combos.append((rng.choice([0, 1, 9, 100, 65535]), rng.choice(["lo", "-"]), rng.randrange(2),
                               rng.choice([0, 8192, 32768, 65536]), rng.choice([0, 8192, 32768, 65536]),
                               rng.choice([0, 5000, 5000, 1, 30000])))
            for (mark, dev, rp, rcv, snd, ut) in combos:
                out.append("k%d net=%s role=%s mark=%d dev=%s rp=%d rcv=%d snd=%d ut=%d" % (n, nw, role, mark, dev, rp, rcv, snd, ut))
                n += 1
    # the sockets the router opens itself: listen() and a tcp upstream of initUpstream carry TCP_USER_TIMEOUT = 5000 ms
    for nw in ("tcp4", "tcp6"):
        for role in ("rlisten", "rupstream"):
            for (mark, dev, rp, rcv, snd) in [(0, "-", 0, 0, 0), (7, "lo", 1, 32768, 32768), (3, "-", 0, 0, 0), (0, "lo", 0, 0, 0)]:
                out.append("k%d net=%s role=%s mark=%d dev=%s rp=%d rcv=%d snd=%d ut=5000" % (n, nw, role, mark, dev, rp, rcv, snd))
                n += 1
    return out


def sockopts_oracle(line, res):
    f = gens.fields(line)
    r = gens.fields(res)
    what = "%s socket (%s)" % (f["net"], f["role"])
    if r.get("ctl") != "ok":
        return "%s: the control callback failed for a valid option set" % what
    if r.get("nw") != f["net"]:
        return None
    if f["mark"] != "0" and r.get("mark") != f["mark"]:
        return "%s: so_mark %s is configured, the socket has mark %s" % (what, f["mark"], r.get("mark"))
    if f["dev"] != "-" and r.get("dev") != f["dev"]:
        return "%s: so_bindtodevice %s is configured, the socket is bound to %s" % (what, f["dev"], r.get("dev"))
    if f["rp"] == "1" and r.get("rp") != "1":
        return "%s: so_reuseport is configured and not set" % what
    for k, name in (("rcv", "so_rcvbuf"), ("snd", "so_sndbuf")):
        if f[k] != "0" and r.get(k) != f[k]:
            return "%s: %s %s is configured, the socket has %s" % (what, name, f[k], r.get(k))
    if f["net"].startswith("tcp") and f["ut"] != "0" and r.get("ut") != f["ut"]:
        return "%s: TCP_USER_TIMEOUT %s ms was requested, the socket has %s" % (what, f["ut"], r.get("ut"))
    return None



# ---------------- kind dohredir: a DoH exchange is ONE request; a redirect is not a DNS answer
def dohredir_gen(rng, tier):
    out = []
    n = 0
    for (srv, h1) in (("http", 0), ("https", 1), ("https", 0), ("h3", 0)):
        out.append("q%d srv=%s h1=%d code=200 loc=none" % (n, srv, h1)); n += 1
        for code in (301, 302, 303, 307, 308):
            for loc in ("othername", "cleartext", "selfpath", "otherport"):
                if tier != "thorough" and loc == "otherport" and code not in (302, 308):
                    continue
                out.append("q%d srv=%s h1=%d code=%d loc=%s" % (n, srv, h1, code, loc)); n += 1
        for code in (204, 400, 404, 500, 503):
            out.append("q%d srv=%s h1=%d code=%d loc=%s" % (n, srv, h1, code, rng.choice(["none", "othername"]))); n += 1
    return out


def dohredir_oracle(line, res):
    f = gens.fields(line)
    r = gens.fields(res)
    what = "%s upstream (%s) whose first answer is status %s%s" % (
        f["srv"], "HTTP/1.1" if (f["h1"] == "1" or f["srv"] == "http") else ("h3" if f["srv"] == "h3" else "h2"), f["code"],
        "" if f["loc"] == "none" else " with a Location (%s)" % f["loc"])
    if r.get("new") != "ok":
        return "%s could not be constructed" % what
    if f["code"] == "200":
        return None if r.get("x") == "ok" else "%s: a good answer was not accepted" % what
    if r.get("reqs") != "1" or r.get("conns") != "1" or r.get("extra", "0") != "0":
        return ("%s sent %s requests over %s connection(s)/handshake(s) (+%s tcp) — Hosts seen: %s, TLS server names seen: %s; "
                "a DoH exchange is ONE request to the configured URL, the Host / server name / scheme never come from "
                "an answer" % (what, r.get("reqs"), r.get("conns"), r.get("extra"), r.get("hosts"), r.get("snis")))
    if r.get("hosts") != "doh.c17p.test:%s" % PORT or (f["srv"] != "http" and r.get("snis") != "doh.c17p.test"):
        return "%s: a request with Host %s / server name %s was seen" % (what, r.get("hosts"), r.get("snis"))
    if r.get("x") == "ok":
        return "%s completed the exchange: only a 200 answer is a DNS answer" % what
    return None


PROPS["C17"] = dict(
    kinds=[
        dict(name="addr", gen=addr_gen, oracle=addr_oracle, classify=addr_classify,
             nontrivial=lambda l, r: True, timeout=600, shards=4),
        dict(name="endpoint", gen=endpoint_gen, oracle=endpoint_oracle, classify=endpoint_classify, compare=endpoint_compare,
             nontrivial=lambda l, r: True, timeout=900),
        dict(name="tls", gen=tls_gen, oracle=tls_oracle, classify=tls_classify,
             nontrivial=lambda l, r: True, timeout=900),
        dict(name="sockets", gen=sockets_gen, oracle=sockets_oracle, classify=sockets_classify, compare=sockets_compare,
             nontrivial=lambda l, r: True, timeout=900),
        dict(name="tlscfg", gen=tlscfg_gen, oracle=tlscfg_oracle,
             classify=lambda l, r: "ca%s/vc%s" % (gens.fields(l)["ca"], gens.fields(l)["vc"]),
             nontrivial=lambda l, r: True, timeout=300),
        dict(name="upcfg", gen=upcfg_gen, oracle=upcfg_oracle, classify=upcfg_classify, compare=upcfg_compare,
             nontrivial=lambda l, r: True, timeout=900),
        dict(name="uprouter", gen=uprouter_gen, oracle=uprouter_oracle, classify=uprouter_classify, compare=uprouter_compare,
             nontrivial=lambda l, r: True, timeout=900),
        dict(name="lsrouter", gen=lsrouter_gen, oracle=lsrouter_oracle, classify=lsrouter_classify,
             nontrivial=lambda l, r: True, timeout=900),
        dict(name="uphistory", gen=uphistory_gen, oracle=uphistory_oracle, classify=uphistory_classify,
             nontrivial=lambda l, r: True, timeout=900),
        dict(name="resolve", gen=resolve_gen, oracle=resolve_oracle, classify=resolve_classify,
             nontrivial=lambda l, r: True, timeout=900),
        dict(name="dohredir", gen=dohredir_gen, oracle=dohredir_oracle,
             classify=lambda l, r: "%s/%s/%s" % (gens.fields(l)["srv"], gens.fields(l)["code"], gens.fields(l)["loc"]),
             nontrivial=lambda l, r: True, timeout=600),
        dict(name="sockopts", gen=sockopts_gen, oracle=sockopts_oracle,
             classify=lambda l, r: "%s/%s" % (gens.fields(l)["net"], gens.fields(l)["role"]),
             nontrivial=lambda l, r: True, timeout=300),
    ],
    rule="addr: every helper of internal/upstream/utils.go on grammar strings (IPv4 / domain / IPv6 of 20 catalogue "
         "shapes + random shapes, with and without port, x default port, x dial_addr forms incl. '@name'), the "
         "boundary catalogue of the bracket trim, ALL strings over {[,],:,a,1} up to length 5 through "
         "trySplitHostPort, and random strings; endpoint: real upstream.NewUpstream for 13 scheme spellings x 7 "
         "hosts x port presence x 4 dial_addr forms against loopback fake servers of the scheme's own protocol "
         "(dial captured in the socket Control callback, SNI/Host at the server, certificate for the URL host or "
         "for another name); tls: real router in-process, upstream {tls,https,quic,h3} x ca x insecure_skip_verify x "
         "7 server certificate kinds x client cert/server demand, and listener {tls,https,quic} x "
         "verify_client_cert x ca x 7 client certificate kinds (both roles incl. certificates chaining to the "
         "harness-controlled SYSTEM trust store but not to the configured ca); sockets: real upstream.NewUpstream "
         "for 13 scheme spellings x {no dial_addr, dial_addr != URL host, default ports} driven until every socket "
         "kind is open (TC=1 udp replies, one query per connection), the SET of (network, address) of all sockets "
         "(Control callback / arrival at the fake servers) against ep_sockets, a stray server at the URL host must "
         "stay untouched; tlscfg: real makeTlsConfig field by field for all 32 option combinations (pools compared "
         "as sets); upcfg: the upstream the REAL router.initUpstream builds from one config entry (hook "
         "VerifC17InitUpstream) for every scheme text NewUpstream accepts in lower, upper and random mixed letter "
         "case (udp tcp tcp+pipeline http | tls tls+pipeline https h3 quic doq, scheme omitted) x ca x "
         "insecure_skip_verify x 7 server certificate kinds x client cert/server demand x {dial_addr set with an "
         "unresolvable URL host, dial_addr unset with the server's loopback literal as URL host; v4/v6}, one real "
         "exchange against a fake server of the scheme's protocol, accept/refuse and arrival at the configured "
         "target against upc_case; Host catalogue (endpoint and upcfg): http / https over HTTP/1.1 (h1-only fake "
         "server) / https over h2 / h3, 6 spellings x 11 URL hosts (IPv4, bracketed IPv6 of 6 shapes, names) x {no port, "
         "the scheme's DEFAULT port written out, another port} reached through dial_addr (v4 / v6 / abstract unix) "
         "or on the privileged default port itself: r.Host of the request the fake DoH server receives (Host header "
         "resp. :authority) against ep_host octet for octet, plus the protocol major; uprouter: a real router started "
         "by run() with 2..4 upstream entries that name the same ca / cert / key files (or none) and differ in "
         "insecure_skip_verify, ca, cert/key, dial_addr, URL host, scheme spelling (catalogue: 6 TLS schemes x 3 file "
         "sets x both orders; random routers; a quarter split over TWO routers alive in one process; duplicate tags), "
         "every registered upstream driven on its own against its own fake server (7 certificate kinds, client "
         "certificate demanded or not): per-entry accept/refuse and arrival at the target against upr_case "
         "(= the entry alone, C17_upstreams_independent_case); lsrouter: 2..3 TLS listeners {tls,https,quic} with the "
         "same cert/key (and ca) files that differ in verify_client_cert / ca, each probed with a client certificate "
         "kind or none, against lsr_case; uphistory: 2..3 entries of one router / two routers with the SAME server name "
         "and different trust (ca / system roots / insecure_skip_verify) exchange in a given order (3..6 steps) with "
         "ONE session-ticket-issuing fake server {tls,https,quic,h3} that serves one query per connection: every "
         "step's verdict against upr_history_case (no resumption state = the entry alone); resolve: the process "
         "resolves names through the harness' own DNS server (net.DefaultResolver, verified at start-up): 13 scheme "
         "spellings x name as URL host / as dial_addr x {the name moves 127.0.0.1 -> 127.0.0.2 between two connections "
         "and the first server goes away, the name does not resolve at construction but later, the name has two "
         "addresses}: where each exchange arrives against rs_case (resolution per connection); distinct = distinct "
         "case line, all non-trivial; sockopts: the real controlSocket(opts) as Control of net.Dialer / net.ListenConfig on "
         "tcp4 tcp6 udp4 udp6 x dial / listen x option sets (so_mark, so_bindtodevice lo, so_reuseport, so_rcvbuf, "
         "so_sndbuf, TCP_USER_TIMEOUT), read back with getsockopt on the very socket, plus the listener socket of "
         "(*router).listen and the socket of a tcp upstream of initUpstream (5000 ms constant), against sko_control; "
         "dohredir: http / https (HTTP/1.1, h2) / h3 upstreams whose fake server answers the first request with 200 / "
         "301 302 303 307 308 + Location (other authority, cleartext, other path, other port) / 204 4xx 5xx: requests, "
         "handshakes, connections, Hosts and server names seen by the server against doh_case",
    assumptions=["the process runs as root on Linux (SO_MARK, SO_BINDTODEVICE lo)",
                 "the process's system trust store is the harness' own (SSL_CERT_FILE / SSL_CERT_DIR set by build/implrun "
                 "before crypto/x509 first loads it; verified at start-up, a failure is a harness error, not an alarm)",
                 "names under c17r.test / c17.test are not known to any resolver but the harness' own",
                 "every address of 127.0.0.0/8 is local (127.0.0.2, .3, .17, .18 are used as distinct peers)",
                 "loopback (127.0.0.1 and ::1) networking, abstract unix sockets; 'localhost' resolves to loopback",
                 "x509 chain building / name matching / validity are oracles of the model (crypto/x509 is trusted)",
                 "for https/h3 the SNI and Host are derived by net/http and quic-go from the URL (trusted "
                 "libraries); the model uses the same derivation as for tls/quic and the endpoint kind checks it",
                 "quic/h3 dial targets are observed as arrival at a fake server (no Control callback on that path); "
                 "default-port quic cases bind 853/443 udp on loopback under a machine-wide lock"],
    trusted=["C17: net/url.Parse (only scheme cut, authority cut and the port-digits check are modelled)",
             "C17: crypto/tls handshake semantics of ClientAuth / InsecureSkipVerify / RootCAs (decision rule modelled, "
             "exercised by the tls kind)"],
    level_note="proof: dial target / network / SNI / Host for every address of a boolean grammar (all strings, by "
               "induction) x all accepted schemes in any letter case; verification decision rule with x509 as oracle; "
               "the router's config-entry -> upstream mapping (dial_addr unchanged, exactly makeTlsConfig(entry.tls) on "
               "every TLS based scheme spelling). Partial: x509 and the TLS handshake themselves are trusted and only "
               "exercised; url.Parse modelled only for the grammar.",
)
