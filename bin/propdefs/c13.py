import itertools
import struct

import gens
from props import PROPS, budget

# ---------------------------------------------------------------- C13: stream framing (and the stream clause of C01)
# cfg: set0 = {full:rej.test} -> reject NXDOMAIN(3) locally; everything else forwarded to upstream 0.
REJ = gens.raw_name([b"rej", b"test"])
VOC = [b"example", b"com", b"net", b"org", b"www", b"mail", b"a", b"b", b"cdn", b"foo", b"bar", b"x-1"]


def cfg(up="u", maxc=0):
    s = "U=%s;E=0;S=f.%s;R=0:0:3:-,-:0:0:0" % (up, gens.hx(REJ))
    if maxc:
        s += ";M=%d" % maxc
    return s


class Ctr:
    def __init__(self, rng):
        self.n = rng.randrange(1, 20000)
        self.ids = set()

    def next_class(self):
        self.n += 1
        return 1 + self.n % 65000

    def next_id(self, rng, used):
        while True:
            i = rng.randrange(65536)
            if i not in used:
                used.add(i)
                return i


def opt_rr(size):
    return b"\0" + struct.pack(">HHIH", 41, size, 0, 0)


def make_query(rng, ctr, used, rejected=False, minimal=False, edns=None):
    """-> (wire query, wire reply or None, expected rcode)"""
    qid = ctr.next_id(rng, used)
    if minimal:
        # the shortest decodable message: a bare header (no question) -> NOTIMP(4), handled locally
        return struct.pack(">HHHHHH", qid, 0x0100, 0, 0, 0, 0), None, 4
    if rejected:
        name = REJ
    else:
        name = gens.raw_name([rng.choice(VOC) for _ in range(rng.randint(1, 3))])
    qtype = rng.choice([1, 1, 28, 16, 15])
    qclass = ctr.next_class() if not rejected else rng.choice([1, 1, 3])
    ar = b""
    if edns is None:
        edns = rng.random() < 0.3
    if edns:
        ar = opt_rr(rng.choice([512, 1232, 4096]))
    q = struct.pack(">HHHHHH", qid, 0x0100, 1, 0, 0, 1 if ar else 0) + name + b"\0" + struct.pack(">HH", qtype, qclass) + ar
    if rejected:
        return q, None, 3
    nan = rng.choice([1, 1, 2, 4])
    rep = struct.pack(">HHHHHH", 0, 0x8180, 1, nan, 0, 0) + name + b"\0" + struct.pack(">HH", qtype, qclass)
    for _ in range(nan):
        rep += b"\xc0\x0c" + struct.pack(">HHIH", 1, qclass, rng.choice([30, 300, 3600]), 4) + bytes(rng.randrange(256) for _ in range(4))
    return q, rep, 0


def frame(b):
    return struct.pack(">H", len(b)) + b


def cut(stream, points):
    pts = sorted(set(p for p in points if 0 < p < len(stream)))
    out = []
    prev = 0
    for p in pts + [len(stream)]:
        out.append(stream[prev:p])
        prev = p
    return [s for s in out if s]


def frame_starts(frames):
    out = []
    off = 0
    for f in frames:
        out.append(off)
        off += len(f)
    return out


def segmentations(rng, frames, n_random=2):
    """named segmentations of the stream of `frames` (each a list of non-empty chunks)"""
    stream = b"".join(frames)
    n = len(stream)
    st = frame_starts(frames)
    segs = {}
    segs["one"] = [stream]
    segs["perframe"] = cut(stream, st)
    segs["prefixcut"] = cut(stream, [s + 1 for s in st])                 # every prefix split in two
    segs["prefixalone"] = cut(stream, [s + d for s in st for d in (1, 2)])  # 1 octet, 1 octet, body
    segs["bodycut"] = cut(stream, [s + 2 + rng.randrange(1, max(2, len(f) - 2)) for s, f in zip(st, frames)])
    segs["straddle"] = cut(stream, [s + 1 for s in st[1:]] + [1])        # tail of a body + first prefix octet together
    segs["hdrbody"] = cut(stream, [s + 2 for s in st] + st)              # prefix and body as separate segments
    for i in range(n_random):
        k = rng.randint(1, max(1, min(n - 1, 2 + n // 12)))
        segs["rand%d" % i] = cut(stream, [rng.randrange(1, n) for _ in range(k)])
    return segs


def case_line(cid, cfgs, l, via, segs, ups, exp, hc, gap, ids, burst=0, probe=0, rc5=0, pz="-", phases="-"):
    return ("%s cfg=%s l=%s via=%s segs=%s ups=%s exp=%d hc=%s gap=%d burst=%d probe=%d ids=%s rc5=%d pz=%s phases=%s" %
            (cid, cfgs, l, via, ",".join(gens.hx(s) for s in segs) or "-",
             ",".join("%d:%s" % (d, gens.hx(r)) for d, r in ups) or "-", exp, hc, gap, burst, probe,
             ",".join(sorted(ids)) or "-", rc5, pz, phases))


def build_frames(rng, ctr, k, delays="none", minimal=False, all_forward=False):
    used = set()
    qs, ups, ids = [], [], []
    for i in range(k):
        rej = (not all_forward) and rng.random() < 0.25
        q, rep, rc = make_query(rng, ctr, used, rejected=rej, minimal=minimal)
        qs.append(frame(q))
        if rep is not None:
            if delays == "reverse":       # later queries complete first
                d = 25 * (k - i)
            elif delays == "random":
                d = rng.choice([0, 10, 40, 90])
            elif delays == "slow":
                d = 500
            else:
                d = 0
            ups.append((d, rep))
        ids.append("%04x:%d" % (struct.unpack(">H", q[:2])[0], rc))
    return qs, ups, ids


def stream_gen(rng, tier):
    ctr = Ctr(rng)
    out = []
    n = [0]

    def add(tag, *a, **kw):
        n[0] += 1
        out.append(case_line("%s%d" % (tag, n[0]), *a, **kw))

    # (1) exact segmentation (feed): generated frame lists x named + random segmentations, both readers
    for rep in range(budget(tier, 12, 60)):
        k = rng.choice([1, 2, 3, 3, 4, 6, 9])
        frames, ups, ids = build_frames(rng, ctr, k, delays=rng.choice(["none", "random", "reverse"]))
        up = rng.choice(["u", "u", "p"])
        for name, segs in segmentations(rng, frames, n_random=budget(tier, 2, 6)).items():
            for l in ("tcp", "gnet") + (("dot",) if rep % 3 == 0 else ()):
                add("x", cfg(up), l, "feed", segs, ups, k, "0", 0, ids)
    # (2) 1-octet segments, both readers, exact
    for rep in range(budget(tier, 2, 10)):
        k = rng.choice([1, 2, 3])
        frames, ups, ids = build_frames(rng, ctr, k)
        stream = b"".join(frames)
        for l in ("tcp", "gnet", "dot"):
            add("o", cfg("u"), l, "feed", [stream[i:i + 1] for i in range(len(stream))], ups, k, "0", 0, ids)
    # (3) exhaustive small scope: 3 minimal frames (bare 12-octet headers), every segmentation with <= c cuts
    frames, ups, ids = build_frames(rng, ctr, 3, minimal=True)
    stream = b"".join(frames)
    allcuts = []
    maxc = budget(tier, 2, 3)
    for c in range(1, maxc + 1):
        allcuts += list(itertools.combinations(range(1, len(stream)), c))
    if tier != "thorough":
        one = [c for c in allcuts if len(c) == 1]
        two = [c for c in allcuts if len(c) == 2]
        allcuts = one + rng.sample(two, 120)
    for i, c in enumerate(allcuts):
        l = "gnet" if (tier == "thorough" or i % 3 != 2) else "tcp"
        add("e", cfg("u"), l, "feed", cut(stream, c), [], 3, "0", 0, ids)
        if tier == "thorough":
            add("e", cfg("u"), "tcp", "feed", cut(stream, c), [], 3, "0", 0, ids)
    # (4) the REAL listeners over loopback TCP (the kernel may coalesce: the result must not depend on it)
    for rep in range(budget(tier, 8, 40)):
        k = rng.choice([1, 2, 3, 4, 6, 8])
        frames, ups, ids = build_frames(rng, ctr, k, delays=rng.choice(["none", "random", "reverse", "reverse"]))
        sg = segmentations(rng, frames, n_random=1)
        names = ["one", "prefixcut", "rand0", rng.choice(["perframe", "prefixalone", "bodycut", "straddle", "hdrbody"])]
        for name in names:
            for l in ("tcp", "gnet"):
                add("s", cfg(rng.choice(["u", "p"])), l, "sock", sg[name], ups, k, "0", 3, ids)
    for rep in range(budget(tier, 1, 4)):       # 1-octet segments on the wire
        frames, ups, ids = build_frames(rng, ctr, 2)
        stream = b"".join(frames)
        for l in ("tcp", "gnet"):
            add("w", cfg("u"), l, "sock", [stream[i:i + 1] for i in range(len(stream))], ups, 2, "0", 1, ids)
    # (5) out-of-order completion, many pipelined queries in one segment
    for rep in range(budget(tier, 3, 12)):
        k = rng.choice([5, 8, 12])
        frames, ups, ids = build_frames(rng, ctr, k, delays="reverse", all_forward=True)
        for l in ("tcp", "gnet", "dot"):
            for via in ("sock", "feed"):
                if l == "dot" and via == "sock":
                    continue
                add("r", cfg("u"), l, via, [b"".join(frames)], ups, k, "0", 0, ids)
    # (6) over the per-connection limit (M=2, slow upstream): k responses, the first 2 answered, k-2 REFUSED
    for rep in range(budget(tier, 1, 6)):
        k = rng.choice([3, 4, 6, 9])
        frames, ups, ids = build_frames(rng, ctr, k, delays="slow", all_forward=True)
        ids = [x.split(":")[0] + (":0" if i < 2 else ":5") for i, x in enumerate(ids)]
        for l in ("tcp", "gnet", "dot"):
            for via in ("sock", "feed"):
                if l == "dot" and via == "sock":
                    continue
                add("m", cfg("u", 2), l, via, [b"".join(frames)], ups, k, "0", 0, ids, burst=1, rc5=k - 2)
    # (7) the counter recovers: a burst over the limit, then (after its responses are back) a burst within the limit
    for rep in range(budget(tier, 1, 4)):
        k1, k2 = rng.choice([(3, 2), (4, 2), (5, 1)])
        frames, ups, ids = build_frames(rng, ctr, k1 + k2, delays="slow", all_forward=True)
        ids = [x.split(":")[0] + (":5" if 2 <= i < k1 else ":0") for i, x in enumerate(ids)]
        for l in ("tcp", "gnet"):
            for via in ("sock", "feed"):
                add("p", cfg("u", 2), l, via, [b"".join(frames[:k1]), b"".join(frames[k1:])], ups, k1 + k2, "0", 0, ids,
                    burst=1, rc5=k1 - 2, pz="1:%d" % k1, phases="%d,%d" % (k1, k2))
    # the slow cases first so that they overlap with the rest
    out.sort(key=lambda s: (not s.startswith("p"), not s.startswith("m"), not s.startswith("r")))
    return out


def garbage_gen(rng, tier):
    ctr = Ctr(rng)
    out = []
    n = [0]

    def add(tag, *a, **kw):
        n[0] += 1
        out.append(case_line("%s%d" % (tag, n[0]), *a, **kw))

    def short_bad():        # a frame whose body cannot be a DNS message (shorter than a header)
        l = rng.randint(1, 11)
        return frame(bytes(rng.randrange(256) for _ in range(l)))

    def trunc_q():          # header says one question, the question is cut short
        return frame(struct.pack(">HHHHHH", rng.randrange(65536), 0x0100, 1, 0, 0, 0) + b"\x03abc")

    for rep in range(budget(tier, 20, 120)):
        nv = rng.choice([0, 0, 1, 2])
        frames, ups, ids = build_frames(rng, ctr, nv)
        valid = b"".join(frames)
        tail = b"".join(build_frames(rng, ctr, 1)[0]) if rng.random() < 0.5 else b""
        kind = rep % 5
        for l in ("tcp", "gnet", "dot"):
            for via in ("feed", "sock"):
                if l == "dot" and (via == "sock" or rep % 2):
                    continue
                gap = 2 if via == "sock" else 0
                if kind == 0:       # undecodable body, then maybe a valid frame that must not be answered
                    s = valid + rng.choice([short_bad, trunc_q])() + tail
                    hc, exp = "1", nv
                elif kind == 1:     # declared length larger than what is sent: the reader waits
                    q = build_frames(rng, ctr, 1)[0][0]
                    s = valid + q[:rng.randrange(1, len(q))]
                    hc, exp = "0", nv
                elif kind == 2:     # zero-length frame (TCP closes; gnet swallows what follows: exact feed only)
                    if l == "gnet" and via == "sock":
                        continue
                    s = valid + b"\0\0" + tail
                    hc, exp = "?", nv
                elif kind == 3:     # arbitrary octets
                    if via == "sock":
                        if rng.random() < 0.5:   # declared length beyond the stream: stays open
                            s = bytes([rng.randrange(1, 256)]) + bytes(rng.randrange(256) for _ in range(rng.randint(0, 150)))
                        else:                    # a short undecodable first frame: closed at once
                            s = short_bad() + bytes(rng.randrange(256) for _ in range(rng.randint(0, 60)))
                        s = s
                    else:
                        s = bytes(rng.choice([0, 0, 1, 2, 12, 255, rng.randrange(256)]) for _ in range(rng.randint(1, 80)))
                    hc, exp = "?", 0
                    ids2 = []
                else:               # a valid stream with one octet flipped
                    b = bytearray(valid + tail) or bytearray(b"\0")
                    if via == "sock":
                        continue
                    i = rng.randrange(len(b))
                    b[i] ^= 1 << rng.randrange(8)
                    s = bytes(b)
                    hc, exp = "?", 0
                npts = rng.choice([0, 1, 2, 5])
                segs = cut(s, [rng.randrange(1, max(2, len(s))) for _ in range(npts)])
                if kind == 2 and via == "feed" and rng.random() < 0.5:
                    segs = cut(s, [len(valid) + 2])      # the empty frame ends a segment: nothing to swallow
                add("g", cfg("u"), l, via, segs, ups if kind != 3 else [], exp, hc, gap,
                    ids if kind in (0, 1, 2) else [], probe=1)
    return out


def _proj(res, drop):
    return " ".join(p for p in res.split() if p.split("=", 1)[0] not in drop)


def _units(res):
    u = gens.fields(res).get("units", "-")
    return [] if u == "-" else u.split(",")


def _submultiset(a, b):
    b = list(b)
    for x in a:
        if x in b:
            b.remove(x)
        else:
            return False
    return True


def stream_compare(ir, mr):
    if mr.startswith("INCONCLUSIVE"):
        return not (ir.startswith("PANIC") or ir.startswith("HANG") or ir.startswith("CRASH"))
    if not ir.startswith("st="):
        return ir == mr
    fm = gens.fields(mr)
    if fm.get("st") == "closed":
        # the connection is closed as soon as a frame is rejected: responses still in flight are lost by design
        # (handlers write to a closed connection); compare status, connCtx trace, liveness, and "nothing invented"
        fi = gens.fields(ir)
        return (fi.get("st") == "closed" and fi.get("tr") == fm.get("tr") and fi.get("alive") == fm.get("alive") and
                _submultiset(_units(ir), _units(mr)))
    return _proj(ir, ("raw", "ord")) == mr


def garbage_sock_compare(ir, mr):
    return stream_compare(ir, mr)


def stream_oracle(line, res):
    """the property itself, on the implementation's output alone"""
    if not res.startswith("st="):
        return None
    f, r = gens.fields(line), gens.fields(res)
    if r.get("bad") == "1":
        return "the octets read back are not a sequence of whole length-prefixed frames"
    if r.get("st") == "closed":
        return "the listener closed the connection on a stream of valid queries"
    want = [] if f.get("ids", "-") == "-" else sorted(f["ids"].split(","))
    got = [] if r.get("ans", "-") == "-" else sorted(r["ans"].split(","))
    if got != want:
        missing = [x for x in want if x not in got]
        surplus = [x for x in got if x not in want]
        if f.get("burst") == "1" and len(got) == len(want) and sorted(x.split(":")[0] for x in got) == sorted(x.split(":")[0] for x in want):
            n5 = sum(1 for x in got if x.endswith(":5"))
            return "over the limit: %d REFUSED where %s are due (limit 2)" % (n5, f.get("rc5"))
        return "responses (id:rcode) differ from the queries sent: missing %s surplus %s" % (
            ",".join(missing) or "-", ",".join(surplus) or "-")
    return None


def garbage_oracle(line, res):
    if not res.startswith("st="):
        return None
    r = gens.fields(res)
    if r.get("alive") == "0":
        return "after the malformed stream the listener no longer answers a valid query on a new connection"
    if r.get("bad") == "1" and r.get("st") != "closed":
        return "the octets read back are not a sequence of whole length-prefixed frames"
    return None


def stream_respec(line, res):
    r = gens.fields(res)
    if "raw" not in r:
        return None
    return "%s raw=%s" % (line, r["raw"])


def stream_classify(line, res):
    f, r = gens.fields(line), gens.fields(res)
    ooo = ""
    if line[0] in "rsx" and r.get("ord", "-") != "-":
        sent = [x.split(":")[0] for x in f.get("ids", "").split(",")]
        ooo = "/ooo" if r["ord"].split(",") != sent and sorted(r["ord"].split(",")) == sorted(sent) else ""
    nseg = len(f.get("segs", "").split(","))
    return "%s/%s/%s/%s%s" % (f.get("l"), f.get("via"), line[0], "1seg" if nseg == 1 else ("2-5seg" if nseg <= 5 else ">5seg"), ooo)


def garbage_classify(line, res):
    f, r = gens.fields(line), gens.fields(res)
    return "%s/%s/%s/alive%s" % (f.get("l"), f.get("via"), r.get("st", res.split(" ")[0]), r.get("alive", "?"))


# ---------------------------------------------------------------- streamtimed: segmentation x TIME (round 3)
# The listeners get a SHORT idle timeout (2 s; via=sock: `idle_timeout: 2` through the cfgspec key I, via=feed: the hook
# parameter) and the segments of a pipelining client are sent at chosen instants: gaps[i] ms after the previous segment
# (gaps[0]: after the connection is established).  Every schedule keeps the pacing hypothesis of C13_deadline with a wide
# margin (tcp/dot: the last octet of each frame is sent at most T_MAX ms after the last octet of the frame before it;
# gnet: every gap <= T_MAX), while the connection as a whole - and, in the classes marked (*), the time since the reader
# last found its buffer empty at a frame boundary - lasts LONGER than the idle timeout.
T_IDLE = 2000
T_MAX = 1300        # planned distance to the deadline: >= 700 ms (the harness reports late=1 when it did not keep 150 ms)
T_TOTAL = 2300      # (*) the stale deadline (armed T_IDLE after the accept) is overrun by >= 300 ms


def tcfg(up="u"):
    return cfg(up) + ";I=%d" % (T_IDLE // 1000)


def arrivals(segs, gaps):
    out, t = [], 0
    for s, g in zip(segs, gaps):
        t += g
        out += [t] * len(s)
    return out


def msg_elapsed(frames, segs, gaps):
    """per-message deadline: max over the frames of (arrival of its last octet) - (that of the frame before / the accept)"""
    at = arrivals(segs, gaps)
    worst, prev, off = 0, 0, 0
    for f in frames:
        off += len(f)
        worst = max(worst, at[off - 1] - prev)
        prev = at[off - 1]
    return worst


def timed_line(cid, cfgs, l, via, segs, gaps, ups, exp, ids, cls):
    assert len(segs) == len(gaps) and all(g > 0 for g in gaps) and all(segs)
    return ("%s cfg=%s l=%s via=%s idle=%d segs=%s gaps=%s ups=%s exp=%d hc=0 burst=0 probe=0 ids=%s cls=%s" %
            (cid, cfgs, l, via, T_IDLE, ",".join(gens.hx(x) for x in segs), ",".join(str(g) for g in gaps),
             ",".join("%d:%s" % (d, gens.hx(r)) for d, r in ups) or "-", exp, ",".join(sorted(ids)) or "-", cls))


def big_query(rng, ids, n):
    """a locally rejected query (rej.test -> NXDOMAIN) of exactly n octets: EDNS0 with one padding option"""
    used = set(int(x.split(":")[0], 16) for x in ids)
    qid = rng.choice([i for i in range(1, 65536) if i not in used][:5000])
    head = struct.pack(">HHHHHH", qid, 0x0100, 1, 0, 0, 1) + REJ + b"\0" + struct.pack(">HH", 1, 1)
    optlen = n - len(head) - 11 - 4
    assert optlen >= 0
    opt = struct.pack(">HH", 12, optlen) + bytes(optlen)
    q = head + b"\0" + struct.pack(">HHIH", 41, 4096, 0, len(opt)) + opt
    assert len(q) == n
    return q, 3


T_LISTENERS = [("tcp", "feed"), ("dot", "feed"), ("gnet", "feed"), ("tcp", "sock"), ("gnet", "sock")]


def timed_gen(rng, tier):
    ctr = Ctr(rng)
    out = []
    n = [0]

    def g(lo, hi):
        return rng.randrange(lo, hi + 1)

    def partial_len(f):
        # how much of a frame rides along with what precedes it: inside the prefix, the bare prefix, inside the body,
        # everything but the last octet
        return rng.choice([1, 2, 2 + rng.randrange(1, len(f) - 2), len(f) - 1])

    def emit(cls, frames, ups, ids, segs, gaps, listeners):
        stream = b"".join(frames)
        assert b"".join(segs) == stream
        for l, via in listeners:
            if l == "gnet":
                assert max(gaps) <= T_MAX, (cls, gaps)
            else:
                assert msg_elapsed(frames, segs, gaps) <= T_MAX, (cls, gaps)
            n[0] += 1
            out.append(timed_line("t%d" % n[0], tcfg("u"), l, via, segs, gaps, ups, len(frames), ids, cls))

    def pick(k):
        ls = list(T_LISTENERS)
        if tier == "thorough" or k >= len(ls):
            return ls
        # always both deadline kinds, feed and sock over the run
        return rng.sample(ls, k)

    reps = budget(tier, 1, 4)
    for rep in range(reps):
        # (a) stale2 (*): whole frame(s) + the START of the next one; the rest one gap later
        for _ in range(2):
            k = rng.choice([2, 2, 3])
            frames, ups, ids = build_frames(rng, ctr, k, delays=rng.choice(["none", "random"]))
            head, last = b"".join(frames[:-1]), frames[-1]
            m = partial_len(last)
            emit("stale2", frames, ups, ids, [head + last[:m], last[m:]], [g(1150, T_MAX), g(1150, T_MAX)], pick(5))
        # (b) chain (*): every segment = the tail of a frame + the head of the next: the buffer never drains at a boundary
        k = rng.choice([3, 4])
        frames, ups, ids = build_frames(rng, ctr, k, delays=rng.choice(["none", "random"]))
        stream = b"".join(frames)
        st = frame_starts(frames)
        cuts = [st[i] + partial_len(frames[i]) for i in range(1, k)]
        emit("chain", frames, ups, ids, cut(stream, cuts), [g(800, 1000) for _ in range(k)], pick(5))
        # (b') bigframe (*): a whole small frame + the head of a frame LONGER than the bufio buffer (its body is read
        #      straight from the connection, past the 1 KiB buffer), the rest one gap later
        frames, ups, ids = build_frames(rng, ctr, 1, delays="none")
        bq, brc = big_query(rng, ids, rng.choice([1023, 1024, 1025, 1400, 3000]))
        frames.append(frame(bq))
        ids.append("%04x:%d" % (struct.unpack(">H", bq[:2])[0], brc))
        m = len(frames[0]) + rng.choice([1, 2, 2 + rng.randrange(1, 1000), len(frames[1]) - 1])
        stream = b"".join(frames)
        emit("bigframe", frames, ups, ids, [stream[:m], stream[m:]], [g(1150, T_MAX), g(1150, T_MAX)], pick(3))
        # (c) boundary: one whole frame per segment (the buffer drains every time); the connection outlives the timeout
        frames, ups, ids = build_frames(rng, ctr, 3, delays="none")
        emit("boundary", frames, ups, ids, list(frames), [g(1000, 1200) for _ in range(3)], pick(3))
        # (d) firstcut (*): the FIRST frame arrives in two pieces, its rest together with a whole frame and the start of a
        #     third one; nothing re-arms a drained-only deadline since the accept
        frames, ups, ids = build_frames(rng, ctr, 3, delays=rng.choice(["none", "random"]))
        stream = b"".join(frames)
        st = frame_starts(frames)
        cuts = [partial_len(frames[0]), st[2] + partial_len(frames[2])]
        emit("firstcut", frames, ups, ids, cut(stream, cuts), [g(600, 650), g(600, 650), g(1150, T_MAX)], pick(4))
        # (e) trickle (gnet only: the timer is per read event; handleConn's deadline is per message, see
        #     C13_slow_frame_note): ONE frame in four pieces over more than the timeout
        frames, ups, ids = build_frames(rng, ctr, 1)
        f0 = frames[0]
        pts = sorted(rng.sample(range(1, len(f0)), 3))
        emit("trickle", frames, ups, ids, cut(f0, pts), [g(650, 800) for _ in range(4)], [("gnet", "feed"), ("gnet", "sock")])
        # (f) random cuts, random gaps (rejection-sampled to keep the pacing hypothesis; total time > timeout)
        for _ in range(2):
            k = rng.choice([3, 4, 5])
            frames, ups, ids = build_frames(rng, ctr, k, delays=rng.choice(["none", "random", "reverse"]))
            stream = b"".join(frames)
            for attempt in range(200):
                nseg = rng.choice([3, 3, 4])
                segs = cut(stream, [rng.randrange(1, len(stream)) for _ in range(nseg - 1)])
                gaps = [g(300, T_MAX) for _ in segs]
                if sum(gaps) >= T_TOTAL and msg_elapsed(frames, segs, gaps) <= T_MAX and sum(gaps) <= 4500:
                    emit("random", frames, ups, ids, segs, gaps, pick(3))
                    break
    return out


def timed_compare(ir, mr):
    if " late=1" in ir or mr.startswith("INCONCLUSIVE"):
        return not (ir.startswith("PANIC") or ir.startswith("HANG") or ir.startswith("CRASH"))
    if not ir.startswith("st="):
        return ir == mr
    return _proj(ir, ("raw", "ord", "late")) == mr


def timed_oracle(line, res):
    """the property itself: every query of the (paced) stream is answered exactly once, the connection stays open"""
    if " late=1" in res:
        return None
    o = stream_oracle(line, res)
    if o and gens.fields(res).get("st") == "closed":
        f = gens.fields(line)
        o += (" (idle_timeout %s ms; segments sent %s ms apart: %s)" % (f.get("idle"), f.get("gaps"),
              "the client was never silent for more than %d ms" % T_MAX if f.get("l") == "gnet" else
              "no frame was completed later than %d ms after the one before it" % T_MAX))
    return o


def timed_classify(line, res):
    f = gens.fields(line)
    return "%s/%s/%s%s" % (f.get("l"), f.get("via"), f.get("cls"), "/late" if " late=1" in res else "")


C13_KINDS = [
    dict(name="stream", gen=stream_gen, oracle=stream_oracle, compare=stream_compare, respec=stream_respec,
         respec_kind="streamspec", respec_all=True, classify=stream_classify,
         nontrivial=lambda l, r: r.startswith("st=open") and " n=0 " not in r, timeout=600, shards=4),
    dict(name="streamgarbage", gen=garbage_gen, oracle=garbage_oracle, compare=garbage_sock_compare, respec=stream_respec,
         respec_kind="streamspec", respec_all=True, classify=garbage_classify,
         nontrivial=lambda l, r: "alive=1" in r, timeout=600, shards=4),
    dict(name="streamtimed", gen=timed_gen, oracle=timed_oracle, compare=timed_compare, respec=stream_respec,
         respec_kind="streamspec", respec_all=True, classify=timed_classify,
         nontrivial=lambda l, r: r.startswith("st=open") and " n=0 " not in r and " late=1" not in r, timeout=600),
]

PROPS["C13"] = dict(
    kinds=C13_KINDS,
    rule="stream: generated lists of valid DNS queries (distinct IDs; locally rejected, NOTIMP and forwarded ones; scripted "
         "upstream delays so that handlers complete out of order) x segmentations of their stream (one segment, one frame "
         "per segment, every prefix split, 1-octet prefixes, cuts inside bodies, a body tail together with the next prefix "
         "octet, random cuts, 1-octet segments, every segmentation with <=2 (thorough: <=3) cuts of three minimal frames). "
         "via=feed: exact segmentation through the real gnetServer.OnTraffic on a fake gnet.Conn (connCtx compared with the "
         "model after every read event) and the real tcpServer.handleConn over net.Pipe, plain and as a DoT server (crypto/tls client, "
         "one record per segment); via=sock: the real tcp and gnet "
         "listeners over loopback. Observed: the octets read back, parsed as frames; the multiset of response bodies "
         "(byte-exact against the router model), ids/rcodes, open/closed; over-limit cases use max_concurrent_queries=2 and a "
         "500 ms upstream. streamgarbage: undecodable frames, frames longer than sent, zero-length frames, arbitrary octets, "
         "bit flips, then a valid query on a new connection. streamtimed (segmentation x time): the listeners get an idle "
         "timeout of 2 s (via=sock: idle_timeout: 2 in the configuration; via=feed: the same handleConn / OnOpen+OnTraffic "
         "built with idleTimeout 2 s) and the segments are sent at chosen instants: whole frame(s) + the START of the next "
         "one (1 octet, bare prefix, inside the body, all but one octet) and the rest 1.15-1.3 s later; every segment = "
         "tail of a frame + head of the next; one frame per segment; the first frame in two pieces; a frame longer than "
         "the bufio buffer; one frame trickling in over 2.6-3.2 s (gnet only); random cuts with random gaps - always such "
         "that no frame is completed later than 1.3 s after the one before it (gnet: no gap above 1.3 s) while the "
         "connection, and in most classes the time since the reader last saw an empty buffer at a frame boundary, "
         "outlasts the timeout by >= 300 ms: every query must still be answered once and the connection stay open. "
         "distinct = distinct case line; non-trivial = at least one "
         "response read back (stream, streamtimed and the harness was on time) / the probe was answered (streamgarbage)",
    assumptions=["each Write/AsyncWrite call is atomic with respect to the other writers of the connection (net.Conn, gnet)",
                 "loopback delivery; handlers of forwarded queries do not finish before the reader has consumed a burst "
                 "that arrived in one segment (500 ms upstream delay in the over-limit cases)",
                 "zero-length frames are outside the property (C13_zero_len_note): on the wire they are only sent to the "
                 "tcp listener, whose reaction does not depend on segmentation",
                 "streamtimed: the readers take no time (model) / the process is not stalled for 250 ms or more and the "
                 "sending goroutine keeps 150 ms of distance to the timeout (harness; a run that did not is reported "
                 "late=1 and not compared); when and whether an idle connection is closed is outside the property and "
                 "not compared"],
    trusted=["C13: SetReadDeadline = an absolute instant after which a conn.Read that has to wait fails, buffered octets are "
             "served without a deadline check; time.AfterFunc/Reset = one timer per connection (Net/FramingTimed.v)",
             "C13: bufio.Reader/io.ReadFull/net.Conn.Read and gnet.Conn.Next are modelled (DESIGN 6); the fake gnet.Conn of "
             "the harness implements Next/InboundBuffered/Write/AsyncWrite with the semantics read from gnet v2.3.6",
             "C13: response bytes are predicted with the router model of C03 (handle/respond/refuse)"],
    level_note="C13_decode_once is proved for both readers for every frame list, every decoder verdict and every "
               "segmentation; C13_contiguous for every completion order at the granularity 'one Write call = one atomic "
               "action' (atomicity of net.Conn.Write / tls.Conn.Write / gnet AsyncWrite is assumed and exercised); "
               "C13_over_limit for every arrival/completion history. DoT shares handleConn with TCP (tls.Conn under the "
               "same reader and writers); it is exercised through handleConn over net.Pipe with a temporary certificate, "
               "not through a listening socket. Zero-length frames are outside the property "
               "(C13_zero_len_note). Time: C13_deadline_tcp / C13_idle_timer_gnet are proved for every timed "
               "segmentation that keeps the pacing hypothesis (per message for handleConn, per read event for gnet) in a "
               "model whose readers take no time; the variant that re-arms the deadline only when the bufio reader is "
               "drained is refuted (C13_rearm_when_drained_refuted). The deadline/timer semantics of net.Conn / time.Timer "
               "are modelled and exercised with a 2 s timeout, not verified.",
)
