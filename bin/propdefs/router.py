import struct

import gens
from props import PROPS, budget

# ---------------------------------------------------------------- kind "handle": C03 / C10 / C12 (and the listener limits of C09)
VOCAB = [b"example", b"com", b"net", b"org", b"test", b"www", b"mail", b"a", b"b", b"x-1", b"cdn", b"foo", b"bar"]


def vocab_name(rng, maxl=3):
    return [rng.choice(VOCAB) for _ in range(rng.randint(1, maxl))]


def gen_cfg(rng, kinds=None, ecs=None):
    nup = rng.randint(1, 3)
    kinds = kinds or "".join(rng.choice("utp") for _ in range(nup))
    nsets = rng.randint(1, 3)
    sets = []
    for _ in range(nsets):
        ents = []
        for _ in range(rng.choice([0, 1, 2, 3, 5])):
            n = vocab_name(rng)
            ents.append((rng.choice("fdd"), n))
        sets.append(ents)
    rules = []
    for _ in range(rng.randint(0, 5)):
        s = rng.choice(["-"] + list(range(nsets)) * 3)
        rev = rng.choice([0, 0, 1])
        rej = rng.choice([0, 0, 0, 3, 5, 2, rng.randint(1, 15)])
        fwd = rng.choice(["-"] + list(range(len(kinds))) * 3)
        rules.append((s, rev, rej, fwd))
    if rng.random() < 0.7:
        rules.append(("-", 0, 0, rng.randrange(len(kinds))))   # a catch-all forward, so that forwarding is exercised
    e = rng.choice([0, 1]) if ecs is None else ecs
    return kinds, e, sets, rules


def cfg_spec(cfg):
    kinds, e, sets, rules = cfg[:4]
    ss = ",".join("+".join("%s.%s" % (k, gens.hx(gens.raw_name(n))) for k, n in ents) if ents else "-" for ents in sets)
    rs = ",".join("%s:%d:%d:%s" % r for r in rules)
    return "U=%s;E=%d;S=%s;R=%s%s" % (kinds, e, ss, rs, ";T=1;W=1" if len(cfg) > 4 and cfg[4] else "")


def opt_rr(rng, size=None, options=None):
    size = rng.choice([0, 511, 512, 1232, 4096, 65535, rng.randrange(65536)]) if size is None else size
    data = b""
    for _ in range(rng.choice([0, 0, 1, 2]) if options is None else options):
        code = rng.choice([8, 10, 12, 3, rng.randrange(65536)])
        ln = rng.choice([0, 4, 7, 8, 11, 24])
        data += struct.pack(">HH", code, ln) + bytes(rng.randrange(256) for _ in range(ln))
    ttl = rng.choice([0, 0x8000, 0x01008000, rng.randrange(2 ** 32)])     # DO bit / extended rcode / version
    return b"\0" + struct.pack(">HHIH", 41, size, ttl, len(data)) + data


def gen_query(rng, cfg, idx):
    kinds, e, sets, rules = cfg[:4]
    ents = [n for s in sets for _, n in s]
    r = rng.random()
    if ents and r < 0.6:
        base = rng.choice(ents)
        k = rng.random()
        if k < 0.35:
            labels = list(base)
        elif k < 0.7:
            labels = vocab_name(rng, 2) + list(base)
        elif k < 0.85 and len(base) > 1:
            labels = list(base[1:])
        else:
            labels = list(base[:-1]) + [rng.choice(VOCAB)]
    elif r < 0.9:
        labels = vocab_name(rng, 4)
    elif r < 0.96:
        labels = gens.rand_labels(rng, exotic=0.3)
    elif r < 0.98:
        # a long name: the forwarded query is 256 octets or more (stream length prefix with a non-zero high octet)
        rl = lambda k: bytes(rng.choice(b"abcdefghijklmnopqrstuvwxyz0123456789") for _ in range(k))
        labels = [rl(63), rl(63), rl(63), rl(rng.choice([29, 45, 56, 57, 58]))]
    else:
        # a long all-binary name: its readable (escaped) form is four times as long
        rb = lambda k: bytes(rng.choice([0, 1, 7, 31, 127, 128, 200, 254, 255, 255, 0, 46]) for _ in range(k))
        labels = [rb(63), rb(63), rb(63), rb(rng.choice([40, 57, 58, 58]))]
    # mixed case
    if rng.random() < 0.4:
        labels = [bytes(c - 32 if 97 <= c <= 122 and rng.random() < 0.5 else c for c in l) for l in labels]
    if rng.random() < 0.05:
        labels = []
    name = gens.raw_name(labels)[:250]
    if len(gens.raw_name(labels)) > 250:
        name = gens.raw_name(labels[:1])
    # uniqueness of (name, type, class) among concurrently running cases
    qtype = rng.choice([1, 28, 15, 16, 2, 5, 6, 33, 255, 65, rng.randrange(1, 65536)])
    qclass = idx % 65536
    bits = 0x0100
    u = rng.random()
    nq = 1
    if u < 0.04:
        bits &= ~0x0100            # RD = 0
    elif u < 0.08:
        bits |= rng.randrange(1, 16) << 11
    elif u < 0.10:
        bits |= 0x8000
    elif u < 0.13:
        nq = rng.choice([0, 2, 3])
    for bit in (0x400, 0x200, 0x80, 0x40, 0x20, 0x10):
        if rng.random() < 0.15:
            bits |= bit
    if rng.random() < 0.1:
        bits |= rng.randrange(16)
    q = bytearray()
    ar = b""
    nar = 0
    o = rng.random()
    if o < 0.55:
        ar += opt_rr(rng)
        nar += 1
    if rng.random() < 0.08:
        ar = b"\x01z\0" + struct.pack(">HHIH", 1, 1, 5, 4) + b"\1\2\3\4" + ar
        nar += 1
    q += struct.pack(">HHHHHH", rng.randrange(65536), bits, nq, 0, 0, nar)
    for i in range(nq):
        q += (name if i == 0 else gens.raw_name(vocab_name(rng))) + b"\0" + struct.pack(">HH", qtype, qclass)
    q += ar
    return bytes(q), name, qtype, qclass


def lower_raw(raw):
    out = bytearray(raw)
    off = 0
    while off < len(out):
        l = out[off]
        for i in range(off + 1, min(off + 1 + l, len(out))):
            if 65 <= out[i] <= 90:
                out[i] += 32
        off += 1 + l
    return bytes(out)


def gen_reply(rng, name, qtype, qclass, k4=False, big=False):
    """a scripted upstream reply (bytes; the ID is patched by the fake upstream)"""
    e = gens.Enc(rng, rng.choice([0.0, 0.6, 0.9]))
    pool = gens.NamePool(rng, exotic=0.05)
    qn = lower_raw(name)
    labels = []
    off = 0
    while off < len(qn):
        l = qn[off]
        labels.append(qn[off + 1:off + 1 + l])
        off += 1 + l
    pool.names.append(labels)
    bits = 0x8000 | rng.choice([0x0100, 0x0100, 0]) | rng.choice([0x80, 0x80, 0])
    for bit in (0x400, 0x20, 0x10):
        if rng.random() < 0.3:
            bits |= bit
    bits |= rng.choice([0, 0, 0, 0, 3, 3, 2, 5, rng.randrange(16)])
    nq = 1
    qs = [(labels, qtype, qclass)]
    if k4:
        c = rng.random()
        if c < 0.25:
            qs = [(vocab_name(rng), qtype, qclass)]
        elif c < 0.45:
            qs = [(labels, qtype, qclass), (vocab_name(rng), 1, 1)]
        elif c < 0.6:
            qs = [(labels, (qtype % 65535) + 1, qclass)]
        elif c < 0.75:
            qs = [(labels + [rng.choice(VOCAB)], qtype, qclass)]              # the asked name plus trailing labels
        elif c < 0.85 and len(labels) > 0:
            qs = [(labels[:-1], qtype, qclass)]                                # a proper prefix of the asked name
        elif c < 0.93:
            qs = [([rng.choice(VOCAB)] + labels, qtype, qclass)]              # a subdomain of the asked name
        else:
            qs = [(labels, qtype, (qclass % 65535) + 1)]
    elif rng.random() < 0.05:
        qs = []
    nan = rng.choice([0, 1, 1, 2, 3, 6]) if not big else rng.choice([40, 70, 120])
    nns = rng.choice([0, 0, 1, 2])
    nar = rng.choice([0, 0, 1, 2])
    with_opt = rng.random() < 0.5
    e.u16(0)
    e.u16(bits)
    e.u16(len(qs))
    e.u16(nan)
    e.u16(nns)
    e.u16(nar + (1 if with_opt else 0))
    for (ls, t, c) in qs:
        e.name(ls)
        e.u16(t)
        e.u16(c)
    types = [t for t in gens.RR_TYPES if t != gens.T_OPT]
    optpos = rng.randrange(nar + 1) if with_opt else -1
    for si, cnt in enumerate((nan, nns, nar)):
        for k in range(cnt + (1 if si == 2 and with_opt else 0)):
            if si == 2 and k == optpos:
                e.b += opt_rr(rng)
            else:
                gens.put_rr(e, rng, pool, typ=rng.choice([1, 28]) if big else rng.choice(types))
    return bytes(e.b)


def size_boundary_cases(rng, spec, idx0):
    """C09/C13: responses whose packed size lands exactly on / just beyond the 65535-octet frame limit.
    The reply is question + ONE root-owned record of an unknown type (nothing to compress), so the response the
    proxy packs has a size we control: 12 + question + (11 + L) [+ 11 when the query had an OPT].  Sizes above 65535
    must come back truncated (TC, record dropped) with a correct 2-octet prefix on stream listeners."""
    out = []
    idx = idx0
    for target, with_opt in ((65534, 1), (65535, 1), (65536, 1), (65537, 1), (65546, 1), (65534, 0), (65535, 0),
                             (65506, 2), (65507, 2), (65508, 2), (65530, 2)):
        ls = ["tcp"] + rng.sample(["gnet", "tls", "quic", "http-post", "fasthttp-post", "https-post"], 3)
        if target > 65535:
            ls = ["tcp", "gnet", "tls", "quic", "http-post", "fasthttp-post", "https-post"]    # beyond the limit: EVERY listener kind
        if with_opt == 2:
            # UDP: a client advertising 65535 octets; the largest datagram payload the socket can send is 65507
            ls, with_opt = ["udp", "udpds"], 1       # udpds: dual-stack listener, the IPv4 client is seen v4-mapped
        for l in ls:
            idx += 1
            labels = [b"sz%d" % idx, rng.choice(VOCAB)]
            name = gens.raw_name(labels)
            qtype, qclass = rng.choice([1, 16, 255]), idx % 65536
            question = name + b"\0" + struct.pack(">HH", qtype, qclass)
            q = struct.pack(">HHHHHH", rng.randrange(65536), 0x0100, 1, 0, 0, with_opt) + question
            if with_opt:
                q += opt_rr(rng, size=65535 if l == "udp" else rng.choice([512, 1232, 65535]), options=0)
            L = target - 12 - len(question) - 11 - (11 if with_opt else 0)
            reply = struct.pack(">HHHHHH", 0, 0x8180, 1, 1, 0, 0) + question
            reply += b"\0" + struct.pack(">HHIH", 65280, 1, 60, L) + bytes(rng.randrange(256) for _ in range(L))
            assert len(reply) <= 65535
            out.append("z%d cfg=%s l=%s client=- q=%s up=reply:%s" % (idx, spec, l, gens.hx(q), gens.hx(reply)))
    # UDP: the size the CLIENT advertises (none, 0, 1, 511, 512, 513, 1232) against replies of about 500 .. 3000 octets: the
    # datagram never exceeds max(512, advertised) (seed C09-T: an advertised size of exactly 0 switched truncation off)
    for adv in (None, 0, 0, 1, 511, 512, 513, 1232):
        for target in (rng.choice([505, 512]), rng.choice([513, 530, 700]), rng.choice([1232, 1233, 1300]), 3000):
            idx += 1
            l = rng.choice(["udp", "udp", "udpds"])
            labels = [b"ad%d" % idx, rng.choice(VOCAB)]
            name = gens.raw_name(labels)
            qtype, qclass = rng.choice([1, 16, 255]), idx % 65536
            question = name + b"\0" + struct.pack(">HH", qtype, qclass)
            q = struct.pack(">HHHHHH", rng.randrange(65536), 0x0100, 1, 0, 0, 0 if adv is None else 1) + question
            if adv is not None:
                q += opt_rr(rng, size=adv, options=0)
            # several small records (so that truncation keeps some of them) of an unknown type owned by the root
            reply = struct.pack(">HHHHHH", 0, 0x8180, 1, 0, 0, 0) + question
            nrec = 0
            while len(reply) + (11 if adv is not None else 0) < target:
                L = min(rng.choice([20, 60, 100]), max(0, target - len(reply) - 11 - (11 if adv is not None else 0)))
                reply += b"\0" + struct.pack(">HHIH", 65280, 1, 60, L) + bytes(rng.randrange(256) for _ in range(L))
                nrec += 1
            reply = reply[:6] + struct.pack(">H", nrec) + reply[8:]
            out.append("z%d cfg=%s l=%s client=- q=%s up=reply:%s" % (idx, spec, l, gens.hx(q), gens.hx(reply)))
    return out, idx


def boundary_cfgs():
    """hand-picked configurations (the boundary catalogue of the rule logic); each gets its share of queries"""
    ex = [b"example", b"com"]
    return [
        # an EMPTY domain set referenced by a plain rule, a reversed rule, then a catch-all
        ("ut", 0, [[], [("d", ex)]], [(0, 0, 3, "-"), (1, 0, 0, 0), (0, 1, 0, 1)]),
        # adjacent rules on the SAME set, reversed one first; then plain-first
        ("ut", 1, [[("d", ex), ("f", [b"foo"])]], [(0, 1, 0, 0), (0, 0, 0, 1)]),
        ("tt", 0, [[("d", ex)], [("d", [b"com"])]], [(0, 0, 5, "-"), (0, 0, 0, 0), (1, 1, 2, 1), (1, 0, 0, 1)]),
        # reject and forward on one rule (reject wins); a rule without action; no catch-all
        ("u", 0, [[("d", ex)]], [(0, 0, 3, 0), ("-", 0, 0, "-")]),
        # no rules at all
        ("u", 1, [[("f", ex)]], []),
        # a rule WITHOUT action in front of rules that would also match (first match wins: REFUSED, nothing forwarded);
        # once conditional, once unconditional in the middle
        ("ut", 0, [[("d", ex)], [("d", [b"com"])]], [(0, 0, 0, "-"), (1, 0, 0, 0), ("-", 0, 0, 1)]),
        ("u", 0, [[("d", ex)]], [(0, 1, 0, 0), ("-", 0, 0, "-"), ("-", 0, 0, 0)]),
        # three domain sets sharing entries (hence files): the later sets must contain the shared entries too
        ("ut", 0, [[("d", ex), ("f", [b"foo"])], [("d", ex), ("d", [b"net"])], [("f", [b"foo"]), ("d", ex), ("d", [b"org"])]],
         [(1, 0, 3, "-"), (2, 0, 0, 1), (0, 0, 0, 0)]),
    ]


def handle_gen(rng, tier):
    n = budget(tier, 1600, 40000)
    bcfgs = boundary_cfgs()
    ncfg = budget(tier, 3, 40) + len(bcfgs)
    out = []
    idx = 0
    slow_budget = budget(tier, 8, 64)
    delayed_budget = budget(tier, 24, 200)
    for ci in range(ncfg):
        kinds = None
        if ci % 4 == 1:
            kinds = "t" * rng.randint(1, 3)
        cfg = bcfgs[ci] if ci < len(bcfgs) else gen_cfg(rng, kinds=kinds, ecs=1 - ci % 2)
        tls_on = ci in (1, len(bcfgs))          # one boundary and one random configuration also start tls/https/quic
        if tls_on:
            cfg = tuple(cfg) + (True,)
        spec = cfg_spec(cfg)
        if ci >= len(bcfgs) or ci in (0, 2):
            # rarely varied configuration switches: query logging (the readable form of every name is built), a configured
            # DoH path (other paths: 404), several UDP reader threads
            spec += rng.choice(["", ";Q=1", ";Q=1"]) + rng.choice(["", ";H=1"]) + rng.choice(["", ";D=2", ";D=4"])
        if ci >= len(bcfgs) and ci % 3 == 0:
            # the memory cache is on; every case asks a question of its own, so every query is a miss whose answer is
            # stored: the response must be what the cache-less model predicts (storing must not disturb the response)
            spec += ";C=65536"
        allt = set(cfg[0]) == {"t"}
        share = (n // 3) // len(bcfgs) if ci < len(bcfgs) else (n - n // 3) // max(1, ncfg - len(bcfgs))
        for _ in range(share):
            idx += 1
            q, name, qtype, qclass = gen_query(rng, cfg, idx)
            l = rng.choice(["udp", "udp", "tcp", "gnet", "http-get", "http-post", "fasthttp-get", "fasthttp-post"])
            if tls_on and rng.random() < 0.6:
                l = rng.choice(["tls", "https-get", "https-post", "quic", "quic", "udpmr", "udpmr", "udpds", "udpds",
                                "tcpunix", "gnetunix", "httpunix-get", "httpunix-post", "fasthttpunix-get", "fasthttpunix-post"])
            client = "-"
            if l.startswith("http") or l.startswith("fasthttp"):
                client = rng.choice(["-", "192.0.2.%d" % rng.randrange(256), "203.0.113.7", "2001:db8:1:2:3:4:5:%x" % rng.randrange(65536),
                                     "::ffff:198.51.100.%d" % rng.randrange(256), "::1", "fe80::1"])
                hv = ""
            elif l != "udpmr" and not l.endswith("unix") and rng.random() < 0.4:
                # the client's SOURCE address on the socket listeners (any address of 127/8 is local): what the proxy sees
                # as the peer decides ECS, limiter subnet and cache group on udp / tcp / gnet / tls / quic too
                client = "127.%d.%d.%d" % (rng.choice([0, 1, 9, 200]), rng.randrange(256), rng.randrange(1, 255))
            if (l.startswith("http") or l.startswith("fasthttp")):
              if rng.random() < 0.06:
                    # the client-address header as a LIST (the first element counts) or with a value that is no address:
                    # the request must be answered 400 and nothing may be forwarded on its behalf
                    if rng.random() < 0.4:
                        client = "198.51.100.%d,10.0.0.%d" % (rng.randrange(256), rng.randrange(256))
                    else:
                        client = rng.choice(["203.0.113.7:4711", "unknown,198.51.100.1", "[2001:db8::1]", "203.0.113", "x",
                                             "198.51.100.300", "0x7f.1.1.1", "1.2.3.4.5", ",1.2.3.4"])
                        hv = " hv=bad"
            if (l.startswith("http") or l.startswith("fasthttp")) and rng.random() < 0.06:
                l += rng.choice(["@/other", "@/dns-query/", "@/", "@/dns-query"])
            elif "-get" in l and rng.random() < 0.12:
                # the dns pair among other pairs and EMPTY pairs of the query string ("?&dns=..", "?a=b&&dns=..&"): the
                # first pair whose key is "dns" counts, whatever surrounds it (seed C01-N: the scanner never advanced over
                # an empty pair)
                l += "@/dns-query?" + rng.choice(["&", "&&", "a=b&", "a=b&&", "x&", "dns2=zz&", "adns=q&", "ct=application/dns-message&",
                                                   "a=b&&c=d&", ""]) + "#" + rng.choice(["", "&", "&&", "&x=y", "&dns2=1", "&&z"])
            u = rng.random()
            if u < 0.05:
                up = "reply:" + gens.hx(gen_reply(rng, name, qtype, qclass, k4=True))
                tag = "k4"
            elif u < 0.80:
                up = "reply:" + gens.hx(gen_reply(rng, name, qtype, qclass, big=rng.random() < 0.08))
                tag = "h"
            elif allt:
                up = "close"
                tag = "f"
            elif slow_budget > 0 and u < 0.83:
                up = rng.choice(["silent", "garbage"])
                slow_budget -= 1
                tag = "s"
            else:
                up = "reply:" + gens.hx(gen_reply(rng, name, qtype, qclass))
                tag = "h"
            dl = ""
            if tag == "h" and delayed_budget > 0 and rng.random() < 0.05:
                # an upstream that answers after 1.2-2.5 s (well inside the 6 s deadline): the reply must still be relayed
                dl = " dl=%d" % rng.choice([1200, 1600, 2500])
                delayed_budget -= 1
                tag = "s"
            ka = ""
            if tag == "h" and not l.startswith("udp") and (client == "-" or l.startswith("http") or l.startswith("fasthttp")) \
                    and rng.random() < 0.45:
                # the query travels on a PERSISTENT client connection shared by all such cases of the configuration (tcp /
                # gnet / tls connection, HTTP keep-alive, HTTP/2 session, QUIC connection): the second and later query on a
                # connection must be answered exactly like the first (the model is per request)
                ka = " ka=1"
            out.append("%s%d cfg=%s l=%s client=%s q=%s up=%s%s%s%s" % (tag, idx, spec, l, client, gens.hx(q), up, dl,
                                                             hv if (l.startswith("http") or l.startswith("fasthttp")) else "", ka))
        if ci == 1:
            # one SILENT-upstream query on every listener kind (the SERVFAIL after the 6 s deadline must be delivered on each)
            for l in ("udp", "tcp", "gnet", "tls", "quic", "http-post", "http-get", "fasthttp-post", "https-post", "https-get"):
                idx += 1
                q, name, qtype, qclass = gen_query(rng, cfg, idx)
                q = struct.pack(">HHHHHH", rng.randrange(65536), 0x0100, 1, 0, 0, 0) + gens.raw_name([b"sil%d" % idx, b"test"]) + \
                    b"\0" + struct.pack(">HH", 1, idx % 65536)
                out.append("s%d cfg=%s l=%s client=- q=%s up=silent" % (idx, spec, l, gens.hx(q)))
            # boundary configuration #1 forwards every name and starts every listener kind: frame-size boundary
            zs, idx = size_boundary_cases(rng, spec, idx)
            out.extend(zs)
    # put the slow (6 s) cases first so that they overlap with everything else
    out.sort(key=lambda s: (not s.startswith("s"),))
    return out


def strip_timing(res):
    out = []
    for p in res.split():
        if p.startswith("slow=") or p.startswith("late="):
            continue
        if p.startswith("upq="):
            # retries of a failing exchange repeat the same query: compare the set (the oracle checks the counts)
            p = "upq=" + ",".join(sorted(set(p[4:].split(","))))
        out.append(p)
    return " ".join(out)


def handle_compare(ir, mr):
    return strip_timing(ir) == mr


def handle_oracle(line, res):
    f = gens.fields(res)
    if " hv=bad" in line:
        # a client-address header that is no address: 400 and nothing forwarded on the request's behalf
        if f.get("st") != "http-400" or f.get("upq", "-") != "-":
            return "a DoH request whose client-address header is no address was not refused with 400 / was forwarded: " + res[:120]
        return None
    if f.get("late") == "1":
        return "response later than the 6 s request deadline plus 1.5 s slack"
    if res.startswith("st=") and f.get("st") != "ok":
        return "a decodable query got no DNS response on its transport (%s)" % f.get("st")
    if res.startswith("st=") and f.get("st") == "ok" and f.get("n") != "1":
        return "client received %s responses for one query" % f.get("n")
    return None


def handle_respec(line, res):
    f = gens.fields(res)
    if f.get("st") != "ok":
        return None
    return "%s resp=%s upq=%s" % (line, f.get("resp", "-"), f.get("upq", "-"))


def handle_classify(line, res):
    f = gens.fields(line)
    up = f.get("up", "").split(":")[0]
    r = gens.fields(res).get("resp", "-")
    rc = "?"
    if len(r) >= 8:
        rc = "rc%d" % (int(r[6:8], 16) & 15)
    return "%s/%s/%s" % (f.get("l", "?").split("-")[0], up, rc)


def spec_for(prefixes):
    return lambda spec: any(("FAIL:" + p) in spec for p in prefixes)


def handle_kind(prefixes):
    return dict(name="handle", gen=handle_gen, oracle=handle_oracle, compare=handle_compare, respec=handle_respec,
                respec_kind="handlespec", respec_all=True, spec_relevant=spec_for(prefixes), classify=handle_classify,
                nontrivial=lambda l, r: "st=ok" in r, timeout=900, shards=8)


def rand_addr(rng):
    r = rng.random()
    if r < 0.35:
        return ".".join(str(rng.choice([0, 1, 127, 128, 255, rng.randrange(256)])) for _ in range(4))
    if r < 0.55:
        return "::ffff:" + ".".join(str(rng.randrange(256)) for _ in range(4))
    if r < 0.6:
        return "-"
    if r < 0.7:
        return rng.choice(["::", "::1", "fe80::1", "ff02::fb", "::ffff:0:0", "0:0:0:0:0:fffe:1.2.3.4", "::fffe:ffff:1:2",
                           "2001:db8::", "ffff:ffff:ffff:ffff:ffff:ffff:ffff:ffff", "0.0.0.0", "255.255.255.255"])
    groups = ["%x" % rng.choice([0, 0, 0xffff, 0xff, rng.randrange(65536)]) for _ in range(8)]
    return ":".join(groups)


def packreq_gen(rng, tier):
    n = budget(tier, 4000, 200000)
    out = []
    for i in range(n):
        name = gens.rand_name(rng, exotic=0.2)
        out.append("a%d ecs=%d name=%s type=%d class=%d client=%s" % (
            i, rng.choice([1, 1, 1, 0]), gens.hx(lower_raw(name)), rng.choice([1, 28, 255, rng.randrange(65536)]),
            rng.choice([1, 1, 255, rng.randrange(65536)]), rand_addr(rng)))
    return out


ROUTER_TRUST = ["router: the cache is disabled in these cases (C07/C08/C19 cover it); upstream behaviour is scripted by fake "
                "servers run by the harness; the transports between router and fake upstream are the real ones"]
ROUTER_RULE = ("handle: generated (configuration, query, listener, client address, scripted upstream behaviour) cases; each is "
               "one real query over a real loopback socket of the in-process router (udp/tcp/gnet/DoH GET+POST on net/http and "
               "fasthttp) against fake upstream servers; observed: the response bytes (compared byte-exactly with the model's "
               "respond(handle(...))), the number of responses, the queries each upstream received (compared with the model's "
               "effects), latency class; the spec oracles (spec_response / spec_upstream) are evaluated on the implementation's "
               "own output; non-trivial = a response was received")

PROPS["C03"] = dict(
    kinds=[handle_kind(["c03-"])],
    rule=ROUTER_RULE, assumptions=["loopback delivery; 6 s deadline literal observed with 1.5 s slack"], trusted=ROUTER_TRUST,
    level_note="Partial: wall-clock latency and 'exactly one datagram on the wire' are observed end-to-end, not proved; "
               "all eight listener kinds (udp, tcp, gnet, tls, http, fasthttp, https, quic) are exercised over real "
               "loopback sockets; the 6 s deadline is a literal observed with 1.5 s slack.")
PROPS["C10"] = dict(
    kinds=[handle_kind(["c10-"])],
    rule=ROUTER_RULE, assumptions=[], trusted=ROUTER_TRUST,
    level_note="Partial: mapstructure/yaml strict decoding is modelled only as 'every key in the schema' and exercised through "
               "the real binary; the cache is off in the rule cases.")
PROPS["C12"] = dict(
    kinds=[handle_kind(["c12-"]),
           dict(name="packreq", gen=packreq_gen, shards=8, timeout=600, nontrivial=lambda l, r: r.startswith("OK"))],
    rule=ROUTER_RULE, assumptions=["inputs carry at most one OPT record, in the additional section (RFC 6891)"],
    trusted=ROUTER_TRUST,
    level_note="C12: the OPT records of every response (own fresh OPT iff the query had one; independent of the reply's and the "
               "query's options), the shape of every upstream query and the ECS option (form, length, privacy) are proved for "
               "all inputs; the restriction to at most one OPT per message (in the additional section) is the property's own.")

# C09 also runs the handle kind: the listeners' size limits are observed on the bytes real clients receive
def cachedseq_gen(rng, tier):
    """C12 on a caching proxy: (a) an upstream reply WITH an OPT (options, DO, big size) is cached; later hits from clients
    with and without EDNS must get exactly the proxy's own OPT / none; (b) a hit in the last quarter of a 4 s lifetime
    starts a prefetch whose upstream query must carry the OPT/ECS of the client whose hit started it (other DoH clients
    are active around it)."""
    out = []
    n = budget(tier, 10, 120)
    for i in range(n):
        ecs = rng.choice([1, 1, 0])
        cfg = "U=%s;E=%d;S=-;R=-:0:0:0;C=4096" % (rng.choice(["u", "t"]), ecs)
        labels = [b"cs%d" % i, rng.choice(VOCAB), b"test"]
        name = gens.raw_name(labels)
        qtype, qclass = rng.choice([1, 28, 16]), 1
        question = name + b"\0" + struct.pack(">HH", qtype, qclass)

        def query(edns):
            q = struct.pack(">HHHHHH", rng.randrange(65536), 0x0100, 1, 0, 0, 1 if edns else 0) + question
            return q + (opt_rr(rng, size=rng.choice([512, 1232, 4096])) if edns else b"")

        prefetch = i % 2 == 1
        ttl = 4 if prefetch else 60
        rdl = {1: 4, 28: 16}.get(qtype, 4)          # A: 4 octets, AAAA: 16; TXT: one 3-octet string
        rdata = bytes([3]) + bytes(rng.randrange(97, 123) for _ in range(3)) if qtype == 16 else bytes(rng.randrange(256) for _ in range(rdl))
        rr = b"\xc0\x0c" + struct.pack(">HHIH", qtype, qclass, ttl, len(rdata)) + rdata
        uopt = b"\0" + struct.pack(">HHIH", 41, 4096, 0x8000, 12) + struct.pack(">HH", 10, 8) + bytes(rng.randrange(256) for _ in range(8))
        reply = struct.pack(">HHHHHH", 0, 0x8180, 1, 2, 0, 1) + question + rr + rr + uopt
        clients = ["192.0.2.%d" % rng.randrange(1, 255), "2001:db8:%x::1" % rng.randrange(1, 65536), "198.51.100.%d" % rng.randrange(1, 255)]
        ls = ["http-post", "fasthttp-post", "http-get", "fasthttp-get"]
        steps = []
        if prefetch:
            # miss by client A (EDNS on), hit in the last quarter by client B, noise from client C in between
            a, b_, c = rng.sample(clients, 3)
            steps.append("%s/%s/%s/0" % (rng.choice(ls), a, gens.hx(query(True))))
            steps.append("%s/%s/%s/3300" % (rng.choice(ls), b_, gens.hx(query(rng.random() < 0.5))))
            steps.append("%s/%s/%s/0" % (rng.choice(ls), c, gens.hx(query(rng.random() < 0.5))))
            steps.append("%s/%s/%s/20" % (rng.choice(ls), c, gens.hx(query(rng.random() < 0.5))))
        else:
            first_edns = rng.random() < 0.7
            steps.append("%s/%s/%s/0" % (rng.choice(ls + ["udp", "tcp"]), rng.choice(clients), gens.hx(query(first_edns))))
            steps.append("%s/%s/%s/30" % (rng.choice(ls + ["udp", "tcp"]), rng.choice(clients), gens.hx(query(False))))
            steps.append("%s/%s/%s/0" % (rng.choice(ls + ["udp", "tcp"]), rng.choice(clients), gens.hx(query(True))))
        out.append("cs%d cfg=%s steps=%s up=reply:%s" % (i, cfg, ";".join(steps), gens.hx(reply)))
    # a response that fits a stream frame only BECAUSE of name compression (uncompressed > 65535 octets): the cache
    # stores the uncompressed form without any limit, so the cached copy must be the complete answer too
    for j in range(budget(tier, 2, 12)):
        i = n + j
        cfg = "U=t;E=0;S=-;R=-:0:0:0;C=400000"
        labels = [b"big%d" % i, b"x" * 60, b"y" * 60, b"z" * 60, b"w" * 50, b"test"]
        name = gens.raw_name(labels)
        qtype, qclass = 1, 1
        question = name + b"\0" + struct.pack(">HH", qtype, qclass)
        nrec = rng.choice([270, 280, 300])                        # 16 octets each compressed, ~260 uncompressed
        rrs = b"".join(b"\xc0\x0c" + struct.pack(">HHIH", 1, 1, 300, 4) + struct.pack(">I", 0x0a000000 + k) for k in range(nrec))
        reply = struct.pack(">HHHHHH", 0, 0x8180, 1, nrec, 0, 0) + question + rrs
        assert len(reply) <= 65535
        q = lambda: struct.pack(">HHHHHH", rng.randrange(65536), 0x0100, 1, 0, 0, 0) + question
        ls = ["tcp", "gnet", "http-post", "fasthttp-post"]
        steps = ["%s/-/%s/0" % (rng.choice(ls), gens.hx(q())), "%s/-/%s/50" % (rng.choice(ls), gens.hx(q())),
                 "%s/-/%s/0" % (rng.choice(ls), gens.hx(q()))]
        out.append("cs%d cfg=%s steps=%s up=reply:%s" % (i, cfg, ";".join(steps), gens.hx(reply)))
    # prefetching cases first: they take 3.7 s each and overlap
    out.sort(key=lambda s: "/3300" not in s)
    return out


def cachedseq_oracle(line, res):
    f = gens.fields(res)
    n = int(f.get("n", "0") or 0)
    for i in range(1, n + 1):
        r = f.get("r%d" % i, "-")
        if r.startswith("!") or r == "-":
            return "step %d got no single DNS response (%s)" % (i, r)
    if f.get("upq", "-") == "-":
        return "no upstream query observed for a cache miss"
    # C07: what is served later (from cache) has the rcode / flags and the record counts of what was relayed first
    r1 = f.get("r1", "")
    for i in range(2, n + 1):
        r = f.get("r%d" % i, "")
        if len(r1) >= 24 and len(r) >= 24 and (r[4:8] != r1[4:8] or r[8:20] != r1[8:20]):
            return ("step %d (served from cache or re-fetched) differs from the first answer in flags/rcode %s vs %s or in the "
                    "question/answer/authority counts %s vs %s" % (i, r[4:8], r1[4:8], r[8:20], r1[8:20]))
    return None


def cachedseq_respec(line, res):
    if not res.startswith("n="):
        return None
    return line + " " + " ".join(p for p in res.split() if not p.startswith("n="))


def cachedseq_compare(ir, mr):
    """the caching-proxy model (Router/Cached.v) predicts plain sequences completely and the first two steps of a
    prefetching sequence up to the otter clock phase (two alternatives for step 2)"""
    if mr == "skip":
        return True
    fi = gens.fields(ir)
    if mr.startswith("pf "):
        fm = gens.fields(mr[3:])
        return fi.get("r1") == fm.get("r1") and fi.get("r2") in fm.get("r2", "").split("|")
    fm = gens.fields(mr)
    if any(fi.get(k) != v for k, v in fm.items() if k != "upq"):
        return False
    # the miss's upstream query is the model's; a udp upstream may repeat it (retry) — compare the set
    return set(fi.get("upq", "-").split("|")) == set(fm.get("upq", "-").split("|"))


PROPS["C12"]["kinds"].append(dict(name="cachedseq", gen=cachedseq_gen, oracle=cachedseq_oracle, compare=cachedseq_compare,
                                  respec=cachedseq_respec, respec_kind="cachedseqspec", respec_all=True,
                                  spec_relevant=spec_for(["c12-", "c03-", "c10-"]), timeout=600, shards=2,
                                  classify=lambda l, r: "prefetch" if "/3300" in l else "cached"))
PROPS["C12"]["rule"] += ("; cachedseq: the same question asked repeatedly on a CACHING proxy (upstream reply with OPT+cookie; EDNS and "
                         "non-EDNS clients; a hit in the last quarter of the lifetime that starts a prefetch while other DoH "
                         "clients are active): every response and every upstream query (the prefetch's included) is judged by "
                         "the model's spec_response / spec_upstream, and the responses are compared octet for octet with the model of the "
                         "caching proxy (Router/Cached.v; for a prefetching sequence up to the otter clock phase)")
# C07 (the "unchanged" clause end to end): what a client is served from cache is, apart from TTL ageing and the ID, what
# the proxy produced when it first relayed the answer — the same sequences, compared with the caching-proxy model
PROPS["C07"]["kinds"].append(dict(name="cachedseq", gen=cachedseq_gen, oracle=cachedseq_oracle, compare=cachedseq_compare,
                                  timeout=600, shards=2, classify=lambda l, r: "prefetch" if "/3300" in l else "cached"))
PROPS["C07"]["rule"] += ("; cachedseq: repeated questions through the real listeners of a caching proxy, every response compared "
                         "octet for octet with the caching-proxy model (Router/Cached.v)")
PROPS["C09"]["kinds"].append(handle_kind(["c09-"]))


def advreply_gen(rng, tier):
    """C01: well-formed but ADVERSARIAL upstream replies (question section differing from the question asked in every
    way: other name, longer / shorter / sub-domain name, other type or class, several questions) must neither crash
    the proxy nor stop it from answering — the handle kind restricted to them"""
    cfg = tuple(boundary_cfgs()[1])
    spec = cfg_spec(cfg)
    out = []
    for i in range(budget(tier, 160, 4000)):
        idx = 70000 + i
        q, name, qtype, qclass = gen_query(rng, cfg, idx)
        l = rng.choice(["udp", "tcp", "gnet", "http-post", "fasthttp-post"])
        out.append("a%d cfg=%s l=%s client=- q=%s up=reply:%s" % (idx, spec, l, gens.hx(q),
                                                                 gens.hx(gen_reply(rng, name, qtype, qclass, k4=True))))
    return out


PROPS["C01"]["kinds"].append(dict(handle_kind(["c03-"]), gen=advreply_gen))
PROPS["C01"]["rule"] += ("; handle (adversarial replies): upstream replies whose question section differs from the question asked "
                         "(other / longer / shorter / sub-domain name, other type or class, several questions) through the real "
                         "listeners: no crash, exactly one response, compared with the model")


def refusal_gen(rng, tier):
    """a client that runs into the client limiter (rate 1/s, small burst): the first query is answered, the following ones
    — ordinary, with OPT, with several questions, with long names — are refused; every REFUSED response must be exactly
    the model's [refuse] output (one question echoed at most, id / opcode / RD of the query, correct frame)"""
    out = []
    for i in range(budget(tier, 24, 400)):
        # (the environment's readiness probes open one tcp and one gnet connection from 127.0.0.1: 6 tokens are gone;
        # an answered query costs 1 + 3, a refused one nothing: about six answers, then refusals)
        # (UDP only: on the stream and DoH listeners every harness query opens a connection of its own, and a refused
        # CONNECTION is closed without a response — the per-query refusals of those listeners are C13's / C15 admit's)
        # (udpmr = wildcard listener with udp.multi_routes, queried at a non-primary local address through a connected
        # socket: a REFUSED response leaving from another address than the query went to never arrives — seed C15-J)
        l = "udpmr" if i % 3 == 2 else "udp"
        cfg = "U=u;E=0;S=-;R=-:0:0:0;L=1:%d;%sX=%d" % (rng.choice([28, 30, 33]), "W=1;" if l == "udpmr" else "", i)
        name = gens.raw_name([b"rf%d" % i, rng.choice(VOCAB), b"test"])
        question = name + b"\0" + struct.pack(">HH", 1, 1)
        reply = struct.pack(">HHHHHH", 0, 0x8180, 1, 1, 0, 0) + question + b"\xc0\x0c" + struct.pack(">HHIH", 1, 1, 60, 4) + bytes([10, 0, 0, 9])
        qs = [struct.pack(">HHHHHH", rng.randrange(65536), 0x0100, 1, 0, 0, 0) + question]
        for _ in range(rng.choice([10, 11, 12])):
            k = rng.random()
            if k < 0.3:
                q = struct.pack(">HHHHHH", rng.randrange(65536), 0x0100, 1, 0, 0, 1) + question + opt_rr(rng, size=rng.choice([512, 1232, 4096]))
            elif k < 0.6:
                nq = rng.choice([2, 3, 8])
                qq = b"".join(gens.raw_name([bytes(rng.choice(b"abcdefgh") for _ in range(rng.choice([5, 40, 63]))), rng.choice(VOCAB)]) +
                              b"\0" + struct.pack(">HH", rng.choice([1, 28, 16]), 1) for _ in range(nq))
                q = struct.pack(">HHHHHH", rng.randrange(65536), rng.choice([0x0100, 0x0000, 0x2900]), nq, 0, 0, 0) + qq
            else:
                q = struct.pack(">HHHHHH", rng.randrange(65536), 0x0100, 1, 0, 0, 0) + question
            qs.append(q)
        out.append("rf%d cfg=%s l=%s qs=%s up=reply:%s" % (i, cfg, l, ";".join(gens.hx(q) for q in qs), gens.hx(reply)))
    return out


def refusal_oracle(line, res):
    f = gens.fields(res)
    if not res.startswith("n="):
        return None
    n = int(f.get("n", "0") or 0)
    for i in range(1, n + 1):
        st = f.get("r%d" % i, "-:-").split(":")[0]
        if st not in ("ok", "http-503"):
            return "query %d of a rate-limited client got neither a DNS response nor 503 (%s)" % (i, st)
    return None


def refusal_respec(line, res):
    if not res.startswith("n="):
        return None
    return line + " " + " ".join(p for p in res.split() if p.startswith("r"))


def refusal_kind():
    return dict(name="refusal", gen=refusal_gen, oracle=refusal_oracle, model=False, respec=refusal_respec,
                respec_kind="refusalspec", respec_all=True, timeout=600, shards=2,
                nontrivial=lambda l, r: "8185" in r or "8105" in r or "http-503" in r,
                classify=lambda l, r: gens.fields(l).get("l", "?") + ("/refused" if ("http-503" in r or ":" in r and any(
                    p.split(":")[1][4:8] in ("8185", "8105", "8585") for p in r.split() if p.startswith("r") and ":" in p and len(p.split(":")[1]) > 8)) else "/none"))


def dohget_gen(rng, tier):
    """the RAW text of the dns parameter of a DoH GET request: exact base64url, percent-encoded line breaks anywhere,
    queries cut short, padding, characters outside the alphabet, a dangling character, percent-encoded alphabet
    characters, trailing octets, non-zero left-over bits; through the net/http (raw value) and fasthttp (percent-decoded
    value) listeners; the model is Net/DohGet.v (C01_doh_get_*)"""
    import base64
    out = []
    n = budget(tier, 160, 4000)
    cfgs = ["U=u;E=0;S=-;R=-:0:0:0;X=770", "U=u;E=1;S=-;R=-:0:0:0;T=1;X=771"]
    for i in range(n):
        cfg = cfgs[i % 2]
        l = rng.choice(["http-get", "fasthttp-get"] + (["https-get"] if "T=1" in cfg else []))
        name = gens.raw_name([b"dg%d" % i, rng.choice(VOCAB), b"test"])
        question = name + b"\0" + struct.pack(">HH", rng.choice([1, 28, 16]), 1)
        q = struct.pack(">HHHHHH", rng.randrange(65536), 0x0100, 1, 0, 0, 0) + question
        if rng.random() < 0.4:
            q = q[:10] + b"\0\1" + q[12:] + opt_rr(rng, size=rng.choice([512, 1232, 4096]))
        reply = struct.pack(">HHHHHH", 0, 0x8180, 1, 1, 0, 0) + question + b"\xc0\x0c" + question[-4:] + struct.pack(">IH", 60, 4) + bytes([10, 0, 0, 3])
        if question[-4:-2] != b"\0\1":
            reply = struct.pack(">HHHHHH", 0, 0x8180, 1, 0, 0, 0) + question
        b64 = lambda b: base64.urlsafe_b64encode(b).rstrip(b"=")
        brk = lambda: rng.choice([b"%0A", b"%0D", b"%0d%0a", b"%0a"])
        k = rng.random()
        msg = q
        if k < 0.15:
            text, cls = b64(q), "exact"
        elif k < 0.35:
            t = b64(q)
            for _ in range(rng.choice([1, 2, 4, 9])):
                j = rng.randrange(len(t) + 1)
                while 0 < j < len(t) and (t[j - 1:j] == b"%" or t[j - 2:j - 1] == b"%"):
                    j += 1
                t = t[:j] + brk() + t[j:]
            text, cls = t, "breaks"
        elif k < 0.55:
            cut = rng.choice([1, 2, 3, 4, 5])
            msg = q[:len(q) - cut]
            text, cls = b64(msg) + b"".join(brk() for _ in range(rng.choice([0, 4, 8, 12]))), "cut"
        elif k < 0.62:
            text, cls = b64(q) + rng.choice([b"=", b"==", b"%3D", b"%3d%3d"]), "padding"
        elif k < 0.72:
            t = b64(q)
            j = rng.randrange(len(t) + 1)
            text, cls = t[:j] + rng.choice([b"*", b"!", b"+", b"/", b".", b"~", b"%20", b"%00", b"%2B", b"%2F", b"%ff"]) + t[j:], "badchar"
        elif k < 0.78:
            text, cls = b64(q) + b"A" * (1 if len(b64(q)) % 4 in (0, 2, 3) else 2), "extra"
        elif k < 0.86:
            t = b64(q)
            j = rng.randrange(len(t))
            text, cls = t[:j] + b"%%%02X" % t[j] + t[j + 1:], "pctchar"
        elif k < 0.93:
            msg = q + bytes(rng.randrange(256) for _ in range(rng.choice([1, 2, 3, 7, 40])))
            text, cls = b64(msg), "trailing"
        else:
            t = b64(q)
            if len(t) % 4 in (2, 3):
                # the left-over bits of the last character are ignored by the decoder
                alpha = b"ABCDEFGHIJKLMNOPQRSTUVWXYZabcdefghijklmnopqrstuvwxyz0123456789-_"
                v = alpha.index(t[-1:])
                t = t[:-1] + alpha[v | (3 if len(t) % 4 == 3 else 15):][:1]
            text, cls = t, "leftover"
        # the rest of the query string: other pairs, empty pairs, pairs without '=', keys that only look like "dns"; now and
        # then a percent-encoded key (fasthttp compares keys after decoding) or a dns pair without a value in front
        pre = rng.choice([b"", b"", b"", b"&", b"&&", b"a=b&", b"a=b&&", b"x&", b"=&", b"dns2=zz&", b"adns=q&", b"ct=application/dns-message&",
                          b"a=b&&c=d&", b"DNS=zz&", b"%64ns2=1&", b"=v&", b"a==b&"])
        suf = rng.choice([b"", b"", b"", b"&", b"&&", b"&x=y", b"&dns2=1", b"&&z", b"&dns=QUJD"])
        r = rng.random()
        if r < 0.04:
            pre, cls = b"dns&", cls + "+novalue"          # the first dns pair has no value: 400 on both
        elif r < 0.08:
            pre, cls = b"dns=&", cls + "+emptyvalue"
        key = b"dns"
        if r > 0.94:
            key, cls = rng.choice([b"%64ns", b"d%6Es", b"%64%6e%73"]), cls + "+pctkey"   # found by fasthttp only
        query = pre + key + b"=" + text + suf
        out.append("dg%d cfg=%s l=%s client=- raw=%s q=%s up=reply:%s cls=%s" % (i, cfg, l, gens.hx(query), gens.hx(q), gens.hx(reply), cls))
    # the empty value, line breaks only
    for j, (l, text) in enumerate([("http-get", b""), ("fasthttp-get", b""), ("http-get", b"%0A%0A%0A%0A"), ("fasthttp-get", b"%0A%0A%0A%0A"),
                                   ("fasthttp-get", b"%0A" * 40), ("fasthttp-get", b"%0D%0A" * 7), ("fasthttp-get", b"A"), ("http-get", b"A")]):
        out.append("dge%d cfg=%s l=%s client=- raw=%s q=%s up=silent cls=empty" % (
            j, cfgs[0], l, gens.hx(b"dns=" + text), gens.hx(struct.pack(">HHHHHH", 1, 0x0100, 1, 0, 0, 0) + b"\1a\0\0\1\0\1")))
    for j, (l, query) in enumerate([("http-get", b""), ("fasthttp-get", b""), ("http-get", b"&"), ("fasthttp-get", b"&&&"), ("http-get", b"dns"),
                                    ("fasthttp-get", b"dns"), ("http-get", b"=&="), ("fasthttp-get", b"=&="), ("fasthttp-get", b"%"), ("fasthttp-get", b"dns=%4"),
                                    ("fasthttp-get", b"dns=QUJD%"), ("http-get", b"dns=QUJD%")]):
        out.append("dgq%d cfg=%s l=%s client=- raw=%s q=%s up=silent cls=noparam" % (
            j, cfgs[0], l, gens.hx(query) if query else "-", gens.hx(struct.pack(">HHHHHH", 1, 0x0100, 1, 0, 0, 0) + b"\1a\0\0\1\0\1")))
    return out


def dohget_oracle(line, res):
    f = gens.fields(res)
    if f.get("late") == "1":
        return "response later than the 6 s request deadline plus 1.5 s slack"
    return None


def dohget_kind():
    return dict(name="dohget", gen=dohget_gen, oracle=dohget_oracle, compare=handle_compare, timeout=900, shards=4,
                nontrivial=lambda l, r: True, classify=lambda l, r: gens.fields(l).get("l", "?") + "/" + gens.fields(l).get("cls", "?") +
                ("/200" if "st=ok" in r else "/400" if "http-400" in r else "/other"))


def slowreader_gen(rng, tier):
    """one stream connection, many pipelined queries, a client that does not read for 1.5 - 2.5 s and then reads everything:
    every query is answered exactly once (from the upstream, or REFUSED beyond the in-flight cap) - the connection must
    not be cut under a slow reader (seed C03-P: TCP_USER_TIMEOUT of 5 ms instead of 5 s)"""
    out = []
    i = 0
    for rep in range(budget(tier, 1, 4)):
        for l in ("tcp", "tls", "gnet"):
            # (M: the in-flight cap is out of the way, every query is answered with a 6 KiB response: megabytes pile up in
            # the socket buffers and in the listener's own write queue while the client does not read - seed C13-R)
            # N: a small so_sndbuf at the listener (back-pressure with little data); I: an idle time-out far beyond the time
            # the client needs to drain the responses (the listener closes a connection on which no NEW query arrives for
            # idle_timeout seconds, responses pending or not: by design, not what this kind is about)
            cfg = "U=u;E=0;S=-;R=-:0:0:0;T=1;M=4000;N=4096;I=120;X=%d" % (8800 + i)
            name = gens.raw_name([b"slow%d" % i, rng.choice(VOCAB), b"test"])
            question = name + b"\0" + struct.pack(">HH", 16, 1)
            txt = bytes(rng.randrange(97, 123) for _ in range(250))
            rr = b"\xc0\x0c" + struct.pack(">HHIH", 16, 1, 60, 251) + b"\xfa" + txt
            reply = struct.pack(">HHHHHH", 0, 0x8180, 1, 24, 0, 0) + question + rr * 24
            q = struct.pack(">HHHHHH", 0, 0x0100, 1, 0, 0, 0) + question
            out.append("sl%d cfg=%s l=%s n=%d hold=%d q=%s up=reply:%s" % (i, cfg, l, rng.choice([600, 1000]), rng.choice([1500, 2500]),
                                                                        gens.hx(q), gens.hx(reply)))
            i += 1
    return out


def slowreader_oracle(line, res):
    f = gens.fields(res)
    if not res.startswith("sent="):
        return None
    if f["got"] != f["sent"] or f["ids"] != f["sent"]:
        return ("a client that pipelined %s queries on one connection and read slowly got %s responses (%s distinct ids); the "
                "stream ended with: %s" % (f["sent"], f["got"], f["ids"], f["err"]))
    return None


def slowreader_kind():
    return dict(name="slowreader", gen=slowreader_gen, oracle=slowreader_oracle, model=False, timeout=600, shards=1,
                nontrivial=lambda l, r: True, classify=lambda l, r: gens.fields(l).get("l", "?"))


def udpmrstress_gen(rng, tier):
    out = []
    for i in range(budget(tier, 2, 8)):
        cfg = "U=u;E=0;S=-;R=-:0:0:0;T=1;W=1;D=%d;X=%d" % (rng.choice([2, 4]), 9500 + i)
        name = gens.raw_name([b"mr%d" % i, rng.choice(VOCAB), b"test"])
        question = name + b"\0" + struct.pack(">HH", 1, 1)
        reply = struct.pack(">HHHHHH", 0, 0x8180, 1, 1, 0, 0) + question + b"\xc0\x0c" + struct.pack(">HHIH", 1, 1, 60, 4) + bytes([10, 0, 0, 5])
        q = struct.pack(">HHHHHH", 0, 0x0100, 1, 0, 0, 0) + question
        out.append("mr%d cfg=%s g=%d n=%d q=%s up=reply:%s" % (i, cfg, rng.choice([8, 16]), budget(tier, 250, 1500), gens.hx(q), gens.hx(reply)))
    return out


def udpmrstress_oracle(line, res):
    f = gens.fields(res)
    if not res.startswith("sent="):
        return None
    # (a datagram may be lost on a busy machine: a handful of retries is tolerated, a systematic loss - several per thousand - is not)
    if f["got"] != f["sent"] or f["bad"] != "0" or int(f.get("retried", "0")) > max(3, int(f["sent"]) * 3 // 1000):
        return ("multi_routes UDP listener with several threads: %s of %s queries got no response from the address they were sent to "
                "even at the second attempt, %s needed a second attempt, %s responses with a foreign id"
                % (int(f["sent"]) - int(f["got"]), f["sent"], f.get("retried", "?"), f["bad"]))
    return None


def udpmrstress_kind():
    return dict(name="udpmrstress", gen=udpmrstress_gen, oracle=udpmrstress_oracle, model=False, timeout=600, shards=1,
                nontrivial=lambda l, r: True, classify=lambda l, r: "D" + gens.fields(l).get("cfg", "").split("D=")[-1][:1])


def recover_gen(rng, tier):
    """every listener kind: a client bursts through its budget (connections and queries refused at every layer:
    accept, stream, query), pauses until the bucket is full again, and asks once more: the listener must still be
    there and the query must be answered by the upstream (seed C03-K: a refusal at accept ended http.Server.Serve)"""
    out = []
    ls = ["udp", "tcp", "gnet", "tls", "http-get", "http-post", "fasthttp-get", "fasthttp-post", "https-get", "https-post", "quic"]
    reps = budget(tier, 1, 6)
    i = 0
    for rep in range(reps):
        for l in ls:
            cfg = "U=u;E=0;S=-;R=-:0:0:0;L=60:%d;T=1;X=%d" % (rng.choice([30, 34, 40]), 7000 + i)
            name = gens.raw_name([b"rc%d" % i, rng.choice(VOCAB), b"test"])
            question = name + b"\0" + struct.pack(">HH", 1, 1)
            reply = struct.pack(">HHHHHH", 0, 0x8180, 1, 1, 0, 0) + question + b"\xc0\x0c" + struct.pack(">HHIH", 1, 1, 60, 4) + bytes([10, 0, 0, 9])
            qs = [struct.pack(">HHHHHH", rng.randrange(65536), 0x0100, 1, 0, 0, 0) + question for _ in range(rng.choice([10, 14, 20]))]
            final = struct.pack(">HHHHHH", rng.randrange(65536), 0x0100, 1, 0, 0, 0) + question
            out.append("rc%d cfg=%s l=%s qs=%s pause=%d final=%s up=reply:%s" % (
                i, cfg, l, ";".join(gens.hx(q) for q in qs), rng.choice([900, 1100]), gens.hx(final), gens.hx(reply)))
            i += 1
    return out


def recover_oracle(line, res):
    f = gens.fields(res)
    if not res.startswith("n="):
        return None
    st, _, hx_ = f.get("rf", "-:-").partition(":")
    if st != "ok" or len(hx_) < 24:
        return "after a burst that ran into the limiter and a pause that refills the bucket the listener no longer answers (%s)" % st
    if int(hx_[6:8], 16) & 0x0F != 0 or int(hx_[12:16], 16) < 1:
        return "after the pause the query was not answered from the upstream (flags %s)" % hx_[4:8]
    return None


def recover_kind():
    return dict(name="recover", gen=recover_gen, oracle=recover_oracle, model=False, timeout=600, shards=1,
                nontrivial=lambda l, r: any(p.split("=")[1].split(":")[0] != "ok" or p.split(":")[1][6:8] in ("85", "05")
                                            for p in r.split() if p.startswith("r") and not p.startswith("rf") and ":" in p),
                classify=lambda l, r: gens.fields(l).get("l", "?"))


PROPS["C15"]["kinds"].append(refusal_kind())
PROPS["C15"]["rule"] += ("; refusal: a client running into the limiter through the real listeners; every REFUSED response compared octet "
                         "for octet with the model's refuse (C09_refusal_small), DoH: 503")
PROPS["C09"]["kinds"].append(refusal_kind())
PROPS["C01"]["kinds"].append(dohget_kind())
PROPS["C01"]["rule"] += ("; dohget: the RAW text of the dns parameter of DoH GET requests (exact, percent-encoded line breaks, cut queries, "
                         "padding, characters outside the alphabet, dangling characters, trailing octets) through the net/http and "
                         "fasthttp listeners, status and response compared with Net/DohGet.v + handle")
PROPS["C03"]["kinds"].append(slowreader_kind())
PROPS["C03"]["rule"] += "; slowreader: many pipelined queries on one stream connection read after a pause: one response per query (oracle only)"
PROPS["C03"]["kinds"].append(udpmrstress_kind())
PROPS["C03"]["rule"] += "; udpmrstress: wildcard multi_routes UDP listener with 2 / 4 threads, 8 / 16 clients on connected sockets to four local addresses: every query answered from the address it was sent to (oracle only)"
PROPS["C20"]["kinds"].append(udpmrstress_kind())
PROPS["C13"]["kinds"].append(slowreader_kind())
PROPS["C13"]["rule"] += "; slowreader: 600 / 1000 pipelined queries with 6 KiB responses on one tcp / tls / gnet connection read after 1.5 - 2.5 s: one well-framed response per query"
PROPS["C03"]["kinds"].append(recover_kind())
PROPS["C03"]["rule"] += ("; recover: on every listener kind a client bursts through its limiter budget, pauses until the bucket is "
                         "full and asks again: the listener must still answer from the upstream (oracle only)")
PROPS["C15"]["kinds"].append(recover_kind())


def frame_gen(rng, tier):
    """C13: the 2-octet prefix of responses at and beyond the 65535-octet limit, and of large relayed replies, on every
    stream listener (tcp, gnet, tls, quic) — the handle kind restricted to the frame-size boundary"""
    cfg = tuple(boundary_cfgs()[1]) + (True,)
    spec = cfg_spec(cfg)
    out, idx = size_boundary_cases(rng, spec, 50000)
    out = [c for c in out if " l=tcp " in c or " l=gnet " in c or " l=tls " in c or " l=quic " in c]
    for _ in range(budget(tier, 12, 200)):
        idx += 1
        q, name, qtype, qclass = gen_query(rng, cfg, idx)
        l = rng.choice(["tcp", "gnet", "tls", "quic"])
        out.append("g%d cfg=%s l=%s client=- q=%s up=reply:%s" % (idx, spec, l, gens.hx(q),
                                                                 gens.hx(gen_reply(rng, name, qtype, qclass, big=True))))
    return out


PROPS["C13"]["kinds"].append(dict(handle_kind(["c09-", "c03-undecodable"]), gen=frame_gen))
PROPS["C13"]["rule"] += ("; handle (frame-size boundary): responses packed to 65534..65546 octets and large relayed replies on "
                         "tcp/gnet/tls/quic, prefix and body compared with the model octet for octet")
PROPS["C09"]["rule"] += ("; " + ROUTER_RULE)


# ---------------------------------------------------------------- kind "cfgload" (C10: strict configuration loading, real binary)
TAGS = ["a", "b", "up", "cn", "blk", "x1"]


def cfg_yaml(ups, sets, rules, unk, rng):
    """YAML text of a configuration; unk = inject one unknown key at a random place"""
    y = []
    y.append("servers:")
    y.append("  - protocol: udp")
    y.append("    listen: 127.0.0.1:0")
    if unk == "server":
        y.append("    lisen: 127.0.0.1:5353")
    y.append("upstreams:")
    for i, (t, a) in enumerate(ups):
        y.append("  - tag: \"%s\"" % t)
        y.append("    addr: \"%s\"" % a)
        if unk == "upstream" and i == 0:
            y.append("    dail_addr: 127.0.0.1")
    if not ups:
        y[-1] = "upstreams: []"
    y.append("domain_sets:")
    for i, t in enumerate(sets):
        y.append("  - tag: \"%s\"" % t)
        y.append("    files: [\"@DIR@/set%d.txt\"]" % (i % 10))
        if unk == "set" and i == 0:
            y.append("    file: x")
    if not sets:
        y[-1] = "domain_sets: []"
    y.append("rules:")
    for i, (rev, dom, rej, fwd) in enumerate(rules):
        first = True
        for k, v in (("reverse", "true" if rev else None), ("domain", dom or None), ("reject", rej or None), ("forward", fwd or None)):
            if v is None:
                continue
            y.append("  %s %s: %s" % ("-" if first else " ", k, ("\"%s\"" % v) if isinstance(v, str) and k in ("domain", "forward") else v))
            first = False
        if first:
            y.append("  - reverse: false")
        if unk == "rule" and i == 0:
            y.append("    forword: up")
    if not rules:
        y[-1] = "rules: []"
    if unk == "top":
        y.append("cachee:")
        y.append("  mem_size: 1")
    if unk == "nested":
        y.append("cache:")
        y.append("  mem_sise: 1024")
    if unk == "limiter":
        y.append("limiter:")
        y.append("  client:")
        y.append("    limit: 10")
        y.append("    v5_mask: 24")
    return "\n".join(y) + "\n"


def cfgload_gen(rng, tier):
    n = budget(tier, 120, 2000)
    out = []
    for i in range(n):
        nup = rng.choice([0, 1, 2, 3])
        ups = []
        for _ in range(nup):
            t = rng.choice(TAGS)
            ups.append((t, "udp://127.0.0.1:9"))
        sets = [rng.choice(TAGS) for _ in range(rng.choice([0, 1, 2, 3]))]
        r = rng.random()
        if r < 0.08 and ups:
            ups[rng.randrange(len(ups))] = ("", "udp://127.0.0.1:9")          # missing tag
        elif r < 0.14 and ups:
            ups[rng.randrange(len(ups))] = (rng.choice(TAGS), "")               # missing addr
        elif r < 0.2 and sets:
            sets[rng.randrange(len(sets))] = ""
        rules = []
        for _ in range(rng.choice([0, 1, 2, 4])):
            dom = rng.choice([""] + ([t for t in sets if t] or [""]) * 2 + [rng.choice(TAGS)])
            fwd = rng.choice([""] + ([t for t, _ in ups if t] or [""]) * 2 + [rng.choice(TAGS)])
            rules.append((rng.random() < 0.3, dom, rng.choice([0, 0, 3, 5]), fwd))
        unk = rng.choice(["-"] * 6 + ["server", "upstream", "set", "rule", "top", "nested", "limiter"])
        if unk == "upstream" and not ups or unk == "set" and not sets or unk == "rule" and not rules:
            unk = "top"
        y = cfg_yaml(ups, sets, rules, unk, rng)
        d = lambda v: v if v else "-"       # empty list
        e = lambda v: v if v else "~"       # empty string element
        out.append("g%d unk=%d ups=%s sets=%s rules=%s yaml=%s" % (
            i, 0 if unk == "-" else 1,
            d(",".join("%s:%s" % (e(t), e(a).replace(":", "_").replace("/", "_")) for t, a in ups)),
            d(",".join(e(t) for t in sets)),
            d(",".join("%d:%s:%d:%s" % (1 if rev else 0, e(dom), rej, e(fwd)) for rev, dom, rej, fwd in rules)),
            gens.hx(y.encode())))
    return out


def cfgload_oracle(line, res):
    if res in ("PANIC!", "HANG", "exit0"):
        return "the binary did not report the configuration error cleanly: " + res
    f = gens.fields(line)
    if f.get("unk") == "1" and res == "started":
        return "a configuration containing an unknown key was accepted at start-up"
    tags = [u.split(":")[0] for u in f.get("ups", "-").split(",") if u != "-"]
    sets = [x for x in f.get("sets", "-").split(",") if x != "-"]
    if res == "started" and (len(set(tags)) != len(tags) or len(set(sets)) != len(sets) or "~" in tags or "~" in sets):
        return "a configuration with a repeated or missing tag was accepted at start-up"
    if res == "started":
        for r in [x for x in f.get("rules", "-").split(",") if x != "-"]:
            _, dom, _, fwd = r.split(":")
            if (dom != "~" and dom not in sets) or (fwd != "~" and fwd not in tags):
                return "a rule naming an unknown domain-set or upstream tag was accepted at start-up"
    return None


PROPS["C10"]["kinds"].append(dict(name="cfgload", gen=cfgload_gen, oracle=cfgload_oracle, timeout=900,
                                  nontrivial=lambda l, r: r in ("started", "rejected"),
                                  classify=lambda l, r: ("unk/" if " unk=1 " in l else "tags/") + r))
PROPS["C10"]["need_binary"] = True


def startrace_gen(rng, tier):
    """clients that are already sending (udp + tcp) while run() executes, domain sets that take a while to load
    (B=<n> bulk entries per set): every response RECEIVED must be the one the rules demand (seed C10-K: listeners
    started before the domain sets and rules were in place answered REFUSED / from an incomplete rule list)"""
    out = []
    for i in range(budget(tier, 3, 12)):
        setname = [b"blocked%d" % i, b"example", b"com"]
        sets = [[("d", setname)]]
        rules = [(0, 0, 3, "-"), ("-", 0, 0, 0)]
        spec = cfg_spec(("u", 0, sets, rules)) + ";B=%d;X=%d" % (rng.choice([120000, 200000, 300000]), 9000 + i)
        fname = gens.raw_name([b"sr%d" % i, rng.choice(VOCAB), b"test"])
        fq = fname + b"\0" + struct.pack(">HH", 1, 1)
        rq = gens.raw_name([b"www"] + setname) + b"\0" + struct.pack(">HH", 1, 1)
        reply = struct.pack(">HHHHHH", 0, 0x8180, 1, 1, 0, 0) + fq + b"\xc0\x0c" + struct.pack(">HHIH", 1, 1, 60, 4) + bytes([10, 0, 0, 7])
        hdr = struct.pack(">HHHHHH", 0, 0x0100, 1, 0, 0, 0)
        out.append("sr%d cfg=%s qf=%s qr=%s up=reply:%s" % (i, spec, gens.hx(hdr + fq), gens.hx(hdr + rq), gens.hx(reply)))
    return out


def startrace_oracle(line, res):
    f = gens.fields(res)
    if not res.startswith("n="):
        return None
    fw, fg = (int(x) for x in f["fwd"].split(":"))
    rj, rg = (int(x) for x in f["rej"].split(":"))
    if f.get("bad", "-") != "-" or fw != fg or rj != rg:
        return ("a listener answered while run() was still starting and the response is not what the rules demand: "
                "%d of %d forwarded-rule and %d of %d reject-rule responses right, first deviating response %s"
                % (fg, fw, rg, rj, f.get("bad", "-")[:80]))
    return None


PROPS["C10"]["kinds"].append(dict(name="startrace", gen=startrace_gen, oracle=startrace_oracle, model=False, timeout=300,
                                  shards=1, nontrivial=lambda l, r: r.startswith("n=") and not r.startswith("n=0 "),
                                  classify=lambda l, r: "early" if " early=0 " not in r else "after-start"))
PROPS["C10"]["rule"] += ("; startrace: udp and tcp clients already sending while run() loads slow domain sets: every response "
                         "received is the one the rules demand (oracle only)")
PROPS["C10"]["rule"] += ("; cfgload: generated YAML configurations (duplicate / empty / unknown upstream and domain-set tags, missing "
                         "addresses, an unknown key injected at top level, nested, or inside a server / upstream / set / rule / "
                         "limiter entry) through the REAL binary: it must start exactly when the model's loader accepts and the "
                         "file has no unknown key, and otherwise exit with an error (never a panic trace)")
