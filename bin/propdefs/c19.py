import gens
from props import PROPS, budget

# ---------------------------------------------------------------- C19: prefetch is single-flight and never delays a hit
S = 10 ** 9
MS = 10 ** 6


# ---- kind needprefetch: (stored, expire) as ns offsets relative to the instant of the call
def _np_catalogue():
    out = []
    # exactly a quarter left at the call instant, and that boundary moved by +-1 ns .. +-1 s
    for life in (4, 40, 4000, 4 * S, 30 * S, 3600 * S, 6 * 3600 * S, S + 1, S + 2, S + 3, 4 * S + 3, 7, 5, 3, 2, 1):
        q = life >> 2
        for d in (0, 1, -1, 2, -2, 1000, -1000, 50000, -50000, MS, -MS, 20 * MS, -20 * MS, S, -S):
            eo = q + d               # remaining at the call instant = q + d
            out.append((eo - life, eo))
    # expire = stored
    for t in (0, 1, -1, 5, -5, 1000, -1000, MS, -MS, S, -S, 2 ** 61, -(2 ** 61)):
        out.append((t, t))
    # now already past expire
    for eo in (-1, -1000, -MS, -S, -3600 * S):
        for life in (0, 1, 4, 4 * S, 6 * 3600 * S):
            out.append((eo - life, eo))
    # expire before stored (negative lifetime): floor division of a negative life span
    for so, eo in ((1, 0), (2, 0), (3, 0), (4, 0), (5, 0), (MS, -MS), (S, -S), (10 * S, 5 * S), (100, 99), (4 * S, 4 * S - 1),
                   (-1, -2), (-1, -5), (-1, -6), (-MS, -MS - 3), (-MS, -MS - 4), (-MS, -MS - 5), (-S, -5 * S)):
        out.append((so, eo))
    # far apart (within int64 ns, no saturation)
    for so, eo in ((-(2 ** 61), 2 ** 61), (-(2 ** 61), 0), (0, 2 ** 61), (2 ** 61, -(2 ** 61)), (-(2 ** 61), 2 ** 59)):
        out.append((so, eo))
    return out


def c19_np_gen(rng, tier):
    out = []
    for i, (so, eo) in enumerate(_np_catalogue()):
        out.append("b%d so=%d eo=%d" % (i, so, eo))
    n = budget(tier, 3000, 100000)
    for i in range(n):
        r = rng.random()
        life = int(10 ** rng.uniform(0, 13.5)) if r < 0.9 else rng.randint(-10 ** 10, 10)
        k = rng.random()
        if k < 0.5:      # around the boundary
            d = rng.choice([1, -1]) * int(10 ** rng.uniform(0, 9.5)) if rng.random() < 0.9 else rng.randint(-3, 3)
            eo = (life >> 2) + d
        elif k < 0.8:    # anywhere in the lifetime
            eo = rng.randint(min(0, life), max(0, life))
        else:            # expired / far future
            eo = rng.choice([1, -1]) * int(10 ** rng.uniform(0, 15))
        out.append("r%d so=%d eo=%d" % (i, eo - life, eo))
    return out


def _np_parse(line, res):
    f = gens.fields(line)
    r = gens.fields(res)
    return int(f["so"]), int(f["eo"]), int(r["r"]), int(r["lo"]), int(r["hi"])


def c19_np_oracle(line, res):
    """independent of the model: the result must be 'remaining < lifetime/4' for SOME clock reading inside the
    bracket [lo, hi] measured around the call"""
    try:
        so, eo, r, lo, hi = _np_parse(line, res)
    except Exception:
        return "unparsable result"
    q = (eo - so) >> 2          # Python's >> floors, like Go's on int64
    can1 = (eo - hi) < q        # at the latest reading
    can0 = (eo - lo) >= q       # at the earliest reading
    if r == 1 and not can1:
        return "needPrefetch true although remaining >= lifetime/4 throughout the call"
    if r == 0 and not can0:
        return "needPrefetch false although remaining < lifetime/4 throughout the call"
    return None


def c19_np_compare(ir, mr):
    try:
        i = gens.fields(ir)
        m = gens.fields(mr)
        r, lo, hi, thr = int(i["r"]), int(i["lo"]), int(i["hi"]), int(m["thr"])
    except Exception:
        return False
    if m.get("chk") != "1":
        return False
    if thr <= lo:
        return r == 1
    if thr > hi:
        return r == 0
    return True                 # the clock crossed the boundary during the call: either answer is right


def c19_np_classify(line, res):
    try:
        so, eo, r, lo, hi = _np_parse(line, res)
    except Exception:
        return "unparsed"
    thr = eo + 1 - ((eo - so) >> 2)
    if lo < thr <= hi:
        return "band-skipped"
    near = abs(thr - lo) <= 20 * MS
    return ("need" if r else "noneed") + ("-near" if near else "")


# ---- kind prefetchctl
def c19_ctl_gen(rng, tier):
    out = []
    n = budget(tier, 1500, 40000)
    special = [0, 1, 2 ** 63, 2 ** 64 - 1, 2 ** 32, 65536 + 1]
    names = [b"\x01a", b"\x01b", b"\x03www\x07example\x03com", b"\x07example\x03com", b"", b"\x02aa"]
    for i in range(n):
        raw = [rng.choice(special) if rng.random() < 0.4 else rng.randrange(2 ** 64) for _ in range(rng.randint(1, 5))]
        qs = []
        for _ in range(rng.randint(1, 6)):
            if qs and rng.random() < 0.35:     # a variant of an earlier question: one component changed, or none
                nm, t, c, g = qs[rng.randrange(len(qs))]
                k = rng.random()
                if k < 0.2:
                    t = rng.choice([1, 28, 15, t ^ 1])
                elif k < 0.4:
                    c = rng.choice([1, 3, 255, c + 1])
                elif k < 0.7:
                    g = rng.choice(["-", "-2", "a", "a2", "b", "b2"])
                elif k < 0.8:
                    nm = rng.choice(names)
                qs.append((nm, t, c, g))
            else:
                nm = rng.choice(names) if rng.random() < 0.7 else gens.rand_name(rng, exotic=0.0).lower()
                qs.append((nm, rng.choice([1, 28, 15, 16, 65535, 0]), rng.choice([1, 1, 1, 3, 255, 0, 65535]),
                           rng.choice(["-", "-2", "a", "a2", "b", "b2"])))
        ops = []
        for _ in range(rng.randint(0, 40)):
            if rng.random() < 0.5:
                ops.append(rng.choice("rrd") + str(rng.choice(raw)))
            else:
                ops.append(rng.choice("RRD") + str(rng.randrange(len(qs))))
        out.append("p%d qs=%s ops=%s" % (i, ",".join("%s:%d:%d:%s" % (gens.hx(nm), t, c, g) for nm, t, c, g in qs),
                                         ",".join(ops) if ops else "-"))
    return out


def c19_ctl_oracle(line, res):
    """reserve must succeed exactly when the key (raw value, or (question, group)) is not currently reserved"""
    f = gens.fields(line)
    r = gens.fields(res)
    qs = f["qs"].split(",")
    idents = []
    for q in qs:
        nm, t, c, g = q.split(":")
        idents.append("%s:%s:%s:%s" % (nm, t, c, g[:1]))
    held = set()
    exp = ""
    if f["ops"] != "-":
        for op in f["ops"].split(","):
            lab = ("k" + op[1:]) if op[0] in "rd" else ("q%d" % idents.index(idents[int(op[1:])]))
            if op[0] in "rR":
                exp += "0" if lab in held else "1"
                held.add(lab)
            else:
                held.discard(lab)
    got = r.get("res", "?")
    if got != (exp or "-"):
        for i, (a, b) in enumerate(zip(got, exp)):
            if a != b:
                return "reserve #%d returned %s with the key %s" % (i, a, "already in flight" if b == "0" else "free")
        return "reserve results differ"
    if r.get("set") != (",".join(sorted(held)) or "-"):
        return "in-flight set after the sequence is %s, expected %s" % (r.get("set"), ",".join(sorted(held)) or "-")
    return None


def c19_ctl_classify(line, res):
    r = gens.fields(res).get("res", "?")
    if r in ("-", "?"):
        return "no-reserve"
    z = r.count("0")
    kinds = ("q" if ("R" in line.split("ops=")[1]) else "") + ("k" if any(c in line.split("ops=")[1] for c in "r") else "")
    return "refused=%s keys=%s" % ("0" if z == 0 else ("1-3" if z <= 3 else ">3"), kinds)


# ---- kind prefetch (e2e, real clock)
def c19_e2e_gen(rng, tier):
    # lifetime 8 s: the window (last quarter) is 6 s..8 s after the store, and the backend keeps the entry for at
    # least 7 s (its clock counts whole seconds), so 6.15 s..6.9 s is inside both
    base = [
        ("ok", "u", 8, 50, 1500, "mixed"),
        ("ok", "t", 8, 50, 1500, "mixed"),
        ("ok", "u", 8, 50, 1500, "udp"),
        ("ok", "t", 8, 50, 1500, "tcp+gnet"),
        ("ok", "u", 8, 50, 1500, "http-get+http-post+fasthttp-get+fasthttp-post"),
        ("silent", "u", 8, 50, 0, "mixed"),
        ("fail", "t", 8, 50, 200, "mixed"),
        ("fail", "t", 8, 20, 150, "udp"),
        ("neg", "u", 8, 50, 100, "mixed"),
        ("neg", "t", 8, 20, 100, "tcp"),
        ("neg", "u", 8, 20, 100, "udp"),
        ("neg", "t", 8, 20, 100, "udp"),
        ("early", "u", 8, 50, 0, "mixed"),
    ]
    if tier == "thorough":
        base += [("ok", "u", 12, 200, 2500, "mixed"), ("ok", "t", 16, 100, 3500, "mixed"), ("ok", "p", 8, 50, 1500, "mixed"),
                 ("fail", "t", 12, 50, 300, "mixed"), ("neg", "u", 12, 50, 200, "mixed"), ("silent", "t", 12, 100, 0, "mixed")] * 3
    out = []
    for i, (mode, up, ttl, n, delay, ls) in enumerate(base):
        lab = bytes(rng.choice(b"abcdefghijklmnopqrstuvwxyz0123456789") for _ in range(8))
        name = gens.raw_name([b"c19x%d" % i, lab, b"test"])
        rc = ""
        if mode == "neg":
            # the error answer of the refresh: NXDOMAIN, SERVFAIL and the "other" rcodes all must leave the entry alone
            rc = " rc=%d" % [5, 3, 4, 2, 1, 9][sum(1 for b in base[:i] if b[0] == "neg") % 6]
        out.append("e%d mode=%s up=%s ttl=%d n=%d delay=%d ls=%s name=%s stagger=%d%s" % (
            i, mode, up, ttl, n, delay, ls, gens.hx(name), 40 * (i % 16), rc))
    return out


def c19_e2e_oracle(line, res):
    """independent of the model: what the property demands of the observed run"""
    f = gens.fields(line)
    r = gens.fields(res)
    if r.get("timing") != "ok":
        return None
    n = f["n"]
    full = "%s/%s" % (n, n)
    if r.get("warm") != "A/1":
        return None          # left to the comparison (not a C19 matter)
    if "early_up" in r and r["early_up"] != "0":
        return "%s upstream queries (refreshes or misses) for repeat queries with more than a quarter of the lifetime left" % r["early_up"]
    if "early" in r and r["early"] != full:
        return "hits outside the window not all answered from the cache (%s)" % r["early"]
    if "early_infl" in r and r["early_infl"] != "0":
        return "a key is in flight outside the window"
    mode = f["mode"]
    if mode in ("ok", "silent"):
        if r.get("ans") != full:
            return "only %s concurrent hits in the window were answered with the cached answer" % r.get("ans")
        if r.get("slow") != "0":
            return "%s hits took >= 600 ms while the refresh was waiting for the slow upstream" % r.get("slow")
        if r.get("up_burst") != "1":
            return "%s refresh queries reached the upstream for %s concurrent hits (must be exactly one)" % (r.get("up_burst"), n)
        if r.get("infl_mid") != "1":
            return "in-flight set has %s keys while one refresh is running" % r.get("infl_mid")
    if mode == "ok":
        if r.get("infl_end") != "0":
            return "the key was not released after the refresh finished"
        if r.get("after") != "B" or r.get("renewed") != "1":
            return "a hit after the successful refresh got %s (renewed TTL: %s)" % (r.get("after"), r.get("renewed"))
        if r.get("up_after") != "1":
            return "%s upstream queries in total, expected one refresh" % r.get("up_after")
    if mode == "fail":
        if r.get("h1") != "A" or r.get("h2") != "A":
            return "old entry not served around a failed refresh (%s, %s)" % (r.get("h1"), r.get("h2"))
        if r.get("up1") not in ("1", "2"):
            return "%s upstream queries for one failing refresh" % r.get("up1")
        if r.get("infl1") != "0":
            return "the key stayed in flight after the refresh failed (done not called)"
        if r.get("aged") != "1":
            return "failed refresh changed the entry's TTL"
        if r.get("up2") != "1":
            return "%s refresh queries for a hit in the window after a failed refresh (must be one)" % r.get("up2")
        if r.get("infl2") != "0":
            return "the key was not released after the second refresh"
        if r.get("h3") != "B" or r.get("renewed") != "1":
            return "hit after the successful second refresh got %s (renewed: %s)" % (r.get("h3"), r.get("renewed"))
        if r.get("up3") != "1":
            return "a hit on the renewed entry started another refresh"
    if mode == "neg":
        if r.get("h1") != "A" or r.get("h2") != "A" or r.get("aged") != "1":
            return "a negative refresh replaced the live positive entry (%s, %s, aged=%s)" % (r.get("h1"), r.get("h2"), r.get("aged"))
        if r.get("up1") != "1" or r.get("up2") != "2":
            return "refresh queries after hits 1 and 2: %s, %s (expected 1, 2)" % (r.get("up1"), r.get("up2"))
        if r.get("infl1") != "0" or r.get("infl2") != "0":
            return "the key was not released after a negative refresh"
    return None


def c19_e2e_compare(ir, mr):
    if ir.startswith("timing=bad"):
        return True
    # one failing refresh over a re-used TCP connection may be written twice by the transport (its own
    # retry on a stale connection, C14): still one flight
    return ir.replace(" up1=2 infl1=0 h2=", " up1=1 infl1=0 h2=") == mr


def c19_e2e_classify(line, res):
    f = gens.fields(line)
    return f.get("mode", "?") + ("" if res.startswith("timing=ok") else "-timing-bad-skipped")


PROPS["C19"] = dict(
    kinds=[
        dict(name="needprefetch", gen=c19_np_gen, oracle=c19_np_oracle, compare=c19_np_compare,
             classify=c19_np_classify, nontrivial=lambda l, r: c19_np_classify(l, r) != "band-skipped", timeout=300),
        dict(name="prefetchctl", gen=c19_ctl_gen, oracle=c19_ctl_oracle, classify=c19_ctl_classify, timeout=300,
             nontrivial=lambda l, r: "ops=-" not in l),
        dict(name="prefetch", gen=c19_e2e_gen, oracle=c19_e2e_oracle, compare=c19_e2e_compare,
             classify=c19_e2e_classify, nontrivial=lambda l, r: r.startswith("timing=ok"), timeout=240),
    ],
    rule="needprefetch: one (stored, expire) pair relative to the call instant per case, boundary catalogue (exactly 1/4, "
         "+-1 ns..+-1 s, expire = stored, overdue, negative lifetime, +-2^61) + random; cases whose boundary instant falls "
         "inside the measured call bracket are counted as band-skipped, not as evidence. prefetchctl: one reserve/done "
         "sequence on a real prefetchCtl per case, keys = raw uint64 or real keyForPrefetch(question, group). prefetch: one "
         "real-clock scenario per case on a private in-process router (memory cache) with a scripted upstream; distinct = "
         "distinct case line; cases the harness could not schedule in time are skipped and counted",
    assumptions=["needPrefetch reads the wall/monotonic clock itself: +-1 ns boundaries are observable only as a band; the "
                 "exact rounding is established by the proof on the model and by reading `lifeSpan >> 2`",
                 "keyForPrefetch is a seeded 64-bit hash: distinct (question, group) pairs are assumed not to collide in a "
                 "run (probability ~ cases * 2^-64); a collision could only merge flights",
                 "e2e: loopback delivery, otter's clock lags <= 1 s, a cache hit is served in < 600 ms on this machine "
                 "(checked by a control burst outside the window; otherwise the case is skipped)",
                 "refresh exchanges return by prefetchTimeout (C14)"],
    trusted=["C19: Go mutex atomicity of prefetchCtl.reserve/done and otter Set/SetIfAbsent atomicity are the LTS's atomic "
             "actions; the upstream, the clock, eviction and miss-path stores are environment labels"],
    level_note="proof over all interleavings of the model LTS (any number of hit and refresh threads); the tie to the Go "
               "code is differential on the pure pieces (window test, reserve/done, key function) and scenario-based e2e "
               "with a real clock for the composition; partial: goroutine scheduling itself is sampled, not enumerated",
)


# ---- concurrent reserve stress on the real prefetchCtl (failing-schedule search for C19_single_flight) ----
def c19_stress_gen(rng, tier):
    n = budget(tier, 4, 16)
    return ["rs%d g=%d rounds=%d keys=%d" % (i, rng.choice([16, 64, 128]), budget(tier, 3000, 20000), rng.choice([1, 3, 17]))
            for i in range(n)]


def c19_stress_oracle(line, res):
    f = gens.fields(res)
    if res.startswith("rounds=") and (f.get("multi") != "0" or f.get("zero") != "0"):
        return "concurrent reserve calls for one key: %s rounds with more than one winner (max %s), %s with none" % (
            f.get("multi"), f.get("maxwin"), f.get("zero"))
    return None


PROPS["C19"]["kinds"].append(dict(name="reservestress", gen=c19_stress_gen, oracle=c19_stress_oracle, model=False,
                                  nontrivial=lambda l, r: r.startswith("rounds="), timeout=600))
PROPS["C19"]["rule"] += ("; reservestress: 16-128 goroutines released at once into the real prefetchCtl.reserve for one key, "
                         "thousands of rounds: exactly one winner per round (schedule search for the single-flight invariant)")


# ---- kind prefetchfan: MANY distinct keys in the window at once, upstream stalled (round 2) ----
# The boundary catalogue of N is the point: a hit path that hands the refresh to a bounded worker pool / a limited
# errgroup / an unbuffered channel blocks exactly when N reaches the bound; 63/64/65 and 128 straddle the usual ones,
# 300 and (thorough) 1023..1025, 2000 the rest.
_FAN_N = (1, 2, 63, 64, 65, 128, 300)


def c19_fan_gen(rng, tier):
    base = []
    for n in _FAN_N:
        base.append(("slow", "u", n))
    base += [("silent", "u", 64), ("silent", "t", 65), ("silent", "u", 128), ("silent", "t", 300),
             ("slow", "t", 65), ("slow", "t", 300), ("slow", "u", 1025)]
    for _ in range(2):
        base.append((rng.choice(["slow", "silent"]), rng.choice("ut"), rng.randint(66, 400)))
    if tier == "thorough":
        for n in (3, 32, 33, 100, 127, 129, 255, 256, 257, 511, 512, 513, 1000, 1023, 1024, 2000):
            base.append((rng.choice(["slow", "slow", "silent"]), rng.choice("utp"), n))
        for _ in range(16):
            base.append((rng.choice(["slow", "silent"]), rng.choice("utp"), int(10 ** rng.uniform(0, 3.2))))
    out = []
    for i, (mode, up, n) in enumerate(base):
        tag = bytes(rng.choice(b"abcdefghijklmnopqrstuvwxyz0123456789") for _ in range(8))
        if n <= 128:
            pace = rng.choice([0, 0, 100, 500])      # all at once, or in quick succession
        else:
            pace = rng.choice([200, 300, 500])       # 300 hits within 60..150 ms
        ls = "mixed" if (n > 128 or rng.random() < 0.7) else rng.choice(["udp", "tcp+gnet", "udp+tcp", "http-post+fasthttp-get"])
        delay = 0 if mode == "silent" else 2500 + (n * pace) // 1000
        out.append("f%d mode=%s up=%s n=%d pace=%d delay=%d ls=%s tag=%s stagger=%d" % (
            i, mode, up, n, pace, delay, ls, gens.hx(tag), 120 * (i % 16)))
    return out


def c19_fan_oracle(line, res):
    """independent of the model: what the property demands of the observed run"""
    f = gens.fields(line)
    r = gens.fields(res)
    if r.get("timing") != "ok":
        return None
    n = f["n"]
    full = "%s/%s" % (n, n)
    if r.get("ctl") != full or r.get("ctl_up") != "0":
        return "control: hits on entries with more than a quarter of the lifetime left: %s answered from the cache, %s upstream queries" % (
            r.get("ctl"), r.get("ctl_up"))
    if "ctl_infl" in r:
        return "a key is in flight outside the window"
    if r.get("late") != "0" or r.get("lost") != "0" or r.get("ans") != full:
        return ("%s entries inside their last quarter, upstream stalled, one hit per entry: only %s answered from the cache "
                "within 1 s; %s answered late, %s not at all (first such hit: #%s in send order, worst %s ms; %s refreshes "
                "were in flight) - a cache hit waited for background refreshes" % (
                    n, r.get("ans"), r.get("late"), r.get("lost"), r.get("first_bad"), r.get("worst_ms"), r.get("infl_mid")))
    if r.get("up_max") != "1" and not (r.get("up_max") == "0" and n == "0"):
        return "%s refresh queries for ONE entry while %s entries are being refreshed (at most one per key)" % (r.get("up_max"), n)
    if int(r.get("infl_mid", "0")) > int(n):
        return "in-flight set has %s keys for %s entries" % (r.get("infl_mid"), n)
    if r.get("late2") != "0" or r.get("ans2") != full:
        return "second hit per entry while %s refreshes are in flight: only %s answered from the cache within 1 s (%s late or lost)" % (
            n, r.get("ans2"), r.get("late2"))
    if r.get("up_max2") != "1":
        return "%s refresh queries for one entry after a second hit on it (the first refresh is still in flight)" % r.get("up_max2")
    if int(r.get("infl2", "0")) > int(n):
        return "in-flight set has %s keys for %s entries" % (r.get("infl2"), n)
    if f["mode"] == "slow":
        if r.get("infl_end") != "0":
            return "%s keys still in flight after every refresh was answered" % r.get("infl_end")
        if r.get("after") != full or r.get("renewed") != full:
            return "after %s successful refreshes only %s entries serve the new answer (%s with a renewed TTL)" % (
                n, r.get("after"), r.get("renewed"))
        if int(r.get("up_end", "0")) > int(n):
            return "%s refresh queries for %s entries" % (r.get("up_end"), n)
    else:
        if r.get("infl_to") != "0":
            return "%s keys still in flight after every refresh failed (done not called)" % r.get("infl_to")
        if r.get("old") != full:
            return "after %s failed refreshes only %s old entries are still served" % (n, r.get("old"))
        if r.get("up3_max") != "1":
            return "%s refresh queries for one entry after its failed refresh" % r.get("up3_max")
        if r.get("infl_end") != "0":
            return "%s keys still in flight after the second round of refreshes" % r.get("infl_end")
        if r.get("after") != full or r.get("renewed") != full:
            return "after the upstream recovered only %s entries serve the new answer (%s with a renewed TTL)" % (
                r.get("after"), r.get("renewed"))
    return None


def c19_fan_compare(ir, mr):
    if ir.startswith("timing=bad"):
        return True
    return ir == mr


def c19_fan_classify(line, res):
    f = gens.fields(line)
    n = int(f.get("n", "0"))
    b = "n=1" if n == 1 else "n<64" if n < 64 else "n=64" if n == 64 else "n=65..128" if n <= 128 else "n=129..1024" if n <= 1024 else "n>1024"
    return "%s %s%s" % (f.get("mode", "?"), b, "" if res.startswith("timing=ok") else " timing-bad-skipped")


PROPS["C19"]["kinds"].append(dict(name="prefetchfan", gen=c19_fan_gen, oracle=c19_fan_oracle, compare=c19_fan_compare,
                                  classify=c19_fan_classify, nontrivial=lambda l, r: r.startswith("timing=ok"), timeout=300,
                                  shards=3))
PROPS["C19"]["rule"] += ("; prefetchfan: one real-clock scenario per case on a private in-process router: N distinct entries "
                         "placed inside their last quarter (hook, real cacheKey/packCacheMsg/MemoryCache.Store), upstream "
                         "silent or answering after 2.5 s, one hit per entry in quick succession and concurrently on the real "
                         "listeners, N over the catalogue 1, 2, 63, 64, 65, 128, 300, 1025 + random; every hit answered from "
                         "the cache within 1 s with N refreshes in flight, at most one refresh query per entry, then recovery")
PROPS["C19"]["assumptions"].append(
    "prefetchfan: a cache hit on loopback is answered within 1 s on this machine (checked by a control burst of the same "
    "shape on entries outside the window; otherwise the case is skipped); a hit blocked behind a stalled refresh waits "
    ">= 2.3 s (slow) / 6 s (silent)")


# ---- kind prefetchgrp: the dimension "client groups" (round 3) ----
# An ip marker file is configured (several labelled ranges + unlabelled space); clients of at least two groups are
# simulated (DoH listeners take the client address from a header; no header = no valid address; udp/tcp/gnet
# clients are 127.0.0.1, which some markers label). Group G's entry is inside its last quarter and is hit by G's
# clients; the other groups have their own entry for the same question or none, and their clients are active
# meanwhile. Oracle (property text): later hits of the SAME group see the renewed entry (C19); no other group's
# entry appears or changes (C07); at most one refresh per (question, group); the refresh's upstream query is made on
# behalf of a hitting client (ECS on: its subnet).
import ipaddress as _ip

_GRP_BASE = ("# c19 client groups\n"
             "10.0.0.0,10.255.255.255,lan\n"
             "\n"
             "192.168.0.0,192.168.255.255,guest   # visitors\n"
             "2001:db8::,2001:db8::ffff,lan\n"
             "172.16.0.0,172.16.255.255,a\n"
             "172.17.0.0,172.17.255.255,ab\n")
_GRP_MARKERS = {"base": _GRP_BASE, "loop": _GRP_BASE + "127.0.0.0,127.255.255.255,loop\n"}
_GRP_HTTP = ("http-post", "fasthttp-get", "http-get", "fasthttp-post")


def _grp_num(a):
    ip = _ip.ip_address(a)
    if ip.version == 4:
        return (0xffff << 32) | int(ip)
    return int(ip)


def _grp_parse_marker(text):
    out = []
    for line in text.split("\n"):
        t = line.split("#")[0].strip()
        if not t:
            continue
        a, b, lab = t.split(",", 2)
        out.append((_grp_num(a), _grp_num(b), lab))
    return out


def _grp_client_addr(cl):
    l, a = cl.split("@", 1)
    if not (l.startswith("http") or l.startswith("fasthttp")):
        return "127.0.0.1"
    return None if a == "-" else a


def _grp_of(ranges, cl):
    """the client group of 'listener@address' under the marker: label of the range containing the address, '' else"""
    a = _grp_client_addr(cl)
    if a is None:
        return ""
    x = _grp_num(a)
    for lo, hi, lab in ranges:
        if lo <= x <= hi:
            return lab
    return ""


def _grp_rand_addr(rng, role):
    if role == "lan":
        k = rng.random()
        if k < 0.5:
            return "10.%d.%d.%d" % (rng.randint(0, 255), rng.randint(0, 255), rng.randint(0, 255))
        if k < 0.7:
            return "2001:db8::%x" % rng.randint(0, 0xffff)
        if k < 0.85:
            return "::ffff:10.%d.%d.%d" % (rng.randint(0, 255), rng.randint(0, 255), rng.randint(0, 255))
        return rng.choice(["10.0.0.0", "10.255.255.255", "2001:db8::", "2001:db8::ffff"])
    if role == "guest":
        return rng.choice(["192.168.0.0", "192.168.255.255", "192.168.1.1",
                           "192.168.%d.%d" % (rng.randint(0, 255), rng.randint(0, 255))])
    if role == "a":
        return "172.16.%d.%d" % (rng.randint(0, 255), rng.randint(0, 255))
    if role == "ab":
        return "172.17.%d.%d" % (rng.randint(0, 255), rng.randint(0, 255))
    if role == "loopaddr":
        return "127.%d.%d.%d" % (rng.randint(0, 255), rng.randint(0, 255), rng.randint(1, 254))
    if role == "out":      # valid, in no range (some right next to one)
        return rng.choice(["8.8.8.8", "9.9.9.9", "11.0.0.0", "9.255.255.255", "192.169.0.0", "172.18.0.0", "172.15.255.255",
                           "2001:db8::1:0", "2001:db9::1", "::ffff:11.1.1.1", "203.0.113.%d" % rng.randint(1, 254)])
    raise ValueError(role)


def _grp_clients(rng, role, n, marker):
    """n clients 'listener@address' of one group"""
    out = []
    for i in range(n):
        if role == "loop":       # marker 'loop': the socket listeners' clients are labelled
            l = rng.choice(["udp", "tcp", "gnet", "http-post", "fasthttp-get"]) if i >= 3 else ["udp", "tcp", "gnet"][i]
            out.append("%s@%s" % (l, _grp_rand_addr(rng, "loopaddr") if l in _GRP_HTTP else "127.0.0.1"))
        elif role == "none-valid":
            if marker == "base" and rng.random() < 0.4:
                out.append("%s@127.0.0.1" % rng.choice(["udp", "tcp", "gnet"]))
            else:
                out.append("%s@%s" % (rng.choice(_GRP_HTTP), _grp_rand_addr(rng, "out")))
        elif role == "none-invalid":
            out.append("%s@-" % rng.choice(_GRP_HTTP))
        elif role == "none":     # both kinds (only for groups that do not hit in the window)
            out.append(_grp_clients(rng, rng.choice(["none-valid", "none-invalid"]), 1, marker)[0])
        else:
            out.append("%s@%s" % (rng.choice(_GRP_HTTP), _grp_rand_addr(rng, role)))
    return out


def c19_grp_gen(rng, tier):
    # (mode, upstream, ecs, marker, hitting role, number of hitting clients, [(other role, state)])
    base = [
        ("slow", "u", 0, "base", "lan", 3, [("guest", "fresh"), ("none", "absent")]),
        ("slow", "t", 1, "base", "lan", 8, [("guest", "absent"), ("none", "fresh"), ("a", "fresh"), ("ab", "absent")]),
        ("slow", "u", 1, "loop", "loop", 4, [("none", "absent"), ("lan", "fresh")]),
        ("slow", "u", 1, "base", "lan", 20, [("guest", "absent"), ("none", "absent")]),
        ("slow", "t", 0, "base", "ab", 2, [("a", "fresh"), ("none", "absent")]),
        ("slow", "u", 1, "base", "a", 2, [("ab", "absent"), ("none", "absent"), ("lan", "fresh")]),
        ("slow", "u", 0, "base", "none-valid", 3, [("lan", "fresh"), ("guest", "absent")]),
        ("slow", "t", 1, "base", "none-invalid", 3, [("lan", "absent"), ("guest", "fresh")]),
        ("slow", "u", 1, "base", "lan", 3, [("guest", "window"), ("none", "absent")]),
        ("slow", "t", 0, "loop", "guest", 2, [("loop", "window"), ("lan", "window"), ("none", "absent")]),
        ("slow", "u", 1, "base", "a", 2, [("none-invalid", "window"), ("ab", "fresh")]),
        ("fast", "u", 0, "base", "guest", 1, [("lan", "fresh"), ("none", "absent")]),
        ("fast", "t", 1, "base", "lan", 1, [("guest", "absent"), ("none", "absent")]),
        ("neg", "u", 0, "base", "lan", 1, [("none", "absent"), ("guest", "fresh")]),
        ("neg", "t", 1, "loop", "loop", 1, [("none", "absent"), ("lan", "absent")]),
        ("fail", "t", 0, "base", "guest", 1, [("none", "absent"), ("lan", "fresh")]),
        ("fail", "t", 1, "base", "lan", 2, [("none", "absent")]),
    ]
    roles = ["lan", "guest", "a", "ab", "none"]
    extra = budget(tier, 2, 30)
    for _ in range(extra):
        marker = rng.choice(["base", "base", "loop"])
        g = rng.choice(["lan", "lan", "guest", "a", "ab", "none-valid", "none-invalid"] + (["loop"] * 2 if marker == "loop" else []))
        gg = "none" if g.startswith("none") else g
        rest = [r for r in roles + (["loop"] if marker == "loop" else []) if r != gg]
        rng.shuffle(rest)
        mode = rng.choice(["slow", "slow", "slow", "fast", "neg", "fail"])
        oth = [(r, rng.choice(["fresh", "absent"] + (["window"] if mode == "slow" else []))) for r in rest[:rng.randint(1, 3)]]
        oth = [((rng.choice(["none-valid", "none-invalid"]) if (r == "none" and st == "window") else r), st) for r, st in oth]
        up = "t" if mode == "fail" else rng.choice("ut")
        n = 1 if mode != "slow" else rng.choice([1, 2, 5, 12])
        base.append((mode, up, rng.randint(0, 1), marker, g, n, oth))
    out = []
    for i, (mode, up, ecs, marker, g, n, oth) in enumerate(base):
        text = _GRP_MARKERS[marker]
        ranges = _grp_parse_marker(text)
        hit = _grp_clients(rng, g, n, marker)
        later = _grp_clients(rng, g, 3, marker)
        gl = _grp_of(ranges, hit[0])
        assert all(_grp_of(ranges, c) == gl for c in hit + later), (g, hit, later)
        seen = {gl}
        os_ = []
        for role, st in oth:
            cs = _grp_clients(rng, role, rng.randint(1, 3), marker)
            ol = _grp_of(ranges, cs[0])
            assert all(_grp_of(ranges, c) == ol for c in cs) and ol not in seen, (role, cs, seen)
            seen.add(ol)
            os_.append("%s:%s" % (st, "+".join(cs)))
        tag = bytes(rng.choice(b"abcdefghijklmnopqrstuvwxyz0123456789") for _ in range(8))
        delay = {"slow": 1200, "fast": 0, "neg": 100, "fail": 0}[mode]
        out.append("g%d mode=%s up=%s ecs=%d mk=%s hit=%s later=%s oth=%s delay=%d tag=%s stagger=%d" % (
            i, mode, up, ecs, gens.hx(text.encode()), "+".join(hit), "+".join(later), ",".join(os_) or "-", delay,
            gens.hx(tag), 100 * (i % 16)))
    return out


def _grp_case(line):
    f = gens.fields(line)
    text = bytes.fromhex(f["mk"]).decode() if f.get("mk", "-") not in ("-", "") else ""
    ranges = _grp_parse_marker(text)
    hit = f["hit"].split("+")
    later = f["later"].split("+")
    oth = []
    if f.get("oth", "-") != "-":
        for o in f["oth"].split(","):
            st, cl = o.split(":", 1)
            oth.append((st, cl.split("+")))
    return f, ranges, hit, later, oth


def c19_grp_oracle(line, res):
    """independent of the model: what the property text demands of the observed run"""
    r = gens.fields(res)
    if r.get("timing") != "ok":
        return None
    f, ranges, hit, later, oth = _grp_case(line)
    mode = f["mode"]
    g = _grp_of(ranges, hit[0])
    gname = "'%s'" % g
    nfresh = sum(1 for st, _ in oth if st == "fresh")
    mfresh = sum(len(cs) for st, cs in oth if st in ("fresh", "window"))
    nwin = sum(1 for st, _ in oth if st == "window")     # groups whose own entry is in its last quarter as well
    nref = 1 + nwin
    if r.get("setup") != "%d/%d" % (nfresh, nfresh) or r.get("setup_up") != str(nfresh):
        return ("setup: the first query of %d client groups that never asked before: %s answered by the upstream, %s upstream "
                "queries (an answer cached for one group was served to another)" % (nfresh, r.get("setup"), r.get("setup_up")))
    if r.get("ans") != "%d/%d" % (len(hit), len(hit)):
        return "hits of group %s inside the last quarter of its entry: %s answered with the group's cached answer" % (gname, r.get("ans"))
    if r.get("oth") != "%d/%d" % (mfresh, mfresh):
        return "concurrent hits of the other groups on their own entries: %s answered with their own answer" % r.get("oth")
    if mode == "slow":
        if int(r.get("up_mid", "0")) > nref:
            return "%s refresh queries for concurrent hits of %d (question, group) pairs inside their last quarter (at most one each)" % (
                r.get("up_mid"), nref)
        if int(r.get("infl_mid", "0")) > nref:
            return "in-flight set has %s keys while the refreshes of %d groups are running" % (r.get("infl_mid"), nref)
    if r.get("infl_end") != "0":
        return "the key stayed in flight after the refresh ended"
    if int(r.get("up_end", "0")) > nref:
        return "%s upstream queries for %d refreshes (one per (question, group))" % (r.get("up_end"), nref)
    ls = (r.get("later") or "").split(",")
    if mode in ("slow", "fast"):
        if ls != ["B:r"] * len(later):
            return ("after a successful refresh started by a hit of group %s, later hits of the SAME group got %s "
                    "(expected the refreshed answer with a renewed TTL for each: the refresh was not stored under the "
                    "group of the hit that started it)" % (gname, r.get("later")))
        if int(r.get("up_after", "0")) > nref:
            return "%s upstream queries in total for %d refreshes: a hit on the renewed entry started another refresh" % (r.get("up_after"), nref)
    else:
        if ls[:1] != ["A:a"]:
            return "after a %s refresh the group's old entry is not served unchanged (%s)" % (
                "negative" if mode == "neg" else "failed", r.get("later"))
        if r.get("up2") != "1":
            return "%s refresh queries for the next hit in the window" % r.get("up2")
        if ls[1:] != ["B:r"] * (len(later) - 1):
            return "after the second (successful) refresh later hits of group %s got %s" % (gname, r.get("later"))
    oa = (r.get("oth_after") or "-")
    oa = [] if oa == "-" else oa.split(",")
    if len(oa) != len(oth):
        return "unparsable result"
    nabs = 0
    for (st, cs), got in zip(oth, oa):
        og = "'%s'" % _grp_of(ranges, cs[0])
        if st == "window":
            if got != "B" * len(cs):
                return ("group %s's own entry was inside its last quarter and hit by its clients at the same time as group %s's: "
                        "after both refreshes its clients got %s (its own successful refresh must renew ITS entry)" % (og, gname, got))
        elif st == "fresh":
            if got != "C" * len(cs):
                return ("group %s had its own cached answer for the question; after the refresh started by group %s its clients "
                        "got %s (another group's refresh changed or replaced its entry)" % (og, gname, got))
        else:
            nabs += 1
            if got != "D" * len(cs):
                return ("group %s never asked the question, yet after the refresh started by a hit of group %s its clients got %s "
                        "instead of the upstream's current answer D: a cached answer went to a different client group" % (og, gname, got))
    if r.get("oth_up") != str(nabs):
        return "%s upstream queries for the first questions of %d groups without an entry" % (r.get("oth_up"), nabs)
    want_ecs = "+".join(sorted(("own" if (f["ecs"] == "1" and _grp_client_addr(cs[0]) is not None) else "none")
                               for cs in [hit] + [cs for st, cs in oth if st == "window"]))
    if r.get("ecs") != want_ecs and len((r.get("ecs") or "").split("+")) == nref:
        return ("the refresh queries carry ECS '%s', expected '%s': a refresh must be made on behalf of the client whose hit "
                "started it (group %s)" % (r.get("ecs"), want_ecs, gname))
    if r.get("final") != "B:r":
        return "group %s's renewed entry was disturbed by the other groups' queries (%s)" % (gname, r.get("final"))
    if r.get("infl_final") != "0":
        return "%s keys in flight at the end" % r.get("infl_final")
    if r.get("churn_bad") != "0":
        return "%s answers to clients of other groups during the refresh were not their own group's" % r.get("churn_bad")
    return None


def c19_grp_compare(ir, mr):
    if ir.startswith("timing=bad"):
        return True
    return ir == mr


def c19_grp_classify(line, res):
    try:
        f, ranges, hit, later, oth = _grp_case(line)
    except Exception:
        return "unparsed"
    g = _grp_of(ranges, hit[0])
    gk = "G=labelled" if g else ("G=unlabelled" if _grp_client_addr(hit[0]) is not None else "G=no-address")
    sock = "+socket-clients" if any(not (c.startswith("http") or c.startswith("fasthttp")) for c in hit) else ""
    return "%s %s%s ecs=%s others=%s%s" % (f.get("mode", "?"), gk, sock, f.get("ecs"),
                                           "+".join(sorted(set(st for st, _ in oth))) or "-",
                                           "" if res.startswith("timing=ok") else " timing-bad-skipped")


PROPS["C19"]["kinds"].append(dict(name="prefetchgrp", gen=c19_grp_gen, oracle=c19_grp_oracle, compare=c19_grp_compare,
                                  classify=c19_grp_classify, nontrivial=lambda l, r: r.startswith("timing=ok"), timeout=300))
PROPS["C19"]["rule"] += ("; prefetchgrp: one real-clock scenario per case on a private in-process router with an ip marker file "
                         "(labelled ranges + unlabelled space, optionally ECS): clients of >= 2 client groups (DoH client-address "
                         "header, no header, socket listeners), one group's entry inside its last quarter hit by its clients "
                         "while the other groups (own entry / none) are active, upstream slow / fast / negative / failing; "
                         "later hits of the same group see the renewed entry, no other group's view changes, one refresh per "
                         "(question, group), refresh query on behalf of a hitting client")
PROPS["C19"]["assumptions"].append(
    "prefetchgrp: the DoH listeners are configured with a client-address header (the harness plays the trusted front-end); "
    "the fake upstream's answer depends on the question only, so a group's view is identified by which scripted answer "
    "(A, B, C, D) it is served")
PROPS["C19"]["level_note"] += ("; client groups (round 3): the (question, group) key is explicit in Router/PrefetchGroups.v "
                               "(group = ip-marker label through C07's mark_of): a successful refresh stores under the key of the "
                               "hit that started it, every client of that group sees the renewed entry, no other group's view "
                               "changes (proved); that the Go goroutine really carries the client address as a value copied at "
                               "spawn time (and not the pooled request context) is tested by kind prefetchgrp, and the re-reading "
                               "design is refuted on the model")


# ---- kind prefetchcost: the resource limiter x cache / prefetch (round 6) ----
# The running router gets limiter buckets that do not refill (hook); every op is one query through a real listener; after
# each op (and after the refresh it started has ended) the tokens left are read. Oracle (property text: the hit is answered
# immediately from cache whatever the refresh does; a failed refresh leaves the entry usable): a hit inside the refresh
# window costs its client exactly what the same hit outside the window costs (control in the same run), whatever the
# refresh's fate; with a budget sized for N hits outside + N hits inside the window, all 2N are answered from the cache.
_COST_HIT = {"udp": 2, "tcp": 6, "gnet": 4, "http": 3, "fasthttp": 1}     # per bucket, for sizing budgets only


def _cost_lkind(l):
    return "fasthttp" if l.startswith("fasthttp") else ("http" if l.startswith("http") else l)


def c19_cost_gen(rng, tier):
    out = []

    def clients(n, with_invalid=True):
        cs = []
        for i in range(n):
            k = rng.random()
            if k < 0.4:
                cs.append("%s@127.0.0.1" % rng.choice(["udp", "tcp", "gnet"]))
            elif k < 0.85 or not with_invalid:
                l = rng.choice(_GRP_HTTP)
                a = ("10.%d.%d.%d" % (20 + i, rng.randint(0, 255), rng.randint(1, 254))) if rng.random() < 0.8 else (
                    "2001:db8:%x::%x" % (0x100 + i, rng.randint(1, 0xffff)))
                cs.append("%s@%s" % (l, a))
            else:
                cs.append("%s@-" % rng.choice(_GRP_HTTP))
        return cs

    base = [  # (up, rf, glob, clients, ops)
        ("u", "servfail", 0, ["udp@127.0.0.1"], "H@0,W@0,W@0,W@0,M@0,H@0,W@0"),
        ("u", "servfail", 1, ["http-post@10.1.2.3", "udp@127.0.0.1"], "H@0,W@0,H@1,W@1,W@0,M@0,M@1,W@0"),
        ("t", "fail", 0, ["tcp@127.0.0.1", "fasthttp-get@10.9.8.7"], "H@0,H@1,W@0,W@1,W@0,W@1"),
        ("u", "ok", 1, ["gnet@127.0.0.1", "http-get@2001:db8:7::1"], "M@0,H@0,W@0,H@1,W@1,W@0"),
        ("t", "slow", 0, ["http-get@10.4.4.4", "http-post@10.4.5.4", "fasthttp-post@-"], "H@0,W@0,H@1,W@1,H@2,W@2"),
        ("u", "nx", 1, ["tcp@127.0.0.1"], "H@0,W@0,W@0,M@0"),
    ]
    for _ in range(budget(tier, 6, 40)):
        cs = clients(rng.randint(1, 3))
        ops = []
        for _ in range(rng.randint(6, 14)):
            ops.append((rng.choice("MHWWW"), rng.randrange(len(cs))))
        for i in set(c for k, c in ops if k == "W"):      # a control for every client that hits inside the window
            if ("H", i) not in ops:
                ops.insert(rng.randrange(len(ops) + 1), ("H", i))
        rf = rng.choice(["servfail", "servfail", "nx", "ok", "fail", "slow"])
        if rf == "slow":
            ops = ops[:8] + [o for o in ops[8:] if o[0] != "W"]
        up = "t" if rf == "fail" else rng.choice("ut")
        base.append((up, rf, rng.randint(0, 1), cs, ",".join("%s@%d" % o for o in ops)))
    n = 0
    for up, rf, glob, cs, ops in base:
        tag = bytes(rng.choice(b"abcdefghijklmnopqrstuvwxyz0123456789") for _ in range(8))
        out.append("a%d mode=acct up=%s rf=%s glob=%d burst=100000 cl=%s ops=%s tag=%s stagger=%d" % (
            n, up, rf, glob, "+".join(cs), ops, gens.hx(tag), 60 * (n % 16)))
        n += 1
    # budget: N hits outside the window (they calibrate: half of the budget pays for them), then the same N hits inside it
    bud = [("udp@127.0.0.1", 5, "servfail", "u", 1), ("tcp@127.0.0.1", 4, "fail", "t", 0), ("http-post@10.1.2.3", 5, "servfail", "u", 0),
           ("gnet@127.0.0.1", 6, "nx", "t", 1), ("fasthttp-get@10.7.7.7", 8, "servfail", "u", 0), ("udp@127.0.0.1", 12, "nx", "t", 0)]
    for _ in range(budget(tier, 2, 20)):
        c = clients(1, with_invalid=False)[0]
        rf = rng.choice(["servfail", "nx", "fail"])
        sock = c.endswith("@127.0.0.1")
        bud.append((c, rng.choice([3, 5, 8, 13]), rf, "t" if rf == "fail" else rng.choice("ut"), rng.randint(0, 1) if sock else 0))
    for c, nh, rf, up, glob in bud:
        tag = bytes(rng.choice(b"abcdefghijklmnopqrstuvwxyz0123456789") for _ in range(8))
        burst = 2 * nh * _COST_HIT[_cost_lkind(c.split("@")[0])]
        out.append("b%d mode=budget up=%s rf=%s glob=%d burst=%d cl=%s ops=%s tag=%s stagger=%d" % (
            n, up, rf, glob, burst, c, ",".join(["H@0"] * nh + ["W@0"] * nh), gens.hx(tag), 60 * (n % 16)))
        n += 1
    return out


def _cost_parse(line, res):
    f = gens.fields(line)
    r = gens.fields(res)
    ops = [(o.split("@")[0], int(o.split("@")[1])) for o in f["ops"].split(",")]
    rs = [x.split(":") for x in r["r"].split(",")]
    # answers "E:<why>" contain a colon: re-join
    rs = [([x[0] + ":" + x[1]] + x[2:]) if x[0] == "E" else x for x in rs]
    if len(rs) != len(ops) or any(len(x) != 5 for x in rs):
        raise ValueError("unparsable")
    return f, ops, rs


def c19_cost_oracle(line, res):
    """independent of the model and of the cost table: controls inside the run"""
    if res.startswith("timing=bad"):
        return None
    try:
        f, ops, rs = _cost_parse(line, res)
    except Exception:
        return "unparsable result"
    cls = f["cl"].split("+")
    ctl = {}
    for (k, c), x in zip(ops, rs):
        if k == "H" and x[0] == "A" and c not in ctl:
            ctl[c] = x
    if f["mode"] == "budget":
        nh = sum(1 for kk, _ in ops if kk == "H")
        if sum(1 for (kk, _), xx in zip(ops, rs) if kk == "H" and xx[0] == "A") != nh:
            return None          # the calibration itself failed: left to the comparison with the model
        badw = [(i, c, x) for i, ((k, c), x) in enumerate(zip(ops, rs)) if k == "W" and x[0] != "A"]
        if badw:
            i, c, x = badw[0]
            return ("client %s, budget of %s tokens: %d hits outside the refresh window were answered from the cache with half "
                    "of it; of the same %d hits INSIDE the window (upstream answers every refresh with %s) %d were not answered "
                    "from the cache (first: #%d, got %s): failing background refreshes used up the client's budget" % (
                        cls[c], f["burst"], nh, nh, f["rf"], len(badw), i - nh + 1, x[0]))
    for i, ((k, c), x) in enumerate(zip(ops, rs)):
        if k != "W":
            continue
        if x[0] != "A":
            return "hit #%d of %s inside the refresh window was not answered from the cache (%s)" % (i, cls[c], x[0])
        if c in ctl and x[1:4] != ctl[c][1:4]:
            return ("a hit of %s inside the refresh window (refresh: %s) was charged client/peer/global = %s; the same hit outside "
                    "the window costs %s: the background refresh is paid by the client whose hit started it" % (
                        cls[c], f["rf"], "/".join(x[1:4]), "/".join(ctl[c][1:4])))
        if int(x[4]) > 1:
            return "%s refresh queries for one hit" % x[4]
    return None


def c19_cost_compare(ir, mr):
    return ir.startswith("timing=bad") or ir == mr


def c19_cost_classify(line, res):
    f = gens.fields(line)
    ls = sorted(set(_cost_lkind(c.split("@")[0]) for c in f.get("cl", "").split("+")))
    return "%s rf=%s glob=%s %s%s" % (f.get("mode"), f.get("rf"), f.get("glob"), "+".join(ls),
                                      " timing-bad-skipped" if res.startswith("timing=bad") else "")


PROPS["C19"]["kinds"].append(dict(name="prefetchcost", gen=c19_cost_gen, oracle=c19_cost_oracle, compare=c19_cost_compare,
                                  classify=c19_cost_classify, nontrivial=lambda l, r: r.startswith("r="), timeout=300))
PROPS["C19"]["rule"] += ("; prefetchcost: one run per case on a private in-process router whose limiter buckets do not refill (hook): "
                         "a sequence of misses, hits and hits inside the refresh window (refresh answered ok / SERVFAIL / NXDOMAIN / "
                         "slowly / failing) by 1-3 clients through real listeners, tokens read after every op; acct: huge burst, "
                         "charges compared with the model's cost function; budget: burst sized exactly for N hits outside + N inside "
                         "the window")
PROPS["C19"]["assumptions"].append(
    "prefetchcost: limiter buckets built by the router's own constructors with a refill rate of 1e-4 tokens/s (the configuration "
    "allows whole tokens per second only); the transport cost table (per listener) is C15's matter and is mirrored, quirks included")
PROPS["C19"]["level_note"] += ("; limiter (round 6): the charge to a client is a function of its own requests only, refreshes cost "
                               "nobody anything (proved on Router/PrefetchCost.v, charging inside forward() refuted); tied to the code "
                               "by kind prefetchcost, which reads the real buckets")
