import os
import struct
import subprocess
import sys

import gens
from props import PROPS, budget

# ---------------------------------------------------------------- C08: cache lifetime policy, TTL ageing, expiry
U32 = 4294967295
TTL_CAT = [0, 1, 2, 4, 5, 6, 29, 30, 31, 59, 60, 300, 21599, 21600, 21601, 86400,
           2147483647, 2147483648, 2147483649, U32 - 1, U32]
# cfg.MaximumTTL (Go int, seconds): absent/0 and negative -> default 6 h; small caps; around the default; beyond uint32;
# the largest value whose product with 1e9 fits int64; the first that wraps negative (-> default); one that wraps
# to 0.29 s (a cap below 1 s)
MAXTTL_CAT = [0, 0, 0, -5, 1, 2, 10, 30, 3600, 21600, 86400, 2147483648, U32, U32 + 1, 9223372036, 9223372037,
              18446744074]
RR_TYPES = [1, 28, 16, 65280, 6, 6]      # 6 = SOA: its MINIMUM field is NOT a TTL (seed C08-S cached NODATA answers for MINIMUM)


def rdata_for(typ, rng):
    if typ == 1:
        return bytes(rng.randrange(256) for _ in range(4))
    if typ == 28:
        return bytes(rng.randrange(256) for _ in range(16))
    if typ == 16:
        s = bytes(rng.randrange(97, 123) for _ in range(rng.randrange(0, 12)))
        return bytes([len(s)]) + s
    if typ == 6:
        return b"\x02ns\x00" + b"\x04root\x00" + struct.pack(">IIIII", rng.randrange(1 << 32), 7200, 900, 1209600,
                                                             rng.choice([0, 1, 60, 3600, 86400, (1 << 32) - 1]))
    return bytes(rng.randrange(256) for _ in range(rng.randrange(0, 9)))


def c08_msg(rng, rcode, tc, secs, opt=None, ident=None):
    """secs = (an_ttls, ns_ttls, ar_ttls); opt = None | (position in AR, opt ttl field)"""
    name = gens.raw_name([b"c08", bytes(rng.randrange(97, 123) for _ in range(rng.randrange(1, 6)))]) + b"\0"
    bits = 0x8180 | (rcode & 15) | (0x0200 if tc else 0)
    ar = list(secs[2])
    recs = []
    for si, ttls in enumerate((secs[0], secs[1], ar)):
        rr = []
        for t in ttls:
            typ = rng.choice(RR_TYPES)
            rd = rdata_for(typ, rng)
            rr.append(name + struct.pack(">HHIH", typ, 1, t, len(rd)) + rd)
        recs.append(rr)
    if opt is not None:
        pos, ottl = opt
        o = b"\0" + struct.pack(">HHIH", 41, 1232, ottl, 0)
        recs[2].insert(min(pos, len(recs[2])), o)
    b = struct.pack(">HHHHHH", rng.randrange(65536) if ident is None else ident, bits, 1,
                    len(recs[0]), len(recs[1]), len(recs[2]))
    b += name + struct.pack(">HH", 1, 1)
    for rr in recs:
        for r in rr:
            b += r
    return b


def rand_secs(rng, cat=TTL_CAT):
    shape = rng.choice(["none", "an1", "an", "ns", "ar", "all", "all"])
    pick = lambda n: [rng.choice(cat) if rng.random() < 0.8 else rng.randrange(U32 + 1) for _ in range(n)]
    if shape == "none":
        return ([], [], [])
    if shape == "an1":
        return (pick(1), [], [])
    if shape == "an":
        return (pick(rng.randrange(1, 5)), [], [])
    if shape == "ns":
        return ([], pick(rng.randrange(1, 3)), [])
    if shape == "ar":
        return ([], [], pick(rng.randrange(1, 3)))
    return (pick(rng.randrange(0, 4)), pick(rng.randrange(0, 3)), pick(rng.randrange(0, 3)))


def rand_opt(rng):
    if rng.random() < 0.5:
        return None
    return (rng.randrange(0, 3), rng.choice([0, 0, 1, 32768, U32]))


# ---------------- policy
def c08_policy_gen(rng, tier):
    out = []
    n = 0

    def add(tag, maxttl, pre, nil, msg):
        nonlocal n
        out.append("%s%d maxttl=%d pre=%s nil=%d msg=%s" % (tag, n, maxttl, pre, nil, gens.hx(msg) if msg else "-"))
        n += 1

    # boundary catalogue: every rcode x {no record, OPT only, each catalogue TTL} under the default maximum
    for rcode in range(16):
        add("b", 0, "none", 0, c08_msg(rng, rcode, False, ([], [], [])))
        add("b", 0, "none", 0, c08_msg(rng, rcode, False, ([], [], []), opt=(0, 0)))
        for t in TTL_CAT:
            add("b", 0, "none", 0, c08_msg(rng, rcode, False, ([t], [], [])))
    # every configured maximum x TTLs around it
    for mx in sorted(set(MAXTTL_CAT)):
        for t in (0, 1, 29, 31, 21599, 21601, U32):
            add("m", mx, "none", 0, c08_msg(rng, 0, False, ([t], [], [])))
        for t in (mx - 1, mx, mx + 1):
            if 0 <= t <= U32:
                add("m", mx, "none", 0, c08_msg(rng, 0, False, ([t], [], [])))
        add("m", mx, "none", 0, c08_msg(rng, 3, False, ([], [], [])))
    # TC / nil / set-if-absent
    for pre in ("none", "pos", "neg"):
        add("t", 0, pre, 1, None)
        for rcode in (0, 2, 3, 5):
            add("t", 0, pre, 0, c08_msg(rng, rcode, True, ([60], [], [])))
            add("t", 0, pre, 0, c08_msg(rng, rcode, False, ([60], [], [])))
            add("t", 0, pre, 0, c08_msg(rng, rcode, False, ([], [], [])))
    # random
    for _ in range(budget(tier, 2500, 60000)):
        rcode = rng.choice([0, 0, 0, 2, 3, 3, 5, rng.randrange(16)])
        tc = rng.random() < 0.07
        mx = rng.choice(MAXTTL_CAT)
        pre = rng.choice(["none", "none", "pos", "neg"])
        if rng.random() < 0.02:
            add("r", mx, pre, 1, None)
        elif rng.random() < 0.1:
            add("g", mx, pre, 0, gens.gen_msg(rng, response=True, max_rr=4))
        else:
            add("r", mx, pre, 0, c08_msg(rng, rcode, tc, rand_secs(rng), opt=rand_opt(rng)))
    return out


def hdr_bits(line):
    f = gens.fields(line)
    m = f.get("msg", "-")
    if m == "-" or len(m) < 8:
        return None
    return int(m[4:8], 16)


def c08_policy_oracle(line, res):
    """the parts of the property that need no lifetime table: TC / nil never stored, error never displaces positive"""
    f = gens.fields(line)
    r = gens.fields(res)
    if "stored" not in r:
        return None
    bits = hdr_bits(line)
    if f.get("nil") == "1":
        if r["stored"] == "new":
            return "a nil response was stored"
        return None
    if bits is None:
        return None
    if bits & 0x0200 and r["stored"] == "new":
        return "a truncated response was stored"
    if f.get("pre") == "pos" and (bits & 15) != 0 and r["stored"] == "new":
        return "an error response (rcode %d) displaced a live positive entry" % (bits & 15)
    if r["stored"] == "new" and int(r["L"]) <= 0:
        return "non-positive lifetime"
    return None


def c08_policy_compare(ir, mr):
    if mr.endswith(" wrap=1"):
        # lifetime within a day of 2^32 s: otter's uint32 expiration wraps below its clock unless the process is in its
        # first second, the entry is then expired at once (never served: harmless for C08)
        mr = mr[:-7]
        return ir == mr or ir.startswith("stored=none ")
    return ir == mr


def c08_policy_respec(line, res):
    r = gens.fields(res)
    if "stored" not in r:
        return None
    return "%s istored=%s il=%s" % (line, r["stored"], r["L"])


def c08_policy_classify(line, res):
    f = gens.fields(line)
    r = gens.fields(res)
    if "stored" not in r:
        return res.split(" ")[0][:20]
    L = int(r["L"])
    cls = "none" if r["stored"] == "none" else r["stored"] + (
        "/1s" if L == 10 ** 9 else "/5s" if L == 5 * 10 ** 9 else "/30s" if L == 30 * 10 ** 9 else
        "/6h" if L == 21600 * 10 ** 9 else "/sub-second" if L < 10 ** 9 else "/other")
    return "pre=%s %s" % (f.get("pre"), cls)


# ---------------- ttl
def c08_ttl_gen(rng, tier):
    out = []
    n = 0
    small = [0, 1, 2, 3, 5, 10, 60, 300, U32 - 1, U32, 2147483648]
    # boundary: delta around every TTL of the message, 0 and 2^32-1
    for _ in range(budget(tier, 60, 600)):
        secs = rand_secs(rng, small)
        m = c08_msg(rng, rng.choice([0, 3]), False, secs, opt=rand_opt(rng))
        ttls = sorted(set(secs[0] + secs[1] + secs[2]))
        deltas = {0, 1, U32, 2147483648}
        for t in ttls:
            deltas.update(d for d in (t - 1, t, t + 1) if 0 <= d <= U32)
        for d in sorted(deltas):
            out.append("s%d mode=sub delta=%d msg=%s" % (n, d, gens.hx(m)))
            n += 1
        out.append("n%d mode=min msg=%s" % (n, gens.hx(m)))
        n += 1
    for _ in range(budget(tier, 1500, 40000)):
        r = rng.random()
        if r < 0.1:
            m = gens.gen_msg(rng, response=True, max_rr=5)
        else:
            m = c08_msg(rng, rng.choice([0, 0, 3, 2]), rng.random() < 0.05, rand_secs(rng), opt=rand_opt(rng))
        if rng.random() < 0.3:
            out.append("n%d mode=min msg=%s" % (n, gens.hx(m)))
        else:
            d = rng.choice([0, 1, 2, 30, 21600, U32, rng.randrange(U32 + 1), rng.choice(TTL_CAT)])
            out.append("s%d mode=sub delta=%d msg=%s" % (n, d, gens.hx(m)))
        n += 1
    # ageing through the real cacheCtl.Get: the entry's storedTime lies `age` in the past (whole seconds + 0.4 s)
    for _ in range(budget(tier, 250, 4000)):
        secs = rand_secs(rng, small + [4, 7])
        m = c08_msg(rng, rng.choice([0, 0, 3]), False, secs, opt=rand_opt(rng))
        ttls = sorted(set(secs[0] + secs[1] + secs[2]))
        ks = [0, 1, 2, 16777215, 16777216, 2147483648, U32 - 1] + [t + d for t in ttls for d in (-1, 0, 1)]
        k = rng.choice([x for x in ks if 0 <= x <= U32 - 1])
        out.append("a%d mode=age age=%d msg=%s" % (n, k * 1000 + rng.choice([300, 400, 500, 600]), gens.hx(m)))
        n += 1
    return out


def c08_ttl_respec(line, res):
    r = gens.fields(res)
    if "ttls" not in r:
        return None
    return "%s ittls=%s irest=%s" % (line, r["ttls"], r.get("rest", "?"))


def c08_ttl_oracle(line, res):
    if "rest=CHANGED" in res:
        return "something besides the TTLs changed"
    return None


def c08_ttl_classify(line, res):
    f = gens.fields(line)
    return "%s %s" % (f.get("mode"), res.split("=")[0][:12])


# ---------------- cachehist (real time)
def prop_lifetime_ms(maxttl_cfg, rcode, ttls):
    """the PROPERTY's table (independent of the model): lifetime bound in ms"""
    mx = maxttl_cfg * 1000 if 0 < maxttl_cfg <= 9223372036 else 21600 * 1000
    if rcode == 0:
        base = max(1000, min(ttls) * 1000) if ttls else 30000
    elif rcode == 3:
        base = 30000
    elif rcode == 2:
        base = 1000
    else:
        base = 5000
    return min(base, mx)


def parse_hops(s):
    ops = []
    for tok in s.split(","):
        p = tok.split(".")
        op = dict(k=p[0], at=int(p[1]), key=int(p[2]))
        if p[0] == "s":
            op.update(rcode=int(p[3]), tc=p[4] == "1", ttls=[] if p[5] == "x" else [int(x) for x in p[5].split("_")])
        if p[0] == "a":      # direct MemoryCache.Store: storedTime = now - age, expireTime = now + remain
            op.update(age=int(p[3]), remain=int(p[4]), nx=p[5] == "1", rcode=0, tc=False,
                      ttls=[] if p[6] == "x" else [int(x) for x in p[6].split("_")])
        ops.append(op)
    return ops


SLACK = 200  # ms: ops may run up to 150 ms late (the driver re-runs / reports the case otherwise)


_LAST = {}


def c08_hist_oracle(line, res):
    _LAST["cachehist"] = line
    return c08_hist_oracle1(line, res)


def c08_hist_oracle1(line, res):
    if res.startswith("HARNESS-ERROR"):
        return None
    f = gens.fields(line)
    ops = parse_hops(f["ops"])
    toks = res.split(" ")
    if len(toks) != len(ops):
        return None
    mx = int(f["maxttl"])
    for i, (op, tok) in enumerate(zip(ops, toks)):
        if op["k"] != "g" or not tok.startswith("H"):
            continue
        src = int(tok[1:].split(":")[0])
        if not (0 <= src < i) or ops[src]["k"] != "s" or ops[src]["key"] != op["key"]:
            return "get #%d served a message no Store of this key supplied (%s)" % (i, tok)
        so = ops[src]
        if so["tc"]:
            return "get #%d served a truncated response (store #%d)" % (i, src)
        L = prop_lifetime_ms(mx, so["rcode"], so["ttls"])
        el = op["at"] - so["at"]
        if el - SLACK >= L + 2000:
            return "get #%d at +%d ms served the entry of store #%d whose lifetime is %d ms (+2 s allowance)" % (i, el, src, L)
        got = [int(x) for x in tok.split(":")[1].split("_")] if tok.split(":")[1] else []
        if len(got) != len(so["ttls"]):
            return "get #%d: record count differs from the stored response" % i
        dmin = max(0, (el - SLACK) // 1000)
        for t0, t1 in zip(so["ttls"], got):
            if t1 > max(1, t0 - dmin):
                return "get #%d: served TTL %d > max 1 (%d - %d whole seconds elapsed)" % (i, t1, t0, dmin)
        # an error response never displaces a live positive entry: the last positive store before src, if surely
        # still live (and surely not yet expired: otter may expire up to 1 s early) when src was stored
        if so["rcode"] != 0:
            last_pos = None
            for j in range(src):
                o = ops[j]
                if o["k"] == "s" and o["key"] == op["key"] and o["rcode"] == 0 and not o["tc"]:
                    last_pos = j
            if last_pos is not None:
                po = ops[last_pos]
                Lp = prop_lifetime_ms(mx, po["rcode"], po["ttls"])
                # no later effective store in between can have removed it except a positive one (handled: last_pos)
                if so["at"] - po["at"] + SLACK <= Lp - 1000 - 300:
                    return "store #%d (rcode %d) displaced the live positive entry of store #%d" % (src, so["rcode"], last_pos)
    return None


def c08_hist_compare(ir, mr):
    a = ir.split(" ")
    b = mr.split(" ")
    if len(a) != len(b):
        return False
    for x, y in zip(a, b):
        if x == y:
            continue
        if y.startswith("E[") and x in y[2:-1].split("|"):
            continue
        return False
    return True


def retrying_compare(kind, oracle1, base=None):
    """Real-clock kinds: a live entry can be lost early for reasons outside C08 (the double release of a cacheEntry
    described in docs/notes/C08.md obs. 5 hits unrelated keys of the same process; otter's ticker goroutine can be
    starved on a loaded machine). A miss is always allowed by the property, but it is not what the model predicts.
    A mismatching case whose result passes the property oracle is therefore re-run
    (implementation side only) up to twice and accepted when a re-run matches the model. A result that fails the
    property oracle is never re-run: the oracle is evaluated on the first result by bin/check."""
    base = base or c08_hist_compare

    def cmp(ir, mr):
        if base(ir, mr):
            return True
        line = _LAST.get(kind)
        if not line or ir.startswith("HARNESS-ERROR"):
            return False
        import vlib
        for attempt in range(2):
            try:
                p = subprocess.run([os.path.join(vlib.BUILD, "implrun"), kind], input=line + "\n", text=True,
                                   stdout=subprocess.PIPE, stderr=subprocess.DEVNULL, timeout=120)
            except Exception:
                return False
            res = None
            for l in p.stdout.split("\n"):
                if l.startswith("R "):
                    res = l.split(" ", 2)[2] if l.count(" ") >= 2 else ""
            if res is None:
                return False
            if oracle1(line, res) is not None:
                return False
            if base(res, mr):
                print("C08 %s: case %s matched the model on re-run %d (first result: %s)" % (
                    kind, line.split(" ")[0], attempt + 1, ir), file=sys.stderr)
                return True
        return False
    return cmp


def hist_ok_times(ops):
    """keep every (store, later op on the same key) pair away from whole-second distances: the outcome of the real
    run must not hinge on < 200 ms of scheduling"""
    for i, a in enumerate(ops):
        if a["k"] == "g":
            continue
        for b in ops[i + 1:]:
            if b["key"] != a["key"]:
                continue
            fr = (b["at"] - a["at"]) % 1000
            if fr < 200 or fr > 800:
                return False
    return True


def fmt_ops(ops):
    out = []
    for o in ops:
        if o["k"] == "s":
            out.append("s.%d.%d.%d.%d.%s" % (o["at"], o["key"], o["rcode"], 1 if o["tc"] else 0,
                                               "_".join(str(t) for t in o["ttls"]) if o["ttls"] else "x"))
        else:
            out.append("%s.%d.%d" % (o["k"], o["at"], o["key"]))
    return ",".join(out)


def rand_store(rng, at, key):
    kind = rng.choice(["pos1", "pos2", "pos3", "pos3", "pos2", "posbig", "nx", "nxttl", "servfail", "refused", "nodata", "tc"])
    d = dict(k="s", at=at, key=key, rcode=0, tc=False, ttls=[])
    if kind == "pos1":
        d["ttls"] = [rng.choice([0, 1]), 50]
    elif kind == "pos2":
        d["ttls"] = [2, 4294967295]
    elif kind == "pos3":
        d["ttls"] = [3, 3, 7]
    elif kind == "posbig":
        d["ttls"] = [300]
    elif kind == "nx":
        d["rcode"] = 3
    elif kind == "nxttl":
        d["rcode"] = 3
        d["ttls"] = [2]
    elif kind == "servfail":
        d["rcode"] = 2
        d["ttls"] = rng.choice([[], [60]])
    elif kind == "refused":
        d["rcode"] = 5
        d["ttls"] = rng.choice([[], [3]])
    elif kind == "nodata":
        pass
    elif kind == "tc":
        d["tc"] = True
        d["ttls"] = [60]
    return d


def c08_hist_gen(rng, tier):
    out = []
    want = budget(tier, 70, 1200)
    n = 0
    tries = 0
    while n < want and tries < want * 200:
        tries += 1
        nops = rng.randrange(4, 11)
        at = 0
        ops = []
        stores = 0
        for i in range(nops):
            key = rng.choice([1, 1, 1, 2])
            r = rng.random()
            if i == 0 or (r < 0.4 and stores < 5):
                ops.append(rand_store(rng, at, key))
                stores += 1
            elif r < 0.45:
                ops.append(dict(k="n", at=at, key=key))
                stores += 1
            else:
                ops.append(dict(k="g", at=at, key=key))
            at += rng.choice([50, 100, 250, 300, 450, 500, 700, 750, 1000, 1250, 1500])
            if at > 6500:
                break
        if not hist_ok_times(ops):
            continue
        out.append("h%d maxttl=%d ops=%s" % (n, rng.choice([0, 0, 0, 2, 1]), fmt_ops(ops)))
        n += 1
    return out


def c08_hist_classify(line, res):
    t = res.split(" ")
    h = sum(1 for x in t if x.startswith("H"))
    m = sum(1 for x in t if x == "M")
    return "hits=%s misses=%s" % ("0" if h == 0 else "1-2" if h < 3 else "3+", "0" if m == 0 else "1-2" if m < 3 else "3+")


# ---------------- storeat (round 2): direct MemoryCache.Store with storedTime in the past (redis promotion path)
def c08_storeat_oracle(line, res):
    _LAST["storeat"] = line
    return c08_storeat_oracle1(line, res)


def c08_storeat_oracle1(line, res):
    """the property on what was served, independent of the model: a hit comes from an earlier store of the key; an
    entry stored with (storedTime, expireTime) is not served at expireTime + 2 s or later WHATEVER storedTime was;
    served TTLs <= max 1 (ttl - whole seconds since storedTime)"""
    if res.startswith("HARNESS-ERROR"):
        return None
    f = gens.fields(line)
    ops = parse_hops(f["ops"])
    toks = res.split(" ")
    if len(toks) != len(ops):
        return None
    mx = int(f["maxttl"])
    for i, (op, tok) in enumerate(zip(ops, toks)):
        if op["k"] != "g" or not tok.startswith("H"):
            continue
        src = int(tok[1:].split(":")[0])
        if not (0 <= src < i) or ops[src]["k"] not in ("s", "a") or ops[src]["key"] != op["key"]:
            return "get #%d served a message no Store of this key supplied (%s)" % (i, tok)
        so = ops[src]
        if so["k"] == "s":
            if so["tc"]:
                return "get #%d served a truncated response (store #%d)" % (i, src)
            L = prop_lifetime_ms(mx, so["rcode"], so["ttls"])
            age = 0
        else:
            L = so["remain"]
            age = so["age"]
        late = op["at"] - so["at"] - L          # ms after expireTime
        if late - SLACK >= 2000:
            return ("get #%d at +%d ms served the entry of store #%d %d ms after its expireTime (storedTime %d ms "
                    "before the store, expireTime %d ms after it; 2 s allowance)" % (i, op["at"], src, late, age, L))
        got = [int(x) for x in tok.split(":")[1].split("_")] if tok.split(":")[1] else []
        if len(got) != len(so["ttls"]):
            return "get #%d: record count differs from the stored response" % i
        dmin = max(0, (op["at"] - so["at"] + age - SLACK) // 1000)
        for t0, t1 in zip(so["ttls"], got):
            if t1 > max(1, t0 - dmin):
                return "get #%d: served TTL %d > max 1 (%d - %d whole seconds since storedTime)" % (i, t1, t0, dmin)
    return None


STOREAT_AGES = [0, 0, 400, 2400, 4500, 10500, 61300, 3600400, 86400600, 31536000500]
STOREAT_REMAIN = [400, 700, 1300, 1300, 1700, 2300, 2600, 3400]
STOREAT_TTLS = [[3, 3, 7], [300], [60, 4294967295], [2, 100000], [0, 50]]


def storeat_ok_times(ops):
    """served TTLs must not hinge on < 200 ms of scheduling: every (store, later op of the key) pair keeps the time since
    the entry's storedTime away from whole seconds"""
    for i, a in enumerate(ops):
        if a["k"] == "g":
            continue
        age = a.get("age", 0)
        for b in ops[i + 1:]:
            if b["key"] != a["key"]:
                continue
            fr = (b["at"] - a["at"] + age) % 1000
            if fr < 200 or fr > 800:
                return False
            fr = (b["at"] - a["at"]) % 1000          # and the store-to-op distance itself (expiry side)
            if fr < 150 or fr > 850:
                return False
    return True


def fmt_ops2(ops):
    out = []
    for o in ops:
        if o["k"] == "a":
            out.append("a.%d.%d.%d.%d.%d.%s" % (o["at"], o["key"], o["age"], o["remain"], 1 if o["nx"] else 0,
                                                  "_".join(str(t) for t in o["ttls"]) if o["ttls"] else "x"))
        else:
            out.append(fmt_ops([o]))
    return ",".join(out)


def c08_storeat_gen(rng, tier):
    """histories on the real clock in which entries enter the memory cache through MemoryCache.Store with a storedTime in
    the past (0.4 s .. 1 year) and 0.4 - 3.4 s of lifetime left, mixed with ordinary cacheCtl.Store calls (a promotion is
    set-if-absent: it must not displace them) and lookups before expireTime, within 2 s after it and later"""
    out = []
    want = budget(tier, 60, 1000)
    n = tries = 0
    while n < want and tries < want * 400:
        tries += 1
        at = 0
        ops = []
        stores = 0
        for i in range(rng.randrange(3, 10)):
            key = rng.choice([1, 1, 1, 2])
            r = rng.random()
            if i == 0 or (r < 0.3 and stores < 5):
                ops.append(dict(k="a", at=at, key=key, age=rng.choice(STOREAT_AGES), remain=rng.choice(STOREAT_REMAIN),
                                nx=rng.random() < 0.7, ttls=rng.choice(STOREAT_TTLS)))
                stores += 1
            elif r < 0.4 and stores < 5:
                ops.append(rand_store(rng, at, key))
                stores += 1
            else:
                ops.append(dict(k="g", at=at, key=key))
            at += rng.choice([250, 300, 450, 500, 700, 750, 1250, 1500, 1750, 2250, 2500])
            if at > 7000:
                break
        # most histories get a probe well after expireTime + 2 s of one of their direct stores (that is where an entry
        # whose lifetime was counted from storedTime, or restarted, would still be served)
        if rng.random() < 0.8:
            a = rng.choice([o for o in ops if o["k"] == "a"])
            probe = a["at"] + a["remain"] + 2000 + SLACK + rng.choice([150, 400, 900, 1600])
            ops.append(dict(k="g", at=probe, key=a["key"]))
            ops.sort(key=lambda o: o["at"])           # stable: ops at equal instants keep their order
            if any(x["at"] == y["at"] for x, y in zip(ops, ops[1:])):
                continue
        def probed(i, a):
            return any(b["k"] == "g" and b["key"] == a["key"] for b in ops[i + 1:])
        if not any(o["k"] == "a" and probed(i, o) for i, o in enumerate(ops)) or not storeat_ok_times(ops):
            continue
        out.append("a%d maxttl=%d ops=%s" % (n, rng.choice([0, 0, 0, 2]), fmt_ops2(ops)))
        n += 1
    return out


def c08_storeat_classify(line, res):
    ops = parse_hops(gens.fields(line)["ops"])
    toks = res.split(" ")
    cls = set()
    if len(toks) == len(ops):
        for i, (op, tok) in enumerate(zip(ops, toks)):
            if op["k"] != "g":
                continue
            last = None
            for j in range(i):
                if ops[j]["key"] == op["key"] and ops[j]["k"] == "a":
                    last = ops[j]
            if last is None:
                continue
            late = op["at"] - last["at"] - last["remain"]
            cls.add(("hit" if tok.startswith("H") else "miss") + ("-before-expire" if late < 0 else "-within-2s" if late < 2000 else "-after-expire+2s"))
    return ",".join(sorted(cls)) or "no-get-after-storeat"


# ---------------- promote (round 2): the real cacheCtl.Get with memory + redis backend (in-process RESP2 fake)
def parse_pops(s):
    ops = []
    for tok in s.split(","):
        p = tok.split(".")
        op = dict(k=p[0], at=int(p[1]), key=int(p[2]))
        if p[0] == "s":
            op.update(ttls=[] if p[3] == "x" else [int(x) for x in p[3].split("_")], age=0)
        elif p[0] == "r":
            op.update(age=int(p[3]), remain=int(p[4]), ttls=[] if p[5] == "x" else [int(x) for x in p[5].split("_")])
        ops.append(op)
    return ops


def c08_promote_oracle(line, res):
    _LAST["promote"] = line
    return c08_promote_oracle1(line, res)


def c08_promote_oracle1(line, res):
    """the property on what cacheCtl.Get served, whichever backend it came from: the answer was stored for this key
    (by this proxy: op s, or by another instance sharing the redis: op r); it is not served at fetch + lifetime + 2 s
    or later - in particular not because it was copied into the memory cache late in its life; served TTLs <= max 1
    (ttl - whole seconds since the fetch)"""
    if res.startswith("HARNESS-ERROR"):
        return None
    f = gens.fields(line)
    ops = parse_pops(f["ops"])
    toks = res.split(" ")
    if len(toks) != len(ops):
        return None
    mx = int(f["maxttl"])
    for i, (op, tok) in enumerate(zip(ops, toks)):
        if op["k"] != "g" or not tok.startswith("H"):
            continue
        src = int(tok[1:].split(":")[0])
        if not (0 <= src < i) or ops[src]["k"] not in ("s", "r") or ops[src]["key"] != op["key"]:
            return "get #%d served a message nobody stored for this key (%s)" % (i, tok)
        so = ops[src]
        L = prop_lifetime_ms(mx, 0, so["ttls"]) if so["k"] == "s" else so["remain"]
        late = op["at"] - so["at"] - L
        if late - SLACK >= 2000:
            return ("get #%d at +%d ms served the answer of op #%d %d ms after the end of its lifetime (fetched %d ms "
                    "before op #%d, %d ms of lifetime left then; 2 s allowance)" % (i, op["at"], src, late, so["age"], src, L))
        got = [int(x) for x in tok.split(":")[1].split("_")] if tok.split(":")[1] else []
        if len(got) != len(so["ttls"]):
            return "get #%d: record count differs from the stored response" % i
        dmin = max(0, (op["at"] - so["at"] + so["age"] - SLACK) // 1000)
        for t0, t1 in zip(so["ttls"], got):
            if t1 > max(1, t0 - dmin):
                return "get #%d: served TTL %d > max 1 (%d - %d whole seconds since the fetch)" % (i, t1, t0, dmin)
    return None


def c08_promote_gen(rng, tier):
    """shape A: Store (lifetime 5-7 s) ... the memory cache loses the key late in the lifetime ... Get (redis hit,
    promoted) ... probes after fetch + lifetime + 2 s.  shape B: an answer another instance fetched 0.4 s .. 1 year ago
    with 1.3-3.4 s left sits in redis; Get (promoted); probes.  All on the real clock; ~10 s per case, run in parallel."""
    out = []
    for n in range(budget(tier, 16, 240)):
        ops = []
        if n % 2 == 0:
            L = rng.choice([5, 6, 7])
            d = rng.choice([3300, 3700, L * 1000 - 1300])
            ttls = [L, rng.choice([300, 86400])]
            ops.append("s.0.1.%s" % "_".join(map(str, ttls)))
            ops.append("g.%d.1" % rng.choice([200, 600]))
            ops.append("x.%d.1" % d)
            ops.append("g.%d.1" % (d + rng.choice([150, 300])))
            if rng.random() < 0.5:
                ops.append("g.%d.1" % (d + 800))
            end = L * 1000 + 2000 + SLACK
            ops.append("g.%d.1" % (end + rng.choice([150, 500])))
            if d + L * 1000 - 1200 > end + 900:
                ops.append("g.%d.1" % (d + L * 1000 - 1200))       # an entry restarted at promotion would still be live
        else:
            age = rng.choice([400, 4500, 10500, 61300, 3600400, 86400600, 31536000500])
            remain = rng.choice([1300, 1700, 2300, 2600, 3400])
            ttls = rng.choice([[300], [60, 4294967295], [100000, 7]])
            ops.append("r.0.1.%d.%d.%s" % (age, remain, "_".join(map(str, ttls))))
            g1 = rng.choice([200, 500, remain - 600])
            ops.append("g.%d.1" % g1)
            if rng.random() < 0.5:
                ops.append("x.%d.1" % (g1 + 150))
                ops.append("g.%d.1" % (g1 + 300))
            end = remain + 2000 + SLACK
            ops.append("g.%d.1" % (end + rng.choice([150, 600])))
            ops.append("g.%d.1" % (end + rng.choice([1500, 2600])))
        out.append("pr%d maxttl=0 ops=%s" % (n, ",".join(ops)))
    return out


def c08_promote_classify(line, res):
    ops = parse_pops(gens.fields(line)["ops"])
    toks = res.split(" ")
    if len(toks) != len(ops):
        return res.split(" ")[0][:24]
    cls = set()
    dropped = False
    for op, tok in zip(ops, toks):
        if op["k"] in ("x", "r"):
            dropped = True               # from here on a hit can only come through redis (promotion)
        if op["k"] == "g":
            cls.add(("hit" if tok.startswith("H") else "miss") + ("-via-redis" if dropped else "-memory"))
    return ("own-store " if ops[0]["k"] == "s" else "foreign-store ") + ",".join(sorted(cls))


# ---------------- redisneg (round 4): positive / error / get sequences on the redis tier (redis-only and memory + redis)
def parse_nops(s):
    ops = []
    for tok in s.split(","):
        p = tok.split(".")
        op = dict(k=p[0], at=int(p[1]), key=int(p[2]))
        if p[0] == "s":
            op.update(rcode=0, ttls=[] if p[3] == "x" else [int(x) for x in p[3].split("_")])
        elif p[0] == "e":
            op.update(rcode=int(p[3]), ttls=[] if p[4] == "x" else [int(x) for x in p[4].split("_")])
        ops.append(op)
    return ops


def c08_redisneg_oracle(line, res):
    _LAST["redisneg"] = line
    return c08_redisneg_oracle1(line, res)


def c08_redisneg_oracle1(line, res):
    """the property on what cacheCtl.Get served (whichever tier it came from): stored for this key; not at fetch +
    lifetime(table) + 2 s or later; TTLs aged; and an ERROR response is never what is served while a positive answer
    that was stored before it is still alive (it must not have displaced it, in memory or in redis)"""
    if res.startswith("HARNESS-ERROR"):
        return None
    f = gens.fields(line)
    ops = parse_nops(f["ops"])
    toks = res.split(" ")
    if len(toks) != len(ops):
        return None
    mx = int(f["maxttl"])
    mem = f.get("mem", "1") == "1"
    for i, (op, tok) in enumerate(zip(ops, toks)):
        if op["k"] != "g" or not tok.startswith("H"):
            continue
        src = int(tok[1:].split(":")[0])
        if not (0 <= src < i) or ops[src]["k"] not in ("s", "e") or ops[src]["key"] != op["key"]:
            return "get #%d served a message nobody stored for this key (%s)" % (i, tok)
        so = ops[src]
        L = prop_lifetime_ms(mx, so["rcode"], so["ttls"])
        late = op["at"] - so["at"] - L
        if late - SLACK >= 2000:
            return "get #%d at +%d ms served the answer of op #%d %d ms after the end of its lifetime (%d ms; 2 s allowance)" % (
                i, op["at"], src, late, L)
        got = [int(x) for x in tok.split(":")[1].split("_")] if tok.split(":")[1] else []
        if len(got) != len(so["ttls"]):
            return "get #%d: record count differs from the stored response" % i
        dmin = max(0, (op["at"] - so["at"] - SLACK) // 1000)
        for t0, t1 in zip(so["ttls"], got):
            if t1 > max(1, t0 - dmin):
                return "get #%d: served TTL %d > max 1 (%d - %d whole seconds since the fetch)" % (i, t1, t0, dmin)
        if so["rcode"] != 0:
            for j in range(src - 1, -1, -1):
                po = ops[j]
                if po["key"] != op["key"]:
                    continue
                if mem and po["k"] == "x":
                    break        # the memory copy was lost before the error arrived: the memory tier legitimately takes it
                if po["k"] == "s":
                    Lp = prop_lifetime_ms(mx, 0, po["ttls"])
                    if po["at"] + Lp >= so["at"] + 300 + SLACK:
                        return ("get #%d was served the error response of op #%d (rcode %d) although the positive answer of "
                                "op #%d was alive when that error was stored (%d ms of its %d ms lifetime left): an error "
                                "response displaced a live positive entry" % (i, src, so["rcode"], j,
                                                                           po["at"] + Lp - so["at"], Lp))
                    break
    return None


def c08_redisneg_gen(rng, tier):
    """every error rcode 1..15 (with and without records) against a live positive answer, in the redis-only configuration
    and in memory + redis with the memory copy dropped AFTER the error was stored (so that the redis copy is what is
    read); the converse orders (error first, positive replaces it, a second error is refused; error after the positive
    expired is accepted); two keys.  Real clock, <= 4.2 s per case, run in parallel."""
    out = []
    n = budget(tier, 42, 330)
    rcodes = list(range(1, 16))
    for c in range(n):
        mem = c % 2
        rc = rcodes[(c // 2) % 15]
        rc2 = rng.choice(rcodes)
        ettl = rng.choice(["x", "x", "7", "2_300"])
        P = rng.choice([5, 6, 60, 300])
        shape = 0 if c < 30 or (c // 30) % 2 == 0 and c >= 60 else 1 + ((c - 30) // 2) % 3   # first 30: every rcode x both configurations, shape 0
        ops = []
        if shape == 0:      # error onto a live positive
            ops += ["s.0.1.%d_%d" % (P, P + 5), "e.%d.1.%d.%s" % (rng.choice([300, 450, 700]), rc, ettl)]
            if rng.random() < 0.5:
                ops.append("e.850.1.%d.x" % rc2)
            if mem:
                ops.append("x.1000.1")
            ops += ["g.1250.1", "g.%d.1" % rng.choice([1700, 2300, 3250])]
        elif shape == 1:    # error first; the positive replaces it; a second error is refused
            ops += ["e.0.1.%d.%s" % (rc, ettl), "g.300.1", "s.600.1.%d" % P]
            if mem:
                ops.append("x.800.1")
            ops += ["g.1000.1", "e.1300.1.%d.x" % rc2]
            if mem:
                ops.append("x.1500.1")
            ops += ["g.1750.1", "g.2300.1"]
        elif shape == 2:    # the positive has expired (lifetime 1 s): the error is accepted (redis: exactly; memory: otter)
            ops += ["s.0.1.1_9", "g.300.1", "e.%d.1.%d.%s" % (rng.choice([1400, 1700, 2300]), rc if rc != 2 else 3, ettl),
                    "g.2700.1", "g.3600.1"]
        else:               # two keys: the error for key 2 must not touch key 1 and vice versa
            ops += ["s.0.1.%d" % P, "e.250.2.%d.%s" % (rc, ettl), "e.500.1.%d.x" % rc2, "s.750.2.%d" % P]
            if mem:
                ops += ["x.1000.1", "x.1000.2"]
                ops[-1] = "x.1050.2"
            ops += ["g.1300.1", "g.1450.2", "g.2300.1"]
        out.append("rn%d maxttl=0 mem=%d ops=%s" % (c, mem, ",".join(ops)))
    return out


def c08_redisneg_classify(line, res):
    f = gens.fields(line)
    ops = parse_nops(f["ops"])
    toks = res.split(" ")
    cfg = "memory+redis" if f.get("mem", "1") == "1" else "redis-only"
    if len(toks) != len(ops):
        return cfg + " " + res.split(" ")[0][:20]
    kinds = set()
    for op, tok in zip(ops, toks):
        if op["k"] == "g":
            if tok.startswith("H"):
                src = int(tok[1:].split(":")[0])
                kinds.add("served-positive" if ops[src].get("rcode", 0) == 0 else "served-error")
            else:
                kinds.add("miss")
    first_err = next((o["rcode"] for o in ops if o["k"] == "e"), 0)
    return "%s rcode%d %s" % (cfg, first_err, ",".join(sorted(kinds)))


# ---------------- rediscmd (round 6): the SET command the redis tier sends, and a lookup after the lifetime
import re as _re

_CMD = _re.compile(r"^([se])\{(SETNX|SET|none)(?::(nopx|\d+))?\}$")


def parse_cops(s):
    ops = parse_nops(s)
    for op, tok in zip(ops, s.split(",")):
        if op["k"] == "v":
            op["ms"] = int(tok.split(".")[2])
    return ops


def c08_rediscmd_oracle(line, res):
    _LAST["rediscmd"] = line
    return c08_rediscmd_oracle1(line, res)


def c08_rediscmd_oracle1(line, res):
    """independent of the model: (1) the command the server received for every Store: a SET; NX iff the response is an
    error response; a PX, not above the lifetime of the property's table (30 s NXDOMAIN / record-less, 5 s other errors,
    1 s SERVFAIL, smallest TTL for NOERROR with records, all capped by the configured maximum); (2) lookups, on the server's clock: nothing is served lifetime + 2 s or later after its fetch"""
    if res.startswith("HARNESS-ERROR"):
        return None
    f = gens.fields(line)
    ops = parse_cops(f["ops"])
    toks = res.split(" ")
    if len(toks) != len(ops):
        return None
    mx = int(f["maxttl"])
    skew = 0
    eff = []
    for op in ops:
        eff.append(op["at"] + skew)
        if op["k"] == "v":
            skew += op["ms"]
    for i, (op, tok) in enumerate(zip(ops, toks)):
        if op["k"] in ("s", "e"):
            m = _CMD.match(tok)
            if not m:
                return "store #%d: unreadable command token %s" % (i, tok)
            L = prop_lifetime_ms(mx, op["rcode"], op["ttls"])
            verb, px = m.group(2), m.group(3)
            if verb == "none":
                return "store #%d (rcode %d, lifetime %d ms): no SET reached the redis server" % (i, op["rcode"], L)
            if (verb == "SETNX") != (op["rcode"] != 0):
                return "store #%d (rcode %d): sent as %s; set-if-absent is for error responses and only for them" % (
                    i, op["rcode"], verb)
            if px == "nopx":
                return ("store #%d (rcode %d): %s without PX: the entry never expires in redis although its lifetime is "
                        "%d ms" % (i, op["rcode"], verb, L))
            if int(px) > L:
                return "store #%d (rcode %d): PX %s ms exceeds the lifetime %d ms of the table" % (i, op["rcode"], px, L)
            # (no lower bound here: the table of the property only bounds lifetimes from above; an error response with a
            #  small record TTL legitimately lives shorter.  The exact value is the model comparison's business.)
        if op["k"] == "g" and tok.startswith("H"):
            src = int(tok[1:].split(":")[0])
            if not (0 <= src < i) or ops[src]["k"] not in ("s", "e") or ops[src]["key"] != op["key"]:
                return "get #%d served a message nobody stored for this key (%s)" % (i, tok)
            so = ops[src]
            L = prop_lifetime_ms(mx, so["rcode"], so["ttls"])
            late = eff[i] - eff[src] - L
            if late - SLACK >= 2000:
                return ("get #%d (%d ms after the fetch on the redis server's clock) was served the rcode-%d answer of "
                        "op #%d, whose lifetime is %d ms: %d ms after its end (2 s allowance)" % (
                            i, eff[i] - eff[src], so["rcode"], src, L, late))
    return None


def c08_rediscmd_compare(ir, mr):
    """PX is lifetime - (time between cacheCtl.Store's clock reading and AsyncStore's), cut to ms: the model assumes 1 us,
    the real run may take up to a few ms: the implementation's PX may be up to 60 ms below the model's"""
    a, b = ir.split(" "), mr.split(" ")
    if len(a) != len(b):
        return False
    out = []
    for x, y in zip(a, b):
        mx_, my = _CMD.match(x), _CMD.match(y)
        if mx_ and my and mx_.group(1, 2) == my.group(1, 2) and mx_.group(3) and my.group(3) and \
                mx_.group(3) != "nopx" and my.group(3) != "nopx" and int(my.group(3)) - 60 <= int(mx_.group(3)) <= int(my.group(3)) + 1:
            out.append(y)
        else:
            out.append(x)
    return c08_hist_compare(" ".join(out), mr)


RCMD_TTLS = [[0], [1], [5, 60], [60], [300, 7], [86400], [4294967295], [21599, 21601]]


def c08_rediscmd_gen(rng, tier):
    """one Store per case through the real cacheCtl (redis-only / memory + redis; maximum_ttl default / 2 s / 40 s):
    NOERROR with records (TTL 0, 1, .., 2^32-1), NOERROR without records, every error rcode 1..15 with and without
    records; the command is read at the fake server; a lookup 0.3 s later; then the SERVER's clock jumps lifetime + 2.5 s
    ahead (the memory copy, if any, is dropped) and a lookup must miss; then one hour more, and again.  ~1 s per case."""
    out = []
    n = budget(tier, 56, 600)
    for c in range(n):
        # 24 answer classes x 2 configurations first (48 cases: all of them are in the quick tier), then random ones
        j = c % 24 if c < 96 else rng.randrange(24)
        mem = (c // 24) % 2
        maxttl = [0, 2, 40, 0][(c // 48 + j) % 4] if c < 96 else rng.choice([0, 0, 1, 2, 40, 86400])
        if j < 8:
            rc, ttls = 0, RCMD_TTLS[j]
        elif j == 8:
            rc, ttls = 0, []
        else:
            rc = j - 8                                     # 1..15
            ttls = rng.choice([[], [], [3], [300, 20], [0]])
        L = prop_lifetime_ms(maxttl, rc, ttls)
        st = ("s.0.1.%s" % ("_".join(map(str, ttls)) or "x")) if rc == 0 else \
             ("e.0.1.%d.%s" % (rc, "_".join(map(str, ttls)) or "x"))
        ops = [st, "g.300.1"]
        if mem:
            ops.append("x.450.1")
        ops += ["v.550.%d" % (L + 2500 - 650), "g.650.1", "v.750.3600000", "g.850.1"]
        out.append("rc%d maxttl=%d mem=%d cmd=1 ops=%s" % (c, maxttl, mem, ",".join(ops)))
    return out


def c08_rediscmd_classify(line, res):
    f = gens.fields(line)
    op = parse_cops(f["ops"])[0]
    cls = "noerror+rr" if op["rcode"] == 0 and op["ttls"] else "noerror-empty" if op["rcode"] == 0 else \
          "servfail" if op["rcode"] == 2 else "nxdomain" if op["rcode"] == 3 else "other-error"
    return "%s %s max=%s %s" % ("memory+redis" if f["mem"] == "1" else "redis-only", cls, f["maxttl"],
                                res.split(" ")[0].split("{")[-1].split(":")[0].rstrip("}"))


# ---------------- refresherr (round 6): a refresh answered with an error while the positive entry is live, both tiers
REFRESH_CFGS = [("1", "0", "m"), ("0", "1", "r"), ("1", "1", "mr"), ("1", "1", "r")]


def c08_refresh_gen(rng, tier):
    """a real router (memory-only / redis-only / memory + redis with the entry in both tiers / memory + redis with the entry
    only in redis) holds a positive answer fetched 7-9 s ago with 1.9 s left (every hit is in the refresh window); the
    upstream answers every (refresh) query with an error rcode 1..15, with or without records; three client queries at
    +0.1 .. +0.7 s.  < 1 s per case (+ 1.1 s for the redis ping loop), run in parallel."""
    out = []
    for c in range(budget(tier, 20, 240)):
        mem, red, place = REFRESH_CFGS[c % 4]
        rc = 1 + (c // 4 * 4 + c % 4 * 5 + c // 16) % 15 if c >= 4 else [2, 3, 5, 2][c]
        # entry only in redis + a memory backend: the first hit promotes it with the instants cut to whole seconds, so up
        # to 1 s of its lifetime is lost in the memory tier: leave 2.9 s, so that the promoted copy surely outlives the case
        # (otherwise its early expiry + cleanup would open the cross-tier gap of observation 6, which is not this class)
        remain = 2900 if (place == "r" and mem == "1") else 1900
        out.append("rf%d mem=%s redis=%s place=%s rcode=%d ettl=%s age=%d remain=%d qs=100_%d_%d" % (
            c, mem, red, place, rc, rng.choice(["x", "x", "7", "0_300"]), rng.choice([3 * remain + 1300, 3 * remain + 1700, 9000]),
            remain, rng.choice([300, 350, 400]), rng.choice([600, 650, 700])))
    return out


def c08_refresh_oracle(line, res):
    """every client query arrives while the positive answer is alive (>= 1.2 s before its expireTime): it must be served that
    positive answer (aged), whatever the refresh running in the background was answered: an error response never displaces
    a live positive entry"""
    if not res.startswith("up="):
        return None
    f = gens.fields(line)
    toks = res.split(" ")[1:]
    ats = [int(x) for x in f["qs"].split("_")]
    if len(toks) != len(ats):
        return None
    age, remain = int(f["age"]), int(f["remain"])
    for i, (at, tok) in enumerate(zip(ats, toks)):
        if at + SLACK > remain - 1000:
            continue
        rc, ttl_s = tok.split(":") if ":" in tok else (tok, "")
        if rc != "0":
            return ("query #%d at +%d ms was answered rcode %s although the positive answer in the cache had %d ms of its "
                    "%d ms lifetime left: the error response of the refresh (rcode %s) displaced a live positive entry" % (
                        i, at, rc, remain - at, age + remain, f["rcode"]))
        got = [int(x) for x in ttl_s.split("_")] if ttl_s else []
        if len(got) != 2:
            return "query #%d: served %s, expected the two cached A records" % (i, tok)
        dmin = max(0, (at + age - SLACK) // 1000)
        for t0, t1 in zip([60, 300], got):
            if t1 > max(1, t0 - dmin):
                return "query #%d: served TTL %d > max 1 (%d - %d whole seconds since the fetch)" % (i, t1, t0, dmin)
    return None


def c08_refresh_classify(line, res):
    f = gens.fields(line)
    cfg = {"m": "memory-only", "r": "redis-only" if f["mem"] == "0" else "memory+redis(entry in redis)", "mr": "memory+redis"}[f["place"]]
    up = res.split(" ")[0]
    return "%s refreshes=%s" % (cfg, "0" if up == "up=0" else ">=1")


# ---------------- routerhist (real router, real upstream over TCP, scripted upstream server)
BEH_L = dict(nx=30000, nd=30000, sf=1000, rf=5000)


def beh_reply(beh):
    """(rcode, tc, ttls, lifetime bound ms per the property's table with the default maximum) or None for a failure"""
    if beh == "fail":
        return None
    if beh == "tc":
        return (0, True, [60], None)
    if beh.startswith("p"):
        t = int(beh[1:])
        return (0, False, [t, t + 5], max(1000, t * 1000))
    rc = dict(nx=3, nd=0, sf=2, rf=5)[beh]
    return (rc, False, [], BEH_L[beh])


def parse_qops(s):
    return [dict(at=int(p[1]), key=int(p[2]), beh=p[3]) for p in (t.split(".") for t in s.split(","))]


def c08_router_oracle(line, res):
    _LAST["routerhist"] = line
    return c08_router_oracle1(line, res)


def c08_router_oracle1(line, res):
    if res.startswith("HARNESS-ERROR"):
        return None
    f = gens.fields(line)
    ops = parse_qops(f["ops"])
    toks = res.split(" ")
    if len(toks) != len(ops):
        return None
    mxcfg = int(f["maxttl"])
    mx = mxcfg * 1000 if mxcfg > 0 else 21600000
    for j, (op, tok) in enumerate(zip(ops, toks)):
        if "!id" in tok:
            return "query #%d: response id differs from the query id" % j
        if not tok.startswith("C"):
            continue
        head, ttl_s = tok[1:].split(":")
        got = [int(x) for x in ttl_s.split("_")] if ttl_s else []
        if head.endswith("t"):
            return "query #%d was served a truncated response from cache" % j
        rcode = int(head)
        ok = False
        why = "no earlier successful upstream exchange of this key"
        for i in range(j):
            o = ops[i]
            if o["key"] != op["key"] or not toks[i].startswith("U"):
                continue
            rep = beh_reply(o["beh"])
            if rep is None or rep[1]:
                why = "the only earlier exchanges of this key failed or were truncated"
                continue
            rc, _, ttls, L = rep
            L = min(L, mx)
            el = op["at"] - o["at"]
            if rc != rcode or len(ttls) != len(got):
                continue
            if el - SLACK >= L + 2000:
                why = "the matching exchange #%d is %d ms old, lifetime %d ms (+2 s allowance)" % (i, el, L)
                continue
            dmin = max(0, (el - SLACK) // 1000)
            if any(t1 > max(1, t0 - dmin) for t0, t1 in zip(ttls, got)):
                why = "served TTLs %s exceed max 1 (ttl - %d s) of exchange #%d" % (got, dmin, i)
                continue
            ok = True
            break
        if not ok:
            return "query #%d answered from cache (%s): %s" % (j, tok, why)
    return None


def router_ok_times(ops, mxcfg):
    """every (query, later query of the same key) pair must be clear of the expiry band of the entry the first may
    have created, and of the last quarter of its life (a hit there starts a prefetch: C19, not modelled here)"""
    mx = mxcfg * 1000 if mxcfg > 0 else 21600000
    for i, a in enumerate(ops):
        rep = beh_reply(a["beh"])
        if rep is None or rep[3] is None:
            continue
        L = min(rep[3], mx)
        for b in ops[i + 1:]:
            if b["key"] != a["key"]:
                continue
            el = b["at"] - a["at"]
            if el % 1000 < 200 or el % 1000 > 800:   # served TTLs must not hinge on < 200 ms of scheduling
                return False
            sure_hit = el <= L - 1250 and el <= (3 * L) // 4 - 300
            sure_miss = el >= L + 300
            if not (sure_hit or sure_miss):
                return False
    return True


def c08_router_gen(rng, tier):
    out = []
    want = budget(tier, 60, 1000)
    n = tries = 0
    while n < want and tries < want * 500:
        tries += 1
        mxcfg = rng.choice([0, 0, 0, 3])
        at = 0
        ops = []
        for i in range(rng.randrange(3, 10)):
            beh = rng.choice(["p4", "p4", "p6", "p2", "p0", "p300", "nx", "nd", "sf", "rf", "tc", "fail", "fail"])
            ops.append(dict(at=at, key=rng.choice([1, 1, 1, 2]), beh=beh))
            at += rng.choice([100, 250, 350, 400, 600, 750, 1250, 1300, 1500, 2250])
            if at > 7000:
                break
        if not router_ok_times(ops, mxcfg):
            continue
        out.append("q%d maxttl=%d ops=%s" % (n, mxcfg, ",".join("q.%d.%d.%s" % (o["at"], o["key"], o["beh"]) for o in ops)))
        n += 1
    return out


def c08_router_classify(line, res):
    t = res.split(" ")
    c = sum(1 for x in t if x.startswith("C"))
    return "cached=%s of %s" % ("0" if c == 0 else "1-2" if c < 3 else "3+", "<=4" if len(t) <= 4 else ">4")


C08_TRUST = [
    "C08: otter v1.2.0 is modelled, not verified: a map keyed by the cache key, TTL rounded up to whole seconds, a "
    "clock of whole seconds published by a 1 s ticker (not ahead of the wall clock, lagging < 1 s from the ticker's "
    "phase / < 2 s from any origin), expiry at expiration <= clock, SetIfAbsent refusing while a node (even expired) "
    "is present, expired nodes removed only by the cleanup goroutine; watched by kind cachehist on the real clock",
    "C08: the cache key and the value encoding (pack + s2) are C07's; here keys are opaque and the stored value is "
    "the message",
    "C08: no redis server exists in the sandbox: kind promote runs the real cache.RedisCache (rueidis, RESP2, no client "
    "cache) against an in-process fake (PING, GET, SET [NX] PX with exact ms expiry on the process clock); redis is "
    "modelled (Cache/CacheTier.v) as a map with a deadline per key that may forget any key; clock skew between hosts "
    "sharing a redis is outside the model's assumptions; uint32(float64 seconds) modelled as truncation mod 2^32 (exact "
    "below 2^24 s; amd64 conversion through int64)",
]

PROPS["C08"] = dict(
    kinds=[
        dict(name="policy", gen=c08_policy_gen, oracle=c08_policy_oracle, respec=c08_policy_respec,
             respec_kind="policyspec", classify=c08_policy_classify, compare=c08_policy_compare, shards=8,
             nontrivial=lambda l, r: r.startswith("stored="), timeout=600),
        dict(name="ttl", gen=c08_ttl_gen, oracle=c08_ttl_oracle, respec=c08_ttl_respec, respec_kind="ttlspec",
             classify=c08_ttl_classify, shards=8,
             nontrivial=lambda l, r: r.startswith("ttls=") or r.startswith("min="), timeout=600),
        dict(name="cachehist", gen=c08_hist_gen, oracle=c08_hist_oracle,
             compare=retrying_compare("cachehist", c08_hist_oracle1),
             classify=c08_hist_classify, shards=4,
             nontrivial=lambda l, r: "H" in r or "M" in r, timeout=600),
        dict(name="routerhist", gen=c08_router_gen, oracle=c08_router_oracle,
             compare=retrying_compare("routerhist", c08_router_oracle1),
             classify=c08_router_classify, shards=4,
             nontrivial=lambda l, r: r.startswith("U") or r.startswith("C"), timeout=600),
        dict(name="storeat", gen=c08_storeat_gen, oracle=c08_storeat_oracle,
             compare=retrying_compare("storeat", c08_storeat_oracle1),
             classify=c08_storeat_classify, shards=4,
             nontrivial=lambda l, r: "H" in r or "M" in r, timeout=600),
        dict(name="promote", gen=c08_promote_gen, oracle=c08_promote_oracle, classify=c08_promote_classify,
             compare=retrying_compare("promote", c08_promote_oracle1),
             nontrivial=lambda l, r: "H" in r, timeout=900),
        dict(name="rediscmd", gen=c08_rediscmd_gen, oracle=c08_rediscmd_oracle, classify=c08_rediscmd_classify,
             compare=retrying_compare("rediscmd", c08_rediscmd_oracle1, c08_rediscmd_compare),
             nontrivial=lambda l, r: "{SET" in r, timeout=900),
        dict(name="refresherr", gen=c08_refresh_gen, oracle=c08_refresh_oracle, classify=c08_refresh_classify, model=False,
             nontrivial=lambda l, r: r.startswith("up=") and not r.startswith("up=0 "), timeout=900),
        dict(name="redisneg", gen=c08_redisneg_gen, oracle=c08_redisneg_oracle, classify=c08_redisneg_classify,
             compare=retrying_compare("redisneg", c08_redisneg_oracle1),
             nontrivial=lambda l, r: "H" in r, timeout=900),
    ],
    rule="policy: the real initCache + cacheCtl.Store on a real MemoryCache, read back with cacheCtl.Get: every rcode 0..15 "
         "x {record-less, OPT only, TTL catalogue incl. 0, 1, 2^31, 2^32-1}, 17 maximum-TTL settings (default, caps, "
         "beyond uint32, int64 wrap), TC, nil, pre-existing positive/negative entry, random section shapes; compared: "
         "(stored new/old/none, expire - stored in ns, TTL vector). ttl: dnsutils.SubtractTTL with deltas around every "
         "TTL / 0 / 2^32-1, GetMinimalTTL, and ageing through the real cacheCtl.Get of an entry whose storedTime lies "
         "k s + 0.3..0.6 s in the past (k up to 2^32-2). cachehist: quiescent Store/Get/nil histories on the real clock "
         "(lifetimes 1-3 s, negative-after-positive, positive-after-negative, expiry), model evaluated for 20 ticker "
         "phases x every choice of expired-node collection; positions where those disagree are compared as 'either'. "
         "routerhist: a real router (real run(), real tcp upstream transport, forward-all rule, memory cache) fed client "
         "queries through handleServerReq against a scripted upstream (positive / NXDOMAIN / NODATA / SERVFAIL / REFUSED / "
         "TC / connection closed); observed per query: upstream contacted or not, rcode, TC, answer TTLs; the model walks "
         "handle_req_store (only miss + reply stores). storeat: real-clock histories with direct MemoryCache.Store calls "
         "(what cacheCtl.Get does when it promotes a redis hit) whose storedTime lies 0 s .. 1 year in the past and whose "
         "expireTime is 0.4-3.4 s ahead, set-if-absent or not, mixed with ordinary stores, probed before expireTime, within "
         "2 s after it and later; model event EvStoreAt. promote: the real cacheCtl with memory + redis backend (in-process "
         "RESP2 fake): own stores whose memory copy is dropped late in the lifetime and answers another instance fetched up "
         "to a year ago, read back through cacheCtl.Get (redis hit, promotion), probed after fetch + lifetime + 2 s; model "
         "Cache/CacheTier.v over 20 ticker phases x 40 Unix-second phases. rediscmd: one Store per answer class (NOERROR with / "
         "without records, every error rcode, with / without records; redis-only and memory + redis; maximum_ttl default / "
         "2 s / 40 s): the SET command as the fake redis server received it (NX flag, PX value) against the model's "
         "ct_store_cmd, then lookups after the server's (virtual) clock jumped past lifetime + 2 s and one hour more. "
         "refresherr: a real router whose cache (memory-only / redis-only / both) holds a positive answer in its refresh "
         "window while the upstream answers every refresh with an error rcode; three client queries must all be served the "
         "positive answer (oracle only). distinct = distinct case line",
    assumptions=["otter clock model (see trusted base); cachehist ops are scheduled >= 200 ms away from whole-second "
                 "distances to the stores they depend on, and a case whose ops ran > 150 ms late is re-run once, then "
                 "reported as a harness note, never as an alarm; a real-clock case that passes the property oracle but "
                 "differs from the model (an early miss: pool double release hitting an unrelated key, starved ticker) is "
                 "re-run up to twice; the harness drains the process's sync.Pools before every real-clock case",
                 "fetch instant of the property = cacheEntry.storedTime (time.Now() inside cacheCtl.Store)"],
    trusted=C08_TRUST,
    level_note="C08 proof: TTL ageing, lifetime table (no overflow up to 2^32-1), never-cached and set-if-absent "
               "theorems hold for all messages / histories of the model; the expiry bound is proved under the stated "
               "otter clock model for every storedTime (direct MemoryCache.Store, promotion of a redis hit) and for the "
               "two-tier model memory + redis (real clocks are sampled by kinds cachehist, storeat, promote; redis is an "
               "in-process fake)",
)
