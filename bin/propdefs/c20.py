import gens
from props import PROPS, budget

# ---------------------------------------------------------------- C20 (recycled memory is exclusively owned)
STREAM_SCHEDS = ["reply-first", "cancel-before-write", "deadline-before-write", "cancel-during-read",
                 "retry-after-write-error", "cancel-before-write-overlap"]
PIPE_SCHEDS = ["reply", "dup-reply", "late-reply"]
DOH_SCHEDS = ["reply-first", "cancel-during-dial", "deadline-during-dial", "cancel-during-dial-overlap", "cancel-during-read"]
# round 4: fault paths (stream reads that end inside a frame, a failing TCP leg of the UDP fallback), the hand-over of the
# reply against the caller's cancellation, header-only replies; replayed with the buffer hook AND the object hook on
RDFAULT_SCHEDS = ["complete", "eof-before-frame", "short-prefix", "short-body", "reset-mid-body", "short-body-overlap"]
LISTEN_SCHEDS = ["short-body", "reset-mid-body", "short-prefix", "eof-before-frame"]
FALLBACK_SCHEDS = ["plain", "tc-tcp-ok", "tc-tcp-close", "tc-tcp-refused", "tc-tcp-short", "tc-tcp-garbage",
                   "tc-tcp-close-overlap", "udp-timeout"]
HANDOVER_SCHEDS = ["reply-no-cancel", "cancel-after-reply", "deadline-after-reply", "cancel-before-reply"]
EMPTYRESP_SCHEDS = ["no-rd", "opcode", "qr-set", "qdcount2", "qdcount0", "refused", "reject", "servfail"]


def fault_cases(rng, reps, start, race=False):
    out = []
    n = start
    tail = " race=1" if race else ""

    def add(txt):
        nonlocal n
        out.append("%s%d %s mode=poison seed=%d%s" % ("r" if race else "f", n, txt, rng.randrange(1 << 30), tail))
        n += 1
    for rep in range(reps):
        for tr in ("reuse", "pipeline", "quic"):
            for sched in RDFAULT_SCHEDS:
                add("sc=rdfault tr=%s sched=%s" % (tr, sched))
        for sched in FALLBACK_SCHEDS:
            add("sc=fallback sched=%s" % sched)
        for sched in HANDOVER_SCHEDS:
            add("sc=handover sched=%s" % sched)
    # the scenarios that start the in-process router: once per schedule (each runs every listener twice)
    for sched in LISTEN_SCHEDS:
        add("sc=listen sched=%s" % sched)
    for sched in EMPTYRESP_SCHEDS:
        add("sc=emptyresp sched=%s" % sched)
    for sched in ("hit-last-quarter", "hit-last-quarter", "hit-fresh"):
        add("sc=prefetch sched=%s" % sched)
    return out


def ownership_gen(rng, tier):
    """every release/use ordering of the transports that hand a pooled object to a second goroutine, replayed
    deterministically with gated fake peers; seeds vary the query (length => buffer size class)"""
    out = []
    n = 0
    reps = budget(tier, 3, 25)
    for rep in range(reps):
        for sc in ("reuse", "quic"):
            for sched in STREAM_SCHEDS:
                if sc == "quic" and sched == "retry-after-write-error":
                    continue
                modes = ["poison"]
                if sc == "reuse" and sched.startswith("cancel-before-write"):
                    modes.append("onep")
                for mode in modes:
                    out.append("o%d sc=%s sched=%s mode=%s seed=%d" % (n, sc, sched, mode, rng.randrange(1 << 30)))
                    n += 1
        for sched in PIPE_SCHEDS:
            out.append("o%d sc=pipeline sched=%s mode=poison seed=%d" % (n, sched, rng.randrange(1 << 30)))
            n += 1
        # DoH: the query string handed to the HTTP round-trip goroutine, gated dialer (slow dial / handshake);
        # doh = HTTP/1.1 plain, doh2 = HTTP/2 over TLS
        for sc in ("doh", "doh2"):
            for sched in DOH_SCHEDS:
                modes = ["poison"]
                if sched in ("cancel-during-dial", "cancel-during-dial-overlap"):
                    modes.append("onep")
                for mode in modes:
                    out.append("o%d sc=%s sched=%s mode=%s seed=%d" % (n, sc, sched, mode, rng.randrange(1 << 30)))
                    n += 1
    out += fault_cases(rng, budget(tier, 2, 12), n)
    n = len(out)
    if tier == "thorough":
        out += fault_cases(rng, 2, n, race=True)
        n = len(out)
        for sc in ("doh", "doh2"):
            for sched in DOH_SCHEDS:
                out.append("r%d sc=%s sched=%s mode=poison seed=%d race=1" % (n, sc, sched, rng.randrange(1 << 30)))
                n += 1
        # the same replays under the race detector (build/implrun-race)
        for sc in ("reuse", "quic"):
            for sched in STREAM_SCHEDS:
                if sc == "quic" and sched == "retry-after-write-error":
                    continue
                out.append("r%d sc=%s sched=%s mode=poison seed=%d race=1" % (n, sc, sched, rng.randrange(1 << 30)))
                n += 1
        for sched in PIPE_SCHEDS:
            out.append("r%d sc=pipeline sched=%s mode=poison seed=%d race=1" % (n, sched, rng.randrange(1 << 30)))
            n += 1
    return out


def _race_reason(r):
    rc = r.get("race")
    if rc not in (None, "0"):
        return "%s DATA RACE report(s) from the race detector (first report kept in build/replay/C20-race-<case>.txt)" % rc
    return None


def ownership_oracle(line, res):
    r = gens.fields(res)
    if "viol" not in r:
        return None
    why = []
    wires = r.get("wire", "-").split(",")
    if any(w in ("poison", "foreign", "other") for w in wires):
        why.append("octets sent to the upstream are not the caller's own query (wire=%s): "
                   "a buffer was used after its release" % r.get("wire"))
    ret = r.get("ret", "")
    if "damaged-reply" in ret:
        why.append("a delivered reply message was released/recycled while the caller still used it")
    if "returned-released" in ret or "nil-nil" in ret:
        why.append("an exchange returned (with a nil error) a message that had already been released")
    if "released-while-held" in ret:
        why.append("a message was released by somebody else while its owner (the caller it was returned to) held it")
    if "same-object-twice" in ret:
        why.append("one message object was handed to two owners")
    if "up:foreign-question" in ret:
        why.append("the upstream was asked a question no client asked (a question read after its release, or another "
                   "request's question): " + ",".join(t for t in ret.split(",") if t.startswith("up:foreign")))
    if any(t.endswith((":poison", ":bad-response", ":undecodable")) for t in ret.split(",")):
        why.append("a client of the router received poison / a response that is not the answer to its own query (%s)"
                   % ",".join(t for t in ret.split(",") if t.endswith((":poison", ":bad-response", ":undecodable"))))
    if r.get("ev", "-") != "-":
        why.append("pool hook events: " + r["ev"])
    rr = _race_reason(r)
    if rr:
        why.append(rr)
    if why:
        return "; ".join(why)
    if r["viol"] != "0":
        return "violation flagged: " + res
    return None


def ownership_compare(ir, mr):
    a, b = gens.fields(ir), gens.fields(mr)
    return a.get("viol") == b.get("viol")


def ownership_classify(line, res):
    f = gens.fields(line)
    if "tr" in f:
        return "%s-%s/%s/%s/%s" % (f.get("sc"), f.get("tr"), f.get("sched"), f.get("mode"), gens.fields(res).get("viol", "?"))
    if f.get("sc") in ("listen", "fallback", "handover", "emptyresp", "prefetch"):
        return "%s/%s/%s/%s" % (f.get("sc"), f.get("sched"), f.get("mode"), gens.fields(res).get("viol", "?"))
    return "%s/%s/%s/%s" % (f.get("sc"), f.get("sched"), f.get("mode"), gens.fields(res).get("wire", "?"))


def ownload_gen(rng, tier):
    out = []
    if tier == "thorough":
        for i in range(8):
            out.append("l%d seed=%d n=%d conc=%d cache=%d tn=%d" % (
                i, rng.randrange(1 << 30), 20000, rng.choice([32, 64, 128]), rng.choice([3000, 6000, 20000]), 20000))
        for i in range(4):
            out.append("lr%d seed=%d n=%d conc=%d cache=%d tn=%d race=1" % (
                i, rng.randrange(1 << 30), 4000, rng.choice([32, 64]), rng.choice([3000, 6000]), 4000))
    else:
        for i in range(3):
            out.append("l%d seed=%d n=%d conc=%d cache=%d tn=%d" % (
                i, rng.randrange(1 << 30), 4000, rng.choice([32, 48, 64]), rng.choice([3000, 6000, 12000]), 5000))
    return out


def ownload_oracle(line, res):
    r = gens.fields(res)
    if "viol" not in r:
        return None
    why = []
    for k, txt in (("poison", "client-visible responses containing poison"),
                   ("badans", "responses whose answer is not the keyed function of their own question (or not the question asked)"),
                   ("upoison", "upstream-visible queries containing poison"),
                   ("uforeign", "upstream-visible queries that are no question of the vocabulary"),
                   ("tbad", "direct transport exchanges that returned another exchange's reply or an already released message")):
        if r.get(k, "0") != "0":
            why.append("%s %s" % (r[k], txt))
    if r.get("ev", "-") != "-":
        why.append("pool hook events: " + r["ev"])
    rr = _race_reason(r)
    if rr:
        why.append(rr)
    if why:
        return "; ".join(why)
    if r["viol"] != "0":
        return "violation flagged: " + res
    return None


def ownload_nontrivial(line, res):
    r = gens.fields(res)
    try:
        return int(r.get("ok", "0")) > 500 and int(r.get("tok", "0")) > 500
    except ValueError:
        return False


def c20_decode_gen(rng, tier):
    """C20_decode_copies: implrun's decode overwrites the input buffer (a pool buffer) with 0xAA and releases it BEFORE
    it dumps the decoded message; any field aliasing the input would differ from the model's decode"""
    n = budget(tier, 1500, 40000)
    out = []
    for t, b in gens.boundary_msgs(rng):
        out.append("b_%s msg=%s" % (t, gens.hx(b)))
    for i in range(n):
        out.append("g%d msg=%s" % (i, gens.hx(gens.gen_msg(rng, max_rr=rng.choice([4, 8, 16])))))
    return out


def c20_decode_oracle(line, res):
    if res.startswith("PANIC!") or res.startswith("HANG") or res == "CRASH":
        return "decoder did not return: " + res[:60]
    if res.startswith("OK") and "aaaaaaaa" in res and "aaaaaaaa" not in line:
        return "decoded message contains the 0xAA pattern written into the receive buffer after decoding (aliasing)"
    return None


def owndecode_gen(rng, tier):
    """the decoder's release discipline, both hooks on: valid messages, messages whose RDLENGTH lies (every record type
    with names in its RDATA), messages cut at every offset, mutated messages"""
    import struct
    out = []
    n = [0]

    def add(tag, b):
        out.append("%s%d msg=%s" % (tag, n[0], gens.hx(b)))
        n[0] += 1
    # catalogue: one record of each type, RDLENGTH off by -1 / +1 / +2, and the message cut at every offset
    for typ in (gens.T_A, gens.T_AAAA, gens.T_NS, gens.T_CNAME, gens.T_PTR, gens.T_MX, gens.T_SOA, gens.T_SRV, gens.T_TXT,
                gens.T_OPT, 99):
        for lie in (0, -1, 1, 2):
            e = gens.Enc(rng, 0.0)
            pool = gens.NamePool(rng)
            e.u16(rng.randrange(65536)); e.u16(0x8180); e.u16(1); e.u16(2); e.u16(0); e.u16(0)
            e.name(pool.pick()); e.u16(typ); e.u16(1)
            gens.put_rr(e, rng, pool, typ=typ, rdlen_lie=lie)
            gens.put_rr(e, rng, pool, typ=typ)
            b = bytes(e.b)
            add("cat", b)
            if lie == 0:
                step = 1 if tier == "thorough" else 3
                for cut in range(12, len(b), step):
                    add("cut", b[:cut])
    for i in range(budget(tier, 250, 8000)):
        add("v", gens.gen_msg(rng, max_rr=rng.choice([4, 8])))
    for i in range(budget(tier, 400, 12000)):
        add("l", gens.gen_msg(rng, rdlen_lie=True, max_rr=rng.choice([2, 4, 8])))
    for i in range(budget(tier, 400, 12000)):
        add("m", gens.mutate(rng, gens.gen_msg(rng, rdlen_lie=rng.random() < 0.3, max_rr=4)))
    return out


def owndecode_oracle(line, res):
    if res.startswith("PANIC!") or res.startswith("HANG") or res == "CRASH":
        return "decoder did not return: " + res[:60]
    if res.startswith("ev=") and not res.startswith("ev=- "):
        return "hook events while decoding / releasing: " + res.split(" ")[0][3:]
    if "aaaaaaaa" in res and "aaaaaaaa" not in line:
        return "decoded message contains the 0xAA pattern written into the receive buffer after decoding (aliasing)"
    return None


def owndecode_compare(ir, mr):
    return ir.startswith("ev=") and ir.split(" ", 1)[1:] == [mr]


PROPS["C20"] = dict(
    race=True,
    kinds=[
        dict(name="ownership", gen=ownership_gen, oracle=ownership_oracle, compare=ownership_compare,
             classify=ownership_classify, nontrivial=lambda l, r: "viol=" in r, timeout=900),
        dict(name="ownload", gen=ownload_gen, oracle=ownload_oracle, model=False,
             classify=lambda l, r: "load/" + gens.fields(r).get("viol", "?"), nontrivial=ownload_nontrivial, timeout=2400),
        dict(name="decode", gen=c20_decode_gen, oracle=c20_decode_oracle,
             classify=lambda l, r: "decode/" + r.split(" ")[0][:8], nontrivial=lambda l, r: r.startswith("OK"), timeout=900),
        dict(name="owndecode", gen=owndecode_gen, oracle=owndecode_oracle, compare=owndecode_compare,
             classify=lambda l, r: "owndecode/" + l[:1] + "/" + (r.split(" ") + ["?", "?"])[1][:3],
             nontrivial=lambda l, r: r.startswith("ev="), timeout=900),
    ],
    rule="ownership: every (transport, release/use ordering) pair replayed deterministically against gated fake peers "
         "(reuse, QUIC, pipeline: gated Write; DoH over HTTP/1.1 and HTTP/2-TLS: gated dialer, the fake server records the "
         "request target it receives) "
         "with the pool's poison/quarantine hook on (and, for the D14 orderings, also with the hook off and one P, a second "
         "request recycling the array); compared with the verdict of the ownership LTS for the same schedule; "
         "round 4 (buffer hook AND the object hook of internal/dnsmsg on; the harness is the owner of every message it is "
         "given: never reported released while held, released exactly once): rdfault = a reply frame that ends inside the "
         "frame (EOF / reset after the prefix and fewer octets than announced, half a prefix, before the prefix) on the "
         "reuse / pipeline / QUIC transports; listen = the same from clients of the tcp / tls / quic / gnet listeners of the "
         "in-process router; fallback = udp upstream with a truncated reply and a failing TCP leg (closed, refused, short "
         "frame, garbage); handover = the caller's context ends right after it received the reply while the worker is "
         "parked in its epilogue (contention on the transport mutex); emptyresp = header-only replies: not-implemented queries "
         "(RD clear, opcode, QR set, QDCOUNT 0/2), no matching rule (REFUSED), a rejecting rule, a failing upstream (SERVFAIL) "
         "through every listener, each followed by ordinary queries; prefetch = cache hits in the last quarter of the entry's "
         "life (entry placed with chosen instants) through every listener: every query the upstream sees must be a question a "
         "client asked; "
         "ownload: concurrent end-to-end load through the in-process router (udp/tcp/gnet/http/fasthttp listeners, "
         "udp-pipeline(+tcp fallback) + tcp-reuse + tcp-pipeline transports, small cache, hanging-up clients, clients whose "
         "frame ends early, not-implemented queries, upstreams that truncate over UDP and end TCP frames early) followed by direct "
         "transport exchanges with tiny and already-expired deadlines, hook on; oracle = no poison in any client-visible "
         "response or upstream-visible query, keyed answers, zero hook events (buffers: double / foreign release, write after "
         "release; objects: double release, write after release, one object handed out twice), no exchange returning a "
         "released message; decode: decoded dump taken after the input "
         "buffer was overwritten and released, compared with the model's decode; owndecode: valid, RDLENGTH-lying, cut and "
         "mutated messages decoded and released with both hooks on (zero events; result compared with the model's decode). distinct = distinct case line; "
         "non-trivial = the scenario ran to a verdict (ownership), > 500 checked responses and > 500 checked direct "
         "exchanges (ownload), accepted message (decode). thorough: the same under -race (build/implrun-race); any DATA "
         "RACE report is a violation.",
    assumptions=["the gated fake net.Conn / quic.Stream behave like real ones whose Write blocks (send buffer full); the fake "
                 "QUIC stream keeps quic-go's contract that nothing reads Write's argument after CancelWrite returned",
                 "Go's mutexes, channels and sync.Pool are atomic and sequentially consistent for properly synchronised "
                 "programs (Go memory model)"],
    trusted=["C20: the poison hook, the object ownership hook and the race detector only SEARCH for a failing schedule of the real code; the theorems "
             "cover the ownership protocols as modelled in coq/Own/Ownership.v (hand-written from the Go code, one "
             "instruction per atomic action)"],
    level_note="Partial: data-race freedom of arbitrary Go code is a runtime property. Proved (axiom-free, all interleavings "
               "of any length, adversarial recycling environment): no use after release, single owner, no double/foreign "
               "release, no foreign cache data for the modelled protocols (UDP/TCP/HTTP/gnet handlers, pipeline, reuse after "
               "the D14 fix, QUIC, cache entry recycling; stream reader with failing reads, UDP->TCP fallback with failing "
               "legs, reply hand-over vs cancellation, header-only replies with their pooled Question objects); gnet fallback "
               "linked to C09_pack_total; D14 and the four round-4 variants refuted by explicit schedules. Tied to the code by deterministic replays of the modelled orderings and by sampling real schedules "
               "(poison/quarantine hook; race detector in the thorough tier).",
)
