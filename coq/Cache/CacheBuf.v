(* Cache/CacheBuf.v — the value BUFFERS of the memory cache (C07, round 2).

   Cache/CacheMem.v treats a cached value as an immutable list.  In internal/cache/mem.go it is a slice of a POOLED
   byte array (pool.CopyBuf / pool.ReleaseBuf): releaseEntry hands the array back to the byte pool and the next
   pool.GetBuf of that size class - another Store's copy of ITS value, or another reader's result buffer - gets the
   same array and overwrites it.  This file models exactly that layer, one label per atomic action:

     Store(k, v):  b := GetBuf(len v)  (any free array; its old octets are still in it);  b[i] := v[i] one octet per
                   step;  e := newCacheEntry() (ANY entry: the entry pool may hand out whatever it likes);  e.l.Lock();
                   e.k, e.v := k, b[:n];  e.l.Unlock()
     Get(k):       e := backend.Get(k) (ANY entry: the backend may return whatever it likes);  TryRLock;
                   e.v == nil || e.k != k -> RUnlock, miss;   ev := e.v;   d := GetBuf(len ev);   d[i] := ev[i] one octet
                   per step;   RUnlock;   return d
                   with [early] = true the RUnlock is moved before the copy ("only grab the fields under the lock"):
                   the variant the property excludes.
     releaseEntry(k, e): e.l.Lock();  e.k != k -> Unlock;  otherwise ReleaseBuf(e.v); e.v = nil; e.k = ""; Unlock
     the caller of Get releases the buffer it received at any later time.

   Arrays are total functions nat -> octet (a slice is an array and a length), so a reused array shows its previous
   contents.  [cb_own] is GHOST state (who may touch the array: the free list, one goroutine, one entry, the caller);
   no step of a goroutine consults it except GetBuf, which takes an array from the free list.  Reads are never guarded:
   a goroutine that still holds a stale slice reads whatever is in the array now.

   Executable; no proofs in this file (Cache/CacheBufProofs.v). *)
From Mos Require Import Base.Prelude Codec.Name.

Inductive cb_owner := CbFree | CbThr (t : nat) | CbEnt (e : nat) | CbOut.

Inductive cb_wl := CbWThr (t : nat) | CbWRel.        (* write-lock holder: a Store goroutine / releaseEntry *)

Record cb_entry := mkCbE {
  cb_k : list N;                   (* cacheEntry.k *)
  cb_v : option (nat * nat);       (* cacheEntry.v: (array, length); None = nil *)
  cb_w : option cb_wl;
  cb_r : list nat                  (* goroutines holding a read lock *)
}.

Inductive cb_pc :=
| CbIdle
| CbSFill (k v : list N) (b i : nat)          (* Store: b[i] := v[i] next; at i = len v: newCacheEntry() *)
| CbSLock (k : list N) (b n e : nat)          (* next: e.l.Lock() *)
| CbSPut (k : list N) (b n e : nat)           (* holds the lock; next: e.k = k; e.v = b[:n]; Unlock *)
| CbGTry (k : list N) (e : nat)               (* Get: next: e.l.TryRLock() *)
| CbGCheck (k : list N) (e : nat)             (* holds a read lock; next: the check; ev := e.v *)
| CbGAlloc (k : list N) (e b n : nat)         (* next: d := GetBuf(n) *)
| CbGCopy (k : list N) (e b n d i : nat).     (* next: d[i] := b[i]; at i = n: (RUnlock;) return d *)

Inductive cb_event := CbStore (k v : list N) | CbHit (k v : list N) | CbMiss (k : list N).

Record cb_state := mkCb {
  cb_ents : nat -> cb_entry;
  cb_buf : nat -> nat -> N;        (* the arrays *)
  cb_own : nat -> cb_owner;        (* ghost *)
  cb_thr : nat -> cb_pc;
  cb_nthr : nat;
  cb_trace : list cb_event         (* newest first *)
}.

Definition cb_init : cb_state :=
  mkCb (fun _ => mkCbE [] None None []) (fun _ _ => 0%N) (fun _ => CbFree) (fun _ => CbIdle) 0 [].

Inductive cb_label :=
| CbLStore (k v : list N) (b : nat)    (* a new goroutine calls Store(k, v); GetBuf returns the free array b *)
| CbLGet (k : list N) (e : nat)        (* a new goroutine calls Get(k); the backend returns entry e *)
| CbLStep (t : nat) (choice : nat)     (* goroutine t's next atomic action (choice: the entry / array it is handed;
                                          for TryRLock: 1 = fails because a writer is waiting) *)
| CbLRelLock (e : nat)                 (* releaseEntry(_, e): e.l.Lock() *)
| CbLRelClear (k : list N) (e : nat)   (* releaseEntry(k, e): the critical section *)
| CbLCallerRelease (d : nat).          (* the caller of Get hands its buffer back to the pool *)

Definition cb_upd {A} (f : nat -> A) (i : nat) (x : A) : nat -> A := fun j => if Nat.eqb j i then x else f j.
Definition cb_read (a : nat -> N) (n : nat) : list N := map a (seq 0 n).
Definition cb_rem (t : nat) (l : list nat) : list nat := remove Nat.eq_dec t l.
Definition cb_unlocked (x : cb_entry) : bool := match cb_w x, cb_r x with None, [] => true | _, _ => false end.
Definition cb_isfree (o : cb_owner) : bool := match o with CbFree => true | _ => false end.

Definition cb_set_thr (s : cb_state) (t : nat) (p : cb_pc) : cb_state :=
  mkCb (cb_ents s) (cb_buf s) (cb_own s) (cb_upd (cb_thr s) t p) (cb_nthr s) (cb_trace s).
Definition cb_set_ent (s : cb_state) (e : nat) (x : cb_entry) : cb_state :=
  mkCb (cb_upd (cb_ents s) e x) (cb_buf s) (cb_own s) (cb_thr s) (cb_nthr s) (cb_trace s).
Definition cb_set_own (s : cb_state) (b : nat) (o : cb_owner) : cb_state :=
  mkCb (cb_ents s) (cb_buf s) (cb_upd (cb_own s) b o) (cb_thr s) (cb_nthr s) (cb_trace s).
Definition cb_write (s : cb_state) (b i : nat) (x : N) : cb_state :=
  mkCb (cb_ents s) (cb_upd (cb_buf s) b (cb_upd (cb_buf s b) i x)) (cb_own s) (cb_thr s) (cb_nthr s) (cb_trace s).
Definition cb_emit (s : cb_state) (ev : cb_event) : cb_state :=
  mkCb (cb_ents s) (cb_buf s) (cb_own s) (cb_thr s) (cb_nthr s) (ev :: cb_trace s).
Definition cb_spawn (s : cb_state) (p : cb_pc) : cb_state :=
  mkCb (cb_ents s) (cb_buf s) (cb_own s) (cb_upd (cb_thr s) (cb_nthr s) p) (S (cb_nthr s)) (cb_trace s).

Definition cb_runlock (s : cb_state) (e t : nat) : cb_state :=
  let x := cb_ents s e in cb_set_ent s e (mkCbE (cb_k x) (cb_v x) (cb_w x) (cb_rem t (cb_r x))).

Definition cb_step_thread (early : bool) (s : cb_state) (t choice : nat) : option cb_state :=
  match cb_thr s t with
  | CbIdle => None
  | CbSFill k v b i =>
    if i <? length v then Some (cb_set_thr (cb_write s b i (nth i v 0%N)) t (CbSFill k v b (S i)))
    else Some (cb_set_thr s t (CbSLock k b (length v) choice))
  | CbSLock k b n e =>
    let x := cb_ents s e in
    if cb_unlocked x
    then Some (cb_set_thr (cb_set_ent s e (mkCbE (cb_k x) (cb_v x) (Some (CbWThr t)) (cb_r x))) t (CbSPut k b n e))
    else None
  | CbSPut k b n e =>
    let x := cb_ents s e in
    Some (cb_set_thr (cb_set_own (cb_set_ent s e (mkCbE k (Some (b, n)) None (cb_r x))) b (CbEnt e)) t CbIdle)
  | CbGTry k e =>
    let x := cb_ents s e in
    match cb_w x, choice with
    | None, O => Some (cb_set_thr (cb_set_ent s e (mkCbE (cb_k x) (cb_v x) None (t :: cb_r x))) t (CbGCheck k e))
    | _, _ => Some (cb_emit (cb_set_thr s t CbIdle) (CbMiss k))
    end
  | CbGCheck k e =>
    let x := cb_ents s e in
    match cb_v x with
    | Some (b, n) =>
      if list_eqb (cb_k x) k
      then Some (cb_set_thr (if early then cb_runlock s e t else s) t (CbGAlloc k e b n))
      else Some (cb_emit (cb_set_thr (cb_runlock s e t) t CbIdle) (CbMiss k))
    | None => Some (cb_emit (cb_set_thr (cb_runlock s e t) t CbIdle) (CbMiss k))
    end
  | CbGAlloc k e b n =>
    if cb_isfree (cb_own s choice)
    then Some (cb_set_thr (cb_set_own s choice (CbThr t)) t (CbGCopy k e b n choice 0))
    else None
  | CbGCopy k e b n d i =>
    if i <? n then Some (cb_set_thr (cb_write s d i (cb_buf s b i)) t (CbGCopy k e b n d (S i)))
    else
      let s1 := if early then s else cb_runlock s e t in
      Some (cb_emit (cb_set_thr (cb_set_own s1 d CbOut) t CbIdle) (CbHit k (cb_read (cb_buf s d) n)))
  end.

Definition cb_step (early : bool) (s : cb_state) (l : cb_label) : option cb_state :=
  match l with
  | CbLStore k v b =>
    if cb_isfree (cb_own s b)
    then Some (cb_emit (cb_spawn (cb_set_own s b (CbThr (cb_nthr s))) (CbSFill k v b 0)) (CbStore k v))
    else None
  | CbLGet k e => Some (cb_spawn s (CbGTry k e))
  | CbLStep t c => cb_step_thread early s t c
  | CbLRelLock e =>
    let x := cb_ents s e in
    if cb_unlocked x then Some (cb_set_ent s e (mkCbE (cb_k x) (cb_v x) (Some CbWRel) (cb_r x))) else None
  | CbLRelClear k e =>
    let x := cb_ents s e in
    match cb_w x with
    | Some CbWRel =>
      if list_eqb (cb_k x) k
      then
        let s1 := match cb_v x with Some (b, _) => cb_set_own s b CbFree | None => s end in
        Some (cb_set_ent s1 e (mkCbE [] None None (cb_r x)))
      else Some (cb_set_ent s e (mkCbE (cb_k x) (cb_v x) None (cb_r x)))
    | _ => None
    end
  | CbLCallerRelease d =>
    match cb_own s d with CbOut => Some (cb_set_own s d CbFree) | _ => None end
  end.

Fixpoint cb_run (early : bool) (ls : list cb_label) (s : cb_state) : option cb_state :=
  match ls with
  | [] => Some s
  | l :: r => match cb_step early s l with Some s' => cb_run early r s' | None => None end
  end.

(* the trace property: every hit is preceded by a Store of the same key and the same octets *)
Fixpoint cb_hits_ok (tr : list cb_event) : Prop :=
  match tr with
  | [] => True
  | CbHit k v :: r => In (CbStore k v) r /\ cb_hits_ok r
  | _ :: r => cb_hits_ok r
  end.
