(* Cache/CacheKey.v — model of app/router/cache.go  cacheKey, and of the way the router reaches it.

     func cacheKey(q *dnsmsg.Question, mark string) pool.Buffer {
         b := pool.GetBuf(len(q.Name) + 5 + len(mark))
         off := copy(b, q.Name)
         b[off] = 0 ; off++                                   (fix K2: terminating zero octet)
         binary.BigEndian.PutUint16(b[off:], uint16(q.Class)) (fix D3: was AppendUint16 = no write at all)
         off += 2
         binary.BigEndian.PutUint16(b[off:], uint16(q.Type))
         off += 2
         copy(b[off:], []byte(mark))
         return b }

   q.Name is the raw wire name without its terminating zero (Codec/Name.v); handleReqMsg lower-cases it
   (dnsmsg.ToLowerName) before handleReq -> cacheCtl.Get / cacheCtl.Store build the key.
   Model only (no proofs here): Cache/CacheKeyProofs.v. *)
From Mos Require Import Base.Prelude Codec.Name.

(* the layout in the repository after the two fixes *)
Definition cache_key (name : list N) (class typ : N) (mark : list N) : list N :=
  name ++ 0%N :: be16 class ++ be16 typ ++ mark.

(* the layout of the pinned tree with only D3 repaired (what the author meant to write):
   name ‖ class ‖ type ‖ mark, nothing between the name and the class octets (finding K2) *)
Definition cache_key_pinned (name : list N) (class typ : N) (mark : list N) : list N :=
  name ++ be16 class ++ be16 typ ++ mark.

(* handleReqMsg: ToLowerName(q.Name), then cacheKey(q, mark) *)
Definition req_key (name : list N) (class typ : N) (mark : list N) : list N :=
  cache_key (to_lower_name name) class typ mark.
Definition req_key_pinned (name : list N) (class typ : N) (mark : list N) : list N :=
  cache_key_pinned (to_lower_name name) class typ mark.

(* executable oracle of the property on one pair of requests: keys agree iff the four components agree
   (name compared ASCII-case-insensitively, i.e. after ToLowerName) *)
Definition same_request (n1 : list N) (c1 t1 : N) (m1 : list N) (n2 : list N) (c2 t2 : N) (m2 : list N) : bool :=
  list_eqb (to_lower_name n1) (to_lower_name n2) && (c1 =? c2)%N && (t1 =? t2)%N && list_eqb m1 m2.

Definition spec_keys (n1 : list N) (c1 t1 : N) (m1 : list N) (n2 : list N) (c2 t2 : N) (m2 : list N)
           (k1 k2 : list N) : bool :=
  Bool.eqb (list_eqb k1 k2) (same_request n1 c1 t1 m1 n2 c2 t2 m2).

(* driver glue: the number denoted by a big-endian octet string (addresses of the marker cases) *)
Definition n_of_bytes (bs : list N) : N := fold_left (fun a b => (a * 256 + b)%N) bs 0%N.
