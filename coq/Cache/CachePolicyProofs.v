(* Cache/CachePolicyProofs.v — proofs about Cache/CachePolicy.v (C08). Qed only. *)
From Mos Require Import Base.Prelude Codec.Msg Cache.CachePolicy.
From Coq Require Import ZifyN ZifyNat ZifyBool.

Local Open Scope Z_scope.
Ltac Zify.zify_post_hook ::= Z.to_euclidean_division_equations.

(* ================================================================== integer facts *)
Lemma wrap64_id z : -9223372036854775808 <= z < 9223372036854775808 -> wrap64 z = z.
Proof. unfold wrap64. intros H. lia. Qed.

(* time.Duration(u) * time.Second never overflows for a uint32 u *)
Lemma dur_of_secs_exact u : (u <= u32max)%N -> dur_of_secs u = Z.of_N u * SECOND.
Proof. unfold dur_of_secs, u32max, SECOND. intros H. apply wrap64_id. lia. Qed.

Lemma dur_of_secs_range u : (u <= u32max)%N -> 0 <= dur_of_secs u < 9223372036854775808.
Proof. intros H. rewrite dur_of_secs_exact by exact H. unfold u32max, SECOND in *. lia. Qed.

Lemma init_max_ttl_pos c : 0 < init_max_ttl c.
Proof.
  unfold init_max_ttl, default_max_cache_ttl, SECOND.
  destruct (wrap64 (c * 1000000000) <=? 0) eqn:E; lia.
Qed.

Lemma init_max_ttl_default c : c <= 0 -> -9223372036 <= c -> init_max_ttl c = 6 * 3600 * SECOND.
Proof.
  unfold init_max_ttl, default_max_cache_ttl, SECOND. intros H1 H2.
  rewrite wrap64_id by lia.
  destruct (c * 1000000000 <=? 0) eqn:E; lia.
Qed.

Lemma init_max_ttl_conf c : 0 < c <= 9223372036 -> init_max_ttl c = c * SECOND.
Proof.
  unfold init_max_ttl, default_max_cache_ttl, SECOND. intros H.
  rewrite wrap64_id by lia.
  destruct (c * 1000000000 <=? 0) eqn:E; lia.
Qed.

(* for every configuration value that does not overflow int64 the maximum is a positive whole number of seconds *)
Lemma init_max_ttl_whole c : -9223372036 <= c <= 9223372036 ->
  SECOND <= init_max_ttl c /\ init_max_ttl c mod SECOND = 0.
Proof.
  intros H. destruct (Z_le_gt_dec c 0).
  - rewrite init_max_ttl_default by lia. unfold SECOND. split; [lia|reflexivity].
  - rewrite init_max_ttl_conf by lia. split; [unfold SECOND; lia|apply Z_mod_mult].
Qed.

(* ================================================================== GetMinimalTTL *)
Lemma min_ttl_loop_spec l : forall acc has mn h,
  min_ttl_loop l acc has = (mn, h) ->
  (mn <= acc)%N /\
  (forall r, In r l -> cp_is_opt r = false -> (mn <= r_ttl r)%N) /\
  h = (has || existsb (fun r => negb (cp_is_opt r)) l)%bool /\
  (mn = acc \/ exists r, In r l /\ cp_is_opt r = false /\ r_ttl r = mn).
Proof.
  induction l as [|r l IH]; cbn [min_ttl_loop existsb]; intros acc has mn h H.
  - inversion H; subst. split; [lia|]. split; [intros r []|]. split; [now rewrite orb_false_r|now left].
  - destruct (cp_is_opt r) eqn:Eo; cbn [negb orb].
    + apply IH in H. destruct H as (H1 & H2 & H3 & H4). repeat split; auto.
      * intros r' [<-|Hin] Hr'; [congruence|auto].
      * destruct H4 as [->|(r' & Hin & Ho & Ht)]; [now left|right; exists r'; cbn; auto].
    + apply IH in H. destruct H as (H1 & H2 & H3 & H4).
      destruct (r_ttl r <? acc)%N eqn:El.
      * apply N.ltb_lt in El. repeat split.
        -- lia.
        -- intros r' [<-|Hin] Hr'; [lia|auto].
        -- rewrite H3. now rewrite orb_true_r, orb_true_l.
        -- destruct H4 as [->|(r' & Hin & Ho & Ht)]; right; [exists r; cbn; auto|exists r'; cbn; auto].
      * apply N.ltb_ge in El. repeat split.
        -- lia.
        -- intros r' [<-|Hin] Hr'; [lia|auto].
        -- rewrite H3. now rewrite orb_true_r, orb_true_l.
        -- destruct H4 as [->|(r' & Hin & Ho & Ht)]; [now left|right; exists r'; cbn; auto].
Qed.

(* ok = true: u is the smallest TTL among the non-OPT records of all three sections, and one of them carries it *)
Lemma get_minimal_ttl_some m u :
  get_minimal_ttl m = (u, true) ->
  (u <= u32max)%N /\
  (forall r, In r (rrs m) -> cp_is_opt r = false -> (u <= r_ttl r)%N) /\
  ((exists r, In r (rrs m) /\ cp_is_opt r = false /\ r_ttl r = u) \/
   (u = u32max /\ exists r, In r (rrs m) /\ cp_is_opt r = false)).
Proof.
  unfold get_minimal_ttl. destruct (min_ttl_loop (rrs m) u32max false) as [mn h] eqn:E.
  apply min_ttl_loop_spec in E. destruct E as (H1 & H2 & H3 & H4).
  destruct h; intros H; inversion H; subst; clear H.
  split; [exact H1|]. split; [exact H2|].
  destruct H4 as [->|H4]; [right|left; exact H4].
  split; [reflexivity|]. cbn [orb] in H3. symmetry in H3. apply existsb_exists in H3.
  destruct H3 as (r & Hin & Hr). exists r. split; [exact Hin|]. now destruct (cp_is_opt r).
Qed.

(* ok = false: the message has no record besides OPT, and the returned TTL is 0 *)
Lemma get_minimal_ttl_none m u :
  get_minimal_ttl m = (u, false) -> u = 0%N /\ forall r, In r (rrs m) -> cp_is_opt r = true.
Proof.
  unfold get_minimal_ttl. destruct (min_ttl_loop (rrs m) u32max false) as [mn h] eqn:E.
  apply min_ttl_loop_spec in E. destruct E as (H1 & H2 & H3 & H4).
  destruct h; intros H; inversion H; subst; clear H.
  split; [reflexivity|]. intros r Hin. cbn [orb] in H3.
  destruct (cp_is_opt r) eqn:Eo; [reflexivity|].
  assert (existsb (fun r => negb (cp_is_opt r)) (rrs m) = true); [|congruence].
  apply existsb_exists. exists r. rewrite Eo. auto.
Qed.

Lemma get_minimal_ttl_u32 m u h : get_minimal_ttl m = (u, h) -> (u <= u32max)%N.
Proof.
  destruct h; intros H.
  - now apply get_minimal_ttl_some in H.
  - apply get_minimal_ttl_none in H. destruct H as [-> _]. unfold u32max. lia.
Qed.

(* ================================================================== the lifetime table *)
Ltac rcode_cases rcode :=
  unfold RCodeNameError, RCodeServerFailure, RCodeSuccess in *;
  destruct (N.eqb_spec rcode 3) as [->|E3];
  [|destruct (N.eqb_spec rcode 2) as [->|E2]; [|destruct (N.eqb_spec rcode 0) as [->|E0]]];
  cbn [N.eqb Pos.eqb].

Lemma lifetime_le_max rcode has u mx : lifetime rcode has u mx <= mx.
Proof.
  unfold lifetime. cbv zeta.
  match goal with |- (if ?c >? mx then _ else _) <= _ => destruct (c >? mx) eqn:E end; lia.
Qed.

Lemma lifetime_exact rcode has u mx : (u <= u32max)%N ->
  lifetime rcode has u mx =
  Z.min mx (Z.max SECOND
    (if (rcode =? RCodeNameError)%N then (if has then Z.min (30 * SECOND) (Z.of_N u * SECOND) else 30 * SECOND)
     else if (rcode =? RCodeServerFailure)%N then (if has then Z.min (1 * SECOND) (Z.of_N u * SECOND) else 1 * SECOND)
     else if (rcode =? RCodeSuccess)%N then (if has then Z.of_N u * SECOND else 30 * SECOND)
     else (if has then Z.min (5 * SECOND) (Z.of_N u * SECOND) else 5 * SECOND))).
Proof.
  intros Hu. unfold lifetime, cap_default. rewrite dur_of_secs_exact by exact Hu.
  unfold u32max, SECOND in *. cbv zeta.
  rcode_cases rcode; destruct has;
    repeat match goal with |- context [if ?c <=? 0 then _ else _] => destruct (c <=? 0) eqn:? end;
    repeat match goal with |- context [if ?c >? mx then _ else _] => destruct (c >? mx) eqn:? end; lia.
Qed.

(* >= 1 s always (when the configured maximum is at least 1 s, which initCache guarantees), > 0 in any case *)
Lemma lifetime_ge_1s rcode has u mx : (u <= u32max)%N -> SECOND <= mx -> SECOND <= lifetime rcode has u mx.
Proof. intros Hu Hm. rewrite lifetime_exact by exact Hu. lia. Qed.

Lemma lifetime_pos rcode has u mx : (u <= u32max)%N -> 0 < mx -> 0 < lifetime rcode has u mx.
Proof. intros Hu Hm. rewrite lifetime_exact by exact Hu. unfold SECOND. lia. Qed.

(* NOERROR with records: exactly min(maxTtl, max(1 s, minTTL)) *)
Lemma lifetime_noerror rcode u mx : (u <= u32max)%N -> rcode = RCodeSuccess ->
  lifetime rcode true u mx = Z.min mx (Z.max SECOND (Z.of_N u * SECOND)).
Proof. intros Hu ->. rewrite lifetime_exact by exact Hu. reflexivity. Qed.

(* the property's table as an upper bound *)
Lemma lifetime_table rcode has u mx : (u <= u32max)%N -> 0 < mx ->
  lifetime rcode has u mx <= table_bound rcode has u mx.
Proof.
  intros Hu Hm. rewrite lifetime_exact by exact Hu. unfold table_bound.
  unfold u32max, SECOND in *. rcode_cases rcode; destruct has; lia.
Qed.

Lemma table_bound_cases rcode has u mx :
  table_bound rcode has u mx <= mx /\
  (rcode = RCodeNameError -> table_bound rcode has u mx <= 30 * SECOND) /\
  (rcode = RCodeServerFailure -> table_bound rcode has u mx <= 1 * SECOND) /\
  (rcode <> RCodeSuccess -> rcode <> RCodeNameError -> rcode <> RCodeServerFailure ->
     table_bound rcode has u mx <= 5 * SECOND) /\
  (has = false -> table_bound rcode has u mx <= 30 * SECOND) /\
  (rcode = RCodeSuccess -> has = true -> table_bound rcode has u mx = Z.min (Z.max SECOND (Z.of_N u * SECOND)) mx).
Proof.
  unfold table_bound, SECOND. rcode_cases rcode; destruct has; repeat split; intros; try lia;
    unfold RCodeNameError, RCodeServerFailure, RCodeSuccess in *; try lia; try discriminate.
Qed.

(* lifetimes are whole seconds whenever the configured maximum is *)
Lemma lifetime_whole rcode has u mx : (u <= u32max)%N -> mx mod SECOND = 0 -> lifetime rcode has u mx mod SECOND = 0.
Proof.
  intros Hu Hm. rewrite lifetime_exact by exact Hu. unfold SECOND in *.
  rcode_cases rcode; destruct has; lia.
Qed.

(* ---- the same, for a message *)
Lemma msg_lifetime_le_max mx m : msg_lifetime mx m <= mx.
Proof. unfold msg_lifetime. destruct (get_minimal_ttl m). apply lifetime_le_max. Qed.

Lemma msg_lifetime_ge_1s mx m : SECOND <= mx -> SECOND <= msg_lifetime mx m.
Proof.
  unfold msg_lifetime. destruct (get_minimal_ttl m) as [u h] eqn:E. intros H.
  apply lifetime_ge_1s; [eapply get_minimal_ttl_u32; eauto|exact H].
Qed.

Lemma msg_lifetime_whole mx m : mx mod SECOND = 0 -> msg_lifetime mx m mod SECOND = 0.
Proof.
  unfold msg_lifetime. destruct (get_minimal_ttl m) as [u h] eqn:E. intros H.
  apply lifetime_whole; [eapply get_minimal_ttl_u32; eauto|exact H].
Qed.

(* the full table for a message: bound by rcode, and for NOERROR with records the smallest record TTL *)
Lemma msg_lifetime_table mx m : 0 < mx ->
  let L := msg_lifetime mx m in
  let rcode := h_rcode (m_hdr m) in
  0 < L <= mx /\
  (SECOND <= mx -> SECOND <= L) /\
  (rcode = RCodeNameError -> L <= 30 * SECOND) /\
  (rcode = RCodeServerFailure -> L <= 1 * SECOND) /\
  (rcode <> RCodeSuccess -> rcode <> RCodeNameError -> rcode <> RCodeServerFailure -> L <= 5 * SECOND) /\
  ((forall r, In r (rrs m) -> cp_is_opt r = true) -> L <= 30 * SECOND) /\
  (rcode = RCodeSuccess -> forall r, In r (rrs m) -> cp_is_opt r = false -> L <= Z.max SECOND (Z.of_N (r_ttl r) * SECOND)).
Proof.
  intros Hm L rcode. subst L rcode. unfold msg_lifetime.
  destruct (get_minimal_ttl m) as [u h] eqn:E.
  pose proof (get_minimal_ttl_u32 _ _ _ E) as Hu.
  pose proof (lifetime_table (h_rcode (m_hdr m)) h u mx Hu Hm) as Ht.
  pose proof (table_bound_cases (h_rcode (m_hdr m)) h u mx) as (T1 & T2 & T3 & T4 & T5 & T6).
  split; [split; [apply lifetime_pos; auto|apply lifetime_le_max]|].
  split; [intros; apply lifetime_ge_1s; auto|].
  split; [intros H; specialize (T2 H); lia|].
  split; [intros H; specialize (T3 H); lia|].
  split; [intros H1 H2 H3; specialize (T4 H1 H2 H3); lia|].
  split.
  - intros Hall. destruct h.
    + apply get_minimal_ttl_some in E. destruct E as (_ & _ & [(r & Hin & Ho & _)|(_ & r & Hin & Ho)]);
        rewrite (Hall r Hin) in Ho; discriminate.
    + specialize (T5 eq_refl). lia.
  - intros Hr r Hin Ho. destruct h.
    + specialize (T6 Hr eq_refl). apply get_minimal_ttl_some in E. destruct E as (_ & Hmin & _).
      specialize (Hmin r Hin Ho). unfold SECOND in *. lia.
    + apply get_minimal_ttl_none in E. destruct E as (_ & Hall). rewrite (Hall r Hin) in Ho. discriminate.
Qed.

(* ================================================================== SubtractTTL *)
Lemma sub_rr_opt delta r : cp_is_opt r = true -> sub_rr delta r = r.
Proof. unfold sub_rr. now intros ->. Qed.

Lemma sub_rr_aged delta r : cp_is_opt r = false -> sub_rr delta r = set_ttl r (aged delta (r_ttl r)).
Proof.
  unfold sub_rr, aged. intros ->. destruct (delta <? r_ttl r)%N eqn:E; f_equal; lia.
Qed.

Lemma rrs_subtract delta m : rrs (subtract_ttl delta m) = map (sub_rr delta) (rrs m).
Proof. unfold rrs, subtract_ttl. cbn [m_an m_ns m_ar]. now rewrite !map_app. Qed.


Lemma subtract_ttl_spec delta m :
  Forall2 (rr_aged delta) (rrs m) (rrs (subtract_ttl delta m)) /\
  m_hdr (subtract_ttl delta m) = m_hdr m /\ m_qs (subtract_ttl delta m) = m_qs m /\
  length (m_an (subtract_ttl delta m)) = length (m_an m) /\
  length (m_ns (subtract_ttl delta m)) = length (m_ns m) /\
  length (m_ar (subtract_ttl delta m)) = length (m_ar m).
Proof.
  split.
  - rewrite rrs_subtract. induction (rrs m) as [|r l IH]; cbn [map]; constructor; auto.
    unfold rr_aged. destruct (cp_is_opt r) eqn:E; [now apply sub_rr_opt|now apply sub_rr_aged].
  - unfold subtract_ttl. cbn. now rewrite !map_length.
Qed.

(* every record of the aged message: TTL <= max 1 (ttl - delta); nothing else changes; OPT untouched *)
Lemma rr_aged_bound delta r r' : rr_aged delta r r' ->
  (cp_is_opt r = true -> r' = r) /\
  (cp_is_opt r = false -> r_ttl r' = N.max 1 (r_ttl r - delta) /\ (r_ttl r' <= N.max 1 (r_ttl r - delta))%N /\ (1 <= r_ttl r')%N) /\
  r_name r' = r_name r /\ r_type r' = r_type r /\ r_class r' = r_class r /\ r_len r' = r_len r /\ r_data r' = r_data r.
Proof.
  unfold rr_aged. destruct (cp_is_opt r); intros ->; cbn; repeat split; try discriminate; auto; lia.
Qed.

Lemma aged_ok_subtract delta m : aged_ok delta (rrs m) (rrs (subtract_ttl delta m)) = true.
Proof.
  rewrite rrs_subtract. induction (rrs m) as [|r l IH]; cbn [map aged_ok]; [reflexivity|].
  rewrite IH, andb_true_r. destruct (cp_is_opt r) eqn:E.
  - rewrite sub_rr_opt by exact E. apply N.eqb_refl.
  - rewrite sub_rr_aged by exact E. cbn. apply N.eqb_refl.
Qed.

(* whole seconds elapsed: floor((t - s) / 1 s) while 0 <= t - s < 2^32 s *)
Lemma elapsed_secs_floor t s : 0 <= t - s < two32 * SECOND -> Z.of_N (elapsed_secs t s) = (t - s) / SECOND.
Proof. unfold elapsed_secs, two32, SECOND. intros H. lia. Qed.

(* ================================================================== the backend map *)
Lemma find_remove k k' m : cp_find k' (cp_remove k m) = if (k =? k')%N then None else cp_find k' m.
Proof.
  induction m as [|[k0 e] m IH]; cbn [cp_remove cp_find].
  - now destruct (k =? k')%N.
  - destruct (k =? k0)%N eqn:E0.
    + apply N.eqb_eq in E0; subst k0. rewrite IH. destruct (k =? k')%N eqn:E; [reflexivity|].
      rewrite N.eqb_sym, E. reflexivity.
    + cbn [cp_find]. rewrite IH. destruct (k' =? k0)%N eqn:E1; [|reflexivity].
      apply N.eqb_eq in E1; subst k0. now rewrite E0.
Qed.

Lemma find_put k e k' m : cp_find k' (put k e m) = if (k' =? k)%N then Some e else cp_find k' m.
Proof.
  unfold put. cbn [cp_find]. destruct (k' =? k)%N eqn:E; [reflexivity|].
  rewrite find_remove, N.eqb_sym, E. reflexivity.
Qed.

(* ================================================================== one cp_step *)
Lemma store_skip_none mx st t eps k pk : cachectl_store mx st t eps k None pk = (st, OSkipped).
Proof. reflexivity. Qed.

Lemma store_skip_tc mx st t eps k m pk : h_tc (m_hdr m) = true -> cachectl_store mx st t eps k (Some m) pk = (st, OSkipped).
Proof. unfold cachectl_store. now intros ->. Qed.

Lemma store_not_cacheable mx st t eps k resp pk : cacheable resp = false ->
  cachectl_store mx st t eps k resp pk = (st, OSkipped).
Proof.
  destruct resp as [m|]; cbn [cacheable]; intros H; [|reflexivity].
  apply store_skip_tc. now destruct (h_tc (m_hdr m)).
Qed.

(* a Store changes the backend only for a non-nil, non-truncated response *)
Lemma store_effect mx st t eps k resp pk st' o :
  cachectl_store mx st t eps k resp pk = (st', o) -> st' <> st -> cacheable resp = true.
Proof.
  intros H Hne. destruct (cacheable resp) eqn:E; [reflexivity|].
  rewrite store_not_cacheable in H by exact E. inversion H; subst. congruence.
Qed.

(* negative responses are stored set-if-absent: an cp_entry that is present (live or not) is never displaced *)
Lemma store_negative_keeps mx st t eps k m pk e :
  negative m = true -> cp_find k (st_map st) = Some e ->
  exists o, cachectl_store mx st t eps k (Some m) pk = (st, o) /\
            (o = OSkipped \/ o = OKept (msg_lifetime mx m)).
Proof.
  intros Hn Hf. unfold cachectl_store.
  destruct (h_tc (m_hdr m)); [eauto|]. destruct pk; cbn [negb]; [|eauto].
  unfold mem_store. rewrite Hn, Hf. eauto.
Qed.

(* and only a positive store, or a store on an absent key, writes *)
Lemma store_writes mx st t eps k resp pk st' L :
  cachectl_store mx st t eps k resp pk = (st', OStored L) ->
  exists m, resp = Some m /\ h_tc (m_hdr m) = false /\ pk = true /\ L = msg_lifetime mx m /\
    (negative m = true -> cp_find k (st_map st) = None) /\
    st' = mkState (st_clk st)
            (put k (mkEntry t (t + L) m (negative m) (otter_expiration (st_clk st) (t + L - (t + eps)))) (st_map st)).
Proof.
  unfold cachectl_store. destruct resp as [m|]; [|discriminate].
  destruct (h_tc (m_hdr m)) eqn:Et; [discriminate|]. destruct pk; cbn [negb]; [|discriminate].
  unfold mem_store. destruct (negative m) eqn:En.
  - destruct (cp_find k (st_map st)) eqn:Ef; intros H; inversion H; subst.
    exists m. rewrite En. repeat split; auto.
  - intros H; inversion H; subst. exists m. rewrite En. repeat split; auto. discriminate.
Qed.

(* a hit returns the stored message aged by the whole seconds elapsed since its stored time *)
Lemma get_hit st t k st' m' s x :
  cachectl_get st t k = (st', OHit m' s x) ->
  exists e, cp_find k (st_map st) = Some e /\ has_expired (st_clk st) e = false /\ st' = st /\
            s = e_stored e /\ x = e_expire e /\ m' = subtract_ttl (elapsed_secs t s) (e_msg e).
Proof.
  unfold cachectl_get. destruct (cp_find k (st_map st)) as [e|] eqn:Ef; [|discriminate].
  destruct (has_expired (st_clk st) e) eqn:Ex; [discriminate|].
  intros H; inversion H; subst. exists e. repeat split; auto.
Qed.

(* MemoryCache.Store called directly: either the backend is unchanged (set-if-absent refused) or the binding of k is
   the new cp_entry, whose otter expiration is computed from expire - now (storedTime plays no part) *)
Lemma store_at_cases st now stored expire k v nx st' o :
  mem_store_at st now stored expire k v nx = (st', o) ->
  (st' = st /\ o = OKept (expire - now) /\ nx = true /\ exists e, cp_find k (st_map st) = Some e) \/
  (o = OStored (expire - now) /\
   st' = mkState (st_clk st)
           (put k (mkEntry stored expire v nx (otter_expiration (st_clk st) (expire - now))) (st_map st))).
Proof.
  unfold mem_store_at, mem_store. destruct nx.
  - destruct (cp_find k (st_map st)) as [e|] eqn:Ef; intros H; inversion H; subst; [left|right]; eauto 6.
  - intros H; inversion H; subst. right. auto.
Qed.

Lemma store_at_nx_keeps st now stored expire k v e :
  cp_find k (st_map st) = Some e ->
  mem_store_at st now stored expire k v true = (st, OKept (expire - now)).
Proof. intros Hf. unfold mem_store_at, mem_store. rewrite Hf. reflexivity. Qed.

(* ================================================================== histories *)
Lemma run_app mx st evs1 evs2 :
  cp_run mx st (evs1 ++ evs2) =
  let '(st1, o1) := cp_run mx st evs1 in let '(st2, o2) := cp_run mx st1 evs2 in (st2, o1 ++ o2).
Proof.
  revert st. induction evs1 as [|ev evs1 IH]; intros st; cbn [app cp_run].
  - destruct (cp_run mx st evs2). reflexivity.
  - destruct (cp_step mx st ev) as [st1 o]. rewrite IH.
    destruct (cp_run mx st1 evs1) as [st2 os]. destruct (cp_run mx st2 evs2). reflexivity.
Qed.

Lemma run_snoc mx st evs ev :
  fst (cp_run mx st (evs ++ [ev])) = fst (cp_step mx (fst (cp_run mx st evs)) ev).
Proof.
  rewrite run_app. destruct (cp_run mx st evs) as [st1 o1]. cbn [cp_run fst].
  destruct (cp_step mx st1 ev). reflexivity.
Qed.

Lemma run_length mx st evs : length (snd (cp_run mx st evs)) = length evs.
Proof.
  revert st. induction evs as [|ev evs IH]; intros st; cbn [cp_run]; [reflexivity|].
  destruct (cp_step mx st ev) as [st1 o]. specialize (IH st1). destruct (cp_run mx st1 evs). cbn in *. now rewrite IH.
Qed.

(* ---- invariant 1 (no assumption): every cp_entry was put there by a Store event of the history *)
Definition entry_src (mx : Z) (hist : list event) (k : key) (e : cp_entry) : Prop :=
  (exists eps m, In (EvStore (e_stored e) eps k (Some m) true) hist /\
    e_msg e = m /\ h_tc (m_hdr m) = false /\ e_expire e = e_stored e + msg_lifetime mx m /\ e_neg e = negative m) \/
  (exists now, In (EvStoreAt now (e_stored e) (e_expire e) k (e_msg e) (e_neg e)) hist).

Definition inv_src (mx : Z) (hist : list event) (st : cp_state) : Prop :=
  forall k e, cp_find k (st_map st) = Some e -> entry_src mx hist k e.

Lemma entry_src_mono mx hist ev k e : entry_src mx hist k e -> entry_src mx (hist ++ [ev]) k e.
Proof.
  intros [(eps & m & Hin & H)|(now & Hin)]; [left|right].
  - exists eps, m. split; [apply in_or_app; now left|exact H].
  - exists now. apply in_or_app; now left.
Qed.

Lemma inv_src_step mx hist st ev :
  inv_src mx hist st -> inv_src mx (hist ++ [ev]) (fst (cp_step mx st ev)).
Proof.
  intros Hinv k e. destruct ev as [c|t eps k0 resp pk|now0 s0 x0 k0 v0 nx0|t k0|k0|k0]; cbn [cp_step fst].
  - cbn. intros H. apply entry_src_mono, Hinv, H.
  - destruct (cachectl_store mx st t eps k0 resp pk) as [st' o] eqn:Es. cbn [fst].
    assert (Hcases : st' = st \/ exists L, o = OStored L).
    { revert Es. unfold cachectl_store. destruct resp as [m|]; [|intros H; inversion H; auto].
      destruct (h_tc (m_hdr m)); [intros H; inversion H; auto|].
      destruct (negb pk); [intros H; inversion H; auto|].
      destruct (mem_store _ _ _ _ _ _ _) as [st2 [|]] eqn:Em; intros H; inversion H; subst; eauto.
      revert Em. unfold mem_store. destruct (negative m); [|intros H'; inversion H'].
      destruct (cp_find k0 (st_map st)); intros H'; inversion H'; auto. }
    destruct Hcases as [->|(L & ->)]; [intros H; apply entry_src_mono, Hinv, H|].
    apply store_writes in Es. destruct Es as (m & -> & Ht & -> & -> & _ & ->). cbn [st_map].
    rewrite find_put. destruct (k =? k0)%N eqn:Ek.
    + apply N.eqb_eq in Ek; subst k0. intros H; inversion H; subst e; clear H.
      left. exists eps, m. cbn. split; [apply in_or_app; right; now left|auto].
    + intros H. apply entry_src_mono, Hinv, H.
  - destruct (mem_store_at st now0 s0 x0 k0 v0 nx0) as [st' o] eqn:Es. cbn [fst].
    apply store_at_cases in Es. destruct Es as [(-> & _)|(_ & ->)]; [intros H; apply entry_src_mono, Hinv, H|].
    cbn [st_map]. rewrite find_put. destruct (k =? k0)%N eqn:Ek.
    + apply N.eqb_eq in Ek; subst k0. intros H; inversion H; subst e; clear H.
      right. exists now0. cbn. apply in_or_app; right; now left.
    + intros H. apply entry_src_mono, Hinv, H.
  - unfold cachectl_get. destruct (cp_find k0 (st_map st)) as [e0|] eqn:Ef; cbn [fst].
    + destruct (has_expired (st_clk st) e0); cbn [fst st_map]; intros H; apply entry_src_mono, Hinv, H.
    + intros H. apply entry_src_mono, Hinv, H.
  - destruct (cp_find k0 (st_map st)) as [e0|] eqn:Ef; cbn [fst]; [|intros H; apply entry_src_mono, Hinv, H].
    destruct (has_expired (st_clk st) e0); cbn [fst st_map]; [|intros H; apply entry_src_mono, Hinv, H].
    rewrite find_remove. destruct (k0 =? k)%N; [discriminate|]. intros H. apply entry_src_mono, Hinv, H.
  - cbn [st_map]. rewrite find_remove. destruct (k0 =? k)%N; [discriminate|]. intros H. apply entry_src_mono, Hinv, H.
Qed.

Lemma inv_src_run mx evs : forall hist st,
  inv_src mx hist st -> inv_src mx (hist ++ evs) (fst (cp_run mx st evs)).
Proof.
  induction evs as [|ev evs IH] using rev_ind; intros hist st H.
  - rewrite app_nil_r. exact H.
  - rewrite app_assoc, run_snoc. apply inv_src_step, IH, H.
Qed.

Lemma inv_src_init mx clk : inv_src mx [] (init_state clk).
Proof. intros k e H. discriminate. Qed.

Lemma reachable_src mx clk evs : inv_src mx evs (fst (cp_run mx (init_state clk) evs)).
Proof. apply (inv_src_run mx evs [] (init_state clk)), inv_src_init. Qed.

(* ---- invariant 2 (under the clock assumption): the otter expiration of every cp_entry is tied to its wall-clock expiry *)

Lemma ev_okb_sound lag mx clk ev : ev_okb lag mx clk ev = true -> ev_ok lag mx clk ev.
Proof.
  destruct ev as [c|t eps k resp pk|now0 s0 x0 k v0 nx0|t k|k|k]; cbn [ev_okb ev_ok]; auto.
  - rewrite !andb_true_iff. intros [[[H1 H2] H3] H4].
    apply Z.leb_le in H1, H3. apply Z.ltb_lt in H2, H4. auto.
  - rewrite !andb_true_iff. intros [[H1 H2] H3].
    apply Z.leb_le in H1. apply Z.ltb_lt in H2, H3. auto.
  - apply Z.ltb_lt.
Qed.

Lemma hist_okb_sound lag mx evs : forall st, hist_okb lag mx st evs = true -> hist_ok lag mx st evs.
Proof.
  induction evs as [|ev evs IH]; intros st; cbn [hist_okb hist_ok]; auto.
  rewrite andb_true_iff. intros [H1 H2]. split; [apply ev_okb_sound, H1|apply IH, H2].
Qed.

Lemma hist_ok_app lag mx st evs1 evs2 :
  hist_ok lag mx st (evs1 ++ evs2) <-> hist_ok lag mx st evs1 /\ hist_ok lag mx (fst (cp_run mx st evs1)) evs2.
Proof.
  revert st. induction evs1 as [|ev evs1 IH]; intros st; cbn [app hist_ok cp_run].
  - cbn. tauto.
  - destruct (cp_step mx st ev) as [st1 o] eqn:Es. cbn [fst]. rewrite IH.
    destruct (cp_run mx st1 evs1) as [st2 os]. cbn [fst]. tauto.
Qed.

Definition entry_clk (e : cp_entry) : Prop :=
  Z.of_N (e_exp e) * SECOND <= e_expire e + SECOND - 1.

Definition inv_clk (st : cp_state) : Prop := forall k e, cp_find k (st_map st) = Some e -> entry_clk e.

(* otter's rounding: clk + ceil((L - eps) / 1 s), no wrap, is at most (s + L)/1 s + 1 - 1 ns *)
Lemma otter_expiration_bound clk L eps t mx :
  SECOND <= L <= mx -> 0 <= eps < SECOND -> Z.of_N clk * SECOND <= t + eps ->
  Z.of_N clk * SECOND + mx + SECOND < two32 * SECOND ->
  Z.of_N (otter_expiration clk (t + L - (t + eps))) * SECOND <= t + L + SECOND - 1.
Proof.
  unfold otter_expiration, otter_ttl, two32, SECOND. intros HL He Hc Hw.
  replace (t + L - (t + eps)) with (L - eps) by lia.
  assert (Hq : 0 <= Z.quot (L - eps + 1000000000 - 1) 1000000000 /\
               Z.quot (L - eps + 1000000000 - 1) 1000000000 * 1000000000 <= L - eps + 1000000000 - 1) by lia.
  destruct Hq as [Hq0 Hq1].
  assert (Hq2 : Z.quot (L - eps + 1000000000 - 1) 1000000000 < 4294967296) by lia.
  rewrite Z.mod_small by lia.
  rewrite N.mod_small by lia. lia.
Qed.

(* the same for a direct MemoryCache.Store at wall time [now]: clk + ceil((expire - now) / 1 s) - storedTime does not
   occur.  (With expire - stored in place of expire - now the statement is false as soon as stored < now.) *)
Lemma otter_expiration_bound_at clk now expire :
  Z.of_N clk * SECOND <= now -> - SECOND < expire - now ->
  Z.of_N clk * SECOND + (expire - now) + SECOND < two32 * SECOND ->
  Z.of_N (otter_expiration clk (expire - now)) * SECOND <= expire + SECOND - 1.
Proof.
  unfold otter_expiration, otter_ttl, two32, SECOND. intros Hc Hd Hw.
  assert (Hq : 0 <= Z.quot (expire - now + 1000000000 - 1) 1000000000 /\
               Z.quot (expire - now + 1000000000 - 1) 1000000000 * 1000000000 <= expire - now + 1000000000 - 1).
  { split; [apply Z.quot_pos; lia|].
    pose proof (Z.mul_quot_le (expire - now + 1000000000 - 1) 1000000000 ltac:(lia) ltac:(lia)). lia. }
  destruct Hq as [Hq0 Hq1].
  assert (Hq2 : Z.quot (expire - now + 1000000000 - 1) 1000000000 < 4294967296) by lia.
  rewrite Z.mod_small by lia.
  rewrite N.mod_small by lia. lia.
Qed.

Lemma inv_clk_step lag mx st ev :
  SECOND <= mx -> inv_clk st -> ev_ok lag mx (st_clk st) ev -> inv_clk (fst (cp_step mx st ev)).
Proof.
  intros Hmx Hinv Hok k e. destruct ev as [c|t eps k0 resp pk|now0 s0 x0 k0 v0 nx0|t k0|k0|k0]; cbn [cp_step fst].
  - cbn. apply Hinv.
  - destruct (cachectl_store mx st t eps k0 resp pk) as [st' o] eqn:Es. cbn [fst].
    assert (Hcases : st' = st \/ exists L, o = OStored L).
    { revert Es. unfold cachectl_store. destruct resp as [m|]; [|intros H; inversion H; auto].
      destruct (h_tc (m_hdr m)); [intros H; inversion H; auto|].
      destruct (negb pk); [intros H; inversion H; auto|].
      destruct (mem_store _ _ _ _ _ _ _) as [st2 [|]] eqn:Em; intros H; inversion H; subst; eauto.
      revert Em. unfold mem_store. destruct (negative m); [|intros H'; inversion H'].
      destruct (cp_find k0 (st_map st)); intros H'; inversion H'; auto. }
    destruct Hcases as [->|(L & ->)]; [apply Hinv|].
    apply store_writes in Es. destruct Es as (m & -> & Ht & -> & -> & _ & ->). cbn [st_map].
    rewrite find_put. destruct (k =? k0)%N eqn:Ek; [|apply Hinv].
    intros H; inversion H; subst e; clear H. unfold entry_clk. cbn [e_expire e_stored e_exp].
    destruct Hok as (He & Hc & Hw).
    pose proof (msg_lifetime_ge_1s mx m Hmx) as HL1. pose proof (msg_lifetime_le_max mx m) as HL2.
    apply (otter_expiration_bound (st_clk st) (msg_lifetime mx m) eps t mx); auto.
  - destruct (mem_store_at st now0 s0 x0 k0 v0 nx0) as [st' o] eqn:Es. cbn [fst].
    apply store_at_cases in Es. destruct Es as [(-> & _)|(_ & ->)]; [apply Hinv|].
    cbn [st_map]. rewrite find_put. destruct (k =? k0)%N eqn:Ek; [|apply Hinv].
    intros H; inversion H; subst e; clear H. unfold entry_clk. cbn [e_expire e_exp].
    destruct Hok as (Hc & Hd & Hw). apply otter_expiration_bound_at; auto.
  - unfold cachectl_get. destruct (cp_find k0 (st_map st)) as [e0|] eqn:Ef; cbn [fst]; [|apply Hinv].
    destruct (has_expired (st_clk st) e0); cbn [fst st_map]; apply Hinv.
  - destruct (cp_find k0 (st_map st)) as [e0|] eqn:Ef; cbn [fst]; [|apply Hinv].
    destruct (has_expired (st_clk st) e0); cbn [fst st_map]; [|apply Hinv].
    rewrite find_remove. destruct (k0 =? k)%N; [discriminate|apply Hinv].
  - cbn [st_map]. rewrite find_remove. destruct (k0 =? k)%N; [discriminate|apply Hinv].
Qed.

Lemma inv_clk_run lag mx evs : SECOND <= mx -> forall st,
  inv_clk st -> hist_ok lag mx st evs -> inv_clk (fst (cp_run mx st evs)).
Proof.
  intros Hmx. induction evs as [|ev evs IH]; intros st Hinv Hok; cbn [cp_run].
  - exact Hinv.
  - destruct Hok as [Hev Hrest]. pose proof (inv_clk_step lag mx st ev Hmx Hinv Hev) as H1.
    destruct (cp_step mx st ev) as [st1 o]. cbn [fst] in *.
    specialize (IH st1 H1 Hrest). destruct (cp_run mx st1 evs). exact IH.
Qed.

Lemma inv_clk_init clk : inv_clk (init_state clk).
Proof. intros k e H. discriminate. Qed.

(* a live cp_entry read by a clock that lags less than [lag]: the wall clock is before expire + lag *)
Lemma live_before_expiry lag clk e t :
  entry_clk e -> has_expired clk e = false -> t - lag < Z.of_N clk * SECOND -> t < e_expire e + lag.
Proof.
  unfold entry_clk, has_expired, SECOND. intros H Hx Hc. apply N.leb_gt in Hx. lia.
Qed.

(* ================================================================== history theorems *)

(* where the message of a hit came from: a cacheCtl.Store event of this history for this key (then expire = stored +
   lifetime of that response), or a direct MemoryCache.Store (promotion of a redis hit / hook) with exactly these
   stored / expire instants *)
Definition hit_src (mx : Z) (evs : list event) (k : key) (m : msg) (s x : Z) : Prop :=
  (exists eps, In (EvStore s eps k (Some m) true) evs /\ h_tc (m_hdr m) = false /\ x = s + msg_lifetime mx m) \/
  (exists now nx, In (EvStoreAt now s x k m nx) evs).

(* TTL ageing: whatever the history, a hit returns a message some Store event of this history supplied for this key
   (not truncated when it came through cacheCtl.Store), with every non-OPT TTL = max 1 (ttl - whole seconds since its
   storedTime), OPT and all else untouched *)
Lemma hit_ttl_bound mx clk0 evs t k st' m' s x :
  cachectl_get (fst (cp_run mx (init_state clk0) evs)) t k = (st', OHit m' s x) ->
  exists m, hit_src mx evs k m s x /\
    m' = subtract_ttl (elapsed_secs t s) m /\
    Forall2 (rr_aged (elapsed_secs t s)) (rrs m) (rrs m') /\
    m_hdr m' = m_hdr m /\ m_qs m' = m_qs m /\
    (0 <= t - s < two32 * SECOND -> Z.of_N (elapsed_secs t s) = (t - s) / SECOND).
Proof.
  intros H. apply get_hit in H. destruct H as (e & Hf & _ & _ & -> & -> & ->).
  apply (reachable_src mx clk0 evs) in Hf.
  exists (e_msg e). pose proof (subtract_ttl_spec (elapsed_secs t (e_stored e)) (e_msg e)) as (S1 & S2 & S3 & _).
  split; [|repeat split; auto; apply elapsed_secs_floor].
  destruct Hf as [(eps & m & Hin & <- & Ht & Hx & _)|(now & Hin)]; [left|right]; eauto.
Qed.

(* expiry: under the clock assumption, a hit at wall time t satisfies t < expire + lag, whatever the storedTime of the
   cp_entry is *)
Lemma hit_before_expiry lag mx clk0 evs t k st' m' s x :
  SECOND <= mx ->
  hist_ok lag mx (init_state clk0) (evs ++ [EvGet t k]) ->
  cachectl_get (fst (cp_run mx (init_state clk0) evs)) t k = (st', OHit m' s x) ->
  t < x + lag /\ exists m, hit_src mx evs k m s x.
Proof.
  intros Hmx Hok H. apply hist_ok_app in Hok. destruct Hok as [Hok1 [Hget _]].
  pose proof (inv_clk_run lag mx evs Hmx (init_state clk0) (inv_clk_init clk0) Hok1) as Hinv.
  pose proof H as H0. apply get_hit in H. destruct H as (e & Hf & Hx & _ & -> & -> & _).
  split.
  - apply (live_before_expiry lag (st_clk (fst (cp_run mx (init_state clk0) evs))) e t (Hinv k e Hf) Hx). exact Hget.
  - apply hit_ttl_bound in H0. destruct H0 as (m & Hs & _). eauto.
Qed.

(* the promotion clause on its own: an entry put there by a direct MemoryCache.Store(stored, expire) is never served
   at or after expire + lag - for EVERY stored, in particular one far in the past *)
Lemma store_at_expiry lag mx clk0 evs t k st' m' s x :
  SECOND <= mx ->
  hist_ok lag mx (init_state clk0) (evs ++ [EvGet t k]) ->
  cachectl_get (fst (cp_run mx (init_state clk0) evs)) t k = (st', OHit m' s x) ->
  forall now m nx, In (EvStoreAt now s x k m nx) evs -> t < x + lag.
Proof. intros Hmx Hok H now m nx _. exact (proj1 (hit_before_expiry lag mx clk0 evs t k st' m' s x Hmx Hok H)). Qed.

(* the lifetime restarted at promotion (ttl := expire - stored instead of expire - now) is exactly what the invariant
   excludes: with a storedTime 10 s in the past, the cp_entry such a Store would create is still live under an ideal
   clock (lag < 1 s) 9.5 s after its expireTime *)
Lemma restarted_lifetime_serves_stale :
  exists clk now stored expire clk' t v,
    Z.of_N clk * SECOND <= now /\ - SECOND < expire - now /\ stored <= now /\
    t - SECOND < Z.of_N clk' * SECOND /\
    has_expired clk' (mkEntry stored expire v true (otter_expiration clk (expire - stored))) = false /\
    expire + 2 * SECOND <= t /\
    ~ entry_clk (mkEntry stored expire v true (otter_expiration clk (expire - stored))).
Proof.
  exists 100%N, (100 * SECOND), (90 * SECOND), (101 * SECOND), 110%N, (110 * SECOND + SECOND / 2),
         (mkMsg (mkHeader 0 true 0 false false true true false false 0) [] [] [] []).
  unfold entry_clk. cbn [e_exp e_expire]. vm_compute. repeat split; try discriminate. intros H. apply H. reflexivity.
Qed.

Lemma steps_sat_all (P : cp_state -> event -> cp_state -> out -> Prop) mx : (forall st ev, P st ev (fst (cp_step mx st ev)) (snd (cp_step mx st ev))) ->
  forall evs st, steps_sat P mx st evs.
Proof. intros HP. induction evs as [|ev evs IH]; intros st; cbn; auto. Qed.


Lemma negative_nx_history mx evs st : steps_sat neg_keeps mx st evs.
Proof.
  apply steps_sat_all. intros st0 ev. destruct ev as [c|t eps k resp pk|now0 s0 x0 k v0 nx0|t k|k|k]; cbn [neg_keeps]; auto.
  - destruct resp as [m|]; auto. intros Hn e Hf. cbn [cp_step].
    destruct (store_negative_keeps mx st0 t eps k m pk e Hn Hf) as (o & -> & Ho). cbn [fst snd].
    split; [reflexivity|]. destruct Ho as [->| ->]; eauto.
  - destruct nx0; auto. intros e Hf. cbn [cp_step]. rewrite (store_at_nx_keeps st0 now0 s0 x0 k v0 e Hf). cbn [fst snd]. eauto.
Qed.

(* a negative store onto a present key is invisible to the whole future of the history *)
Lemma negative_store_noop mx st t eps k m pk e evs :
  negative m = true -> cp_find k (st_map st) = Some e ->
  exists o, cp_run mx st (EvStore t eps k (Some m) pk :: evs) =
            (fst (cp_run mx st evs), o :: snd (cp_run mx st evs)) /\ (o = OSkipped \/ o = OKept (msg_lifetime mx m)).
Proof.
  intros Hn Hf. destruct (store_negative_keeps mx st t eps k m pk e Hn Hf) as (o & Hs & Ho).
  exists o. split; [|exact Ho]. cbn [cp_run cp_step]. rewrite Hs. destruct (cp_run mx st evs). reflexivity.
Qed.

(* ================================================================== router level *)
Lemma handle_req_store_only_success p a :
  handle_req_store p = Some a -> exists m, p = PathMiss (UpReply m) /\ a = Some m.
Proof. destruct p as [| |[|m]]; cbn; intros H; inversion H; eauto. Qed.

Lemma prefetch_store_only_success u a :
  prefetch_store u = Some a -> exists m, u = UpReply m /\ a = Some m.
Proof. destruct u as [|m]; cbn; intros H; inversion H; eauto. Qed.
