(* Cache/Netlist.v — model of internal/netlist (netlist.go, ip.go) and of the ip marker of
   app/router/cache.go (ipMarker.Mark, loadIpMarkerFromReader on tokenised lines).

   Addresses are 128-bit numbers (N); ip.go's addr2Ipv6 = netip.Addr.As16 maps an IPv4 address a.b.c.d to
   ::ffff:a.b.c.d, so a plain IPv4 address and its v4-mapped IPv6 form are the same number.
   Model only (no proofs here): Cache/NetlistProofs.v. *)
From Mos Require Import Base.Prelude.

Inductive nl_addr := NlA4 (a : N) | NlA6 (a : N).

Definition v4_prefix : N := 281470681743360.   (* 0xffff_0000_0000 *)

(* addr2Ipv6 / As16 *)
Definition to16 (a : nl_addr) : N :=
  match a with NlA4 x => (v4_prefix + x)%N | NlA6 x => x end.

Record range := mkRange { r_start : N; r_end : N; r_val : list N }.

(* ipRange.contains *)
Definition contains (r : range) (ip : N) : bool := (r_start r <=? ip)%N && (ip <=? r_end r)%N.

(* ListBuilder.Add rejects start > end *)
Definition inverted (r : range) : bool := (r_end r <? r_start r)%N.

(* sort.Slice by start (not stable in Go; ranges with equal starts always fail the overlap test, so the
   order among them is unobservable) *)
Fixpoint insert (r : range) (l : list range) : list range :=
  match l with
  | [] => [r]
  | x :: t => if (r_start r <? r_start x)%N then r :: l else x :: insert r t
  end.
Definition isort (l : list range) : list range := fold_right insert [] l.

(* for i := 0; i < len(rs)-1; i++ { if rs[i].end >= rs[i+1].start { error } } *)
Fixpoint overlaps (l : list range) : bool :=
  match l with
  | x :: ((y :: _) as t) => (r_start y <=? r_end x)%N || overlaps t
  | _ => false
  end.

(* Add for every range, then Build *)
Definition build (rs : list range) : option (list range) :=
  if existsb inverted rs then None
  else let s := isort rs in if overlaps s then None else Some s.

(* sort.Search(n, f):  i, j := 0, n; for i < j { h := (i+j)/2; if !f(h) { i = h+1 } else { j = h } }; return i
   with f(h) = ip < e[h].start.  e[h] is a checked index (Panic when out of range). *)
Fixpoint search_go (fuel : nat) (es : list range) (ip : N) (i j : nat) : res nat :=
  if j <=? i then Ok i else
  match fuel with
  | O => OutOfFuel
  | S f =>
    let h := Nat.div2 (i + j) in
    match nth_error es h with
    | None => Panic
    | Some r => if (ip <? r_start r)%N then search_go f es ip i h else search_go f es ip (S h) j
    end
  end.
Definition search (es : list range) (ip : N) : res nat := search_go (length es) es ip 0 (length es).

(* List.Lookup *)
Definition lookup (es : list range) (ip : N) : res (option (list N)) :=
  do i <- search es ip;
  match i with
  | O => Ok None
  | S k => match nth_error es k with
           | None => Panic
           | Some r => Ok (if contains r ip then Some (r_val r) else None)
           end
  end.

(* the declarative meaning: the value of the first range of the *input* list containing the address *)
Definition linear_spec (rs : list range) (ip : N) : option (list N) :=
  option_map r_val (find (fun r => contains r ip) rs).

(* ---------- the marker file, line by line (address text already parsed: netip.ParseAddr is trusted) ---------- *)
Inductive mline :=
| MBlank                                      (* empty line or comment only *)
| MBad                                        (* missing comma / unparsable address *)
| MRange (s e : nl_addr) (label : list N).       (* start,end,label *)

Definition is_bad (l : mline) : bool := match l with MBad => true | _ => false end.
Fixpoint ranges_of (ls : list mline) : list range :=
  match ls with
  | [] => []
  | MRange s e lb :: r => mkRange (to16 s) (to16 e) lb :: ranges_of r
  | _ :: r => ranges_of r
  end.

(* loadIpMarkerFromReader: any bad line or inverted range is an error, then Build *)
Definition load_marker (ls : list mline) : option (list range) :=
  if existsb is_bad ls then None else build (ranges_of ls).

(* cacheCtl.ipMark / ipMarker.Mark: "" when there is no marker, the address is invalid or no range contains it *)
Definition mark_of (m : option (list range)) (a : option nl_addr) : res (list N) :=
  match m, a with
  | Some es, Some a => do r <- lookup es (to16 a); Ok (match r with Some lb => lb | None => [] end)
  | _, _ => Ok []
  end.
