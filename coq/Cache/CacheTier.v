(* Cache/CacheTier.v — cacheCtl with BOTH backends: the memory cache (Cache/CachePolicy.v) and a redis server shared
   with other proxy instances (C08, round 2).

   Mirrors
     app/router/cache.go     cacheCtl.Store  (memory.Store, then redis.AsyncStore with the same storedTime / expireTime)
                             cacheCtl.Get    (memory; on a miss redis; a redis hit is PROMOTED into the memory cache by
                                              memory.Store(key, storedTime, expireTime, v, setNX = true) with the
                                              instants read from redis, i.e. the ORIGINAL ones)
     internal/cache/redis.go AsyncStore (ttlMs = time.Until(expireTime).Milliseconds(); dropped when <= 10; SET [NX] PX),
                             buildValue / Get (the two instants travel as whole Unix seconds: time.Unix(t.Unix(), 0))
   redis itself is modelled as a map with an exact millisecond deadline per key on the same wall clock as the proxy
   (SET ... PX), which may also forget any key at any time; other instances sharing the server appear as [CtForeign]
   events (their AsyncStore).  Instants are ns on the Unix time line (so that "whole Unix seconds" is / SECOND).

   No proofs in this file. *)
From Mos Require Import Base.Prelude Codec.Msg Cache.CachePolicy.

Local Open Scope Z_scope.

Definition MILLI : Z := 1000000.

(* time.Unix(t.Unix(), 0): the instant cut to whole seconds *)
Definition unix_floor (t : Z) : Z := (t / SECOND) * SECOND.

Record ct_rentry := mkREntry {
  re_stored : Z;       (* header: storedTime.Unix(), as an instant *)
  re_expire : Z;       (* header: expireTime.Unix(), as an instant *)
  re_msg : msg;        (* the value (decoded) *)
  re_dead : Z          (* server side: the key is gone at this instant (SET ... PX ttlMs) *)
}.

Fixpoint ct_rfind (k : key) (m : list (key * ct_rentry)) : option ct_rentry :=
  match m with
  | [] => None
  | (k', e) :: m' => if (k =? k')%N then Some e else ct_rfind k m'
  end.

Fixpoint ct_rremove (k : key) (m : list (key * ct_rentry)) : list (key * ct_rentry) :=
  match m with
  | [] => []
  | (k', e) :: m' => if (k =? k')%N then ct_rremove k m' else (k', e) :: ct_rremove k m'
  end.

Definition ct_rput (k : key) (e : ct_rentry) (m : list (key * ct_rentry)) : list (key * ct_rentry) :=
  (k, e) :: ct_rremove k m.

Record ct_state := mkCt { ct_mem : cp_state; ct_red : list (key * ct_rentry) }.

Definition ct_init (clk : N) : ct_state := mkCt (init_state clk) [].

(* RedisCache.AsyncStore + setLoop, the SET reaching the server at wall time [now] *)
Definition redis_set (r : list (key * ct_rentry)) (now stored expire : Z) (k : key) (v : msg) (nx : bool)
  : list (key * ct_rentry) :=
  let ttl_ms := Z.quot (expire - now) MILLI in                 (* Duration.Milliseconds() truncates *)
  if ttl_ms <=? 10 then r
  else
    let e := mkREntry (unix_floor stored) (unix_floor expire) v (now + ttl_ms * MILLI) in
    match ct_rfind k r with
    | Some old => if nx && (now <? re_dead old) then r else ct_rput k e r
    | None => ct_rput k e r
    end.

(* cacheCtl.Store with both backends at wall time [t]; both backend calls happen [eps] later *)
Definition ct_store (mx : Z) (st : ct_state) (t eps : Z) (k : key) (resp : option msg) (packok : bool) : ct_state * out :=
  let '(mem', o) := cachectl_store mx (ct_mem st) t eps k resp packok in
  match o, resp with
  | OSkipped, _ => (st, OSkipped)                               (* returned before touching either backend *)
  | _, Some m => (mkCt mem' (redis_set (ct_red st) (t + eps) t (t + msg_lifetime mx m) k m (negative m)), o)
  | _, None => (st, o)
  end.

(* cacheCtl.Get with both backends at wall time [t] *)
Definition ct_get (st : ct_state) (t : Z) (k : key) : ct_state * out :=
  match snd (cachectl_get (ct_mem st) t k) with
  | OHit m s x => (st, OHit m s x)
  | _ =>
    match ct_rfind k (ct_red st) with
    | Some e =>
      if t <? re_dead e then
        (* hit in redis: "put v into memory cache" with the instants read from redis, set-if-absent *)
        (mkCt (fst (mem_store_at (ct_mem st) t (re_stored e) (re_expire e) k (re_msg e) true)) (ct_red st),
         OHit (subtract_ttl (elapsed_secs t (re_stored e)) (re_msg e)) (re_stored e) (re_expire e))
      else (mkCt (ct_mem st) (ct_rremove k (ct_red st)), OMiss)  (* the server has dropped the key *)
    | None => (st, OMiss)
    end
  end.

Inductive ct_event :=
| CtTick (c : N)                                   (* otter's ticker publishes a new clock reading *)
| CtCollect (k : key)                              (* otter's cleanup removes the node of k if it has expired *)
| CtDrop (k : key)                                 (* the memory cache loses k: size eviction, restart of the process *)
| CtStore (t eps : Z) (k : key) (resp : option msg) (packok : bool)
| CtGet (t : Z) (k : key)
| CtForeign (now stored expire : Z) (k : key) (v : msg) (nx : bool)   (* another instance's AsyncStore reaches redis *)
| CtRedisDrop (k : key).                           (* redis forgets k (eviction, flush) *)

Definition ct_step (mx : Z) (st : ct_state) (ev : ct_event) : ct_state * out :=
  match ev with
  | CtTick c => (mkCt (fst (cp_step mx (ct_mem st) (EvTick c))) (ct_red st), OTick)
  | CtCollect k => let '(m', o) := cp_step mx (ct_mem st) (EvCollect k) in (mkCt m' (ct_red st), o)
  | CtDrop k => let '(m', o) := cp_step mx (ct_mem st) (EvEvict k) in (mkCt m' (ct_red st), o)
  | CtStore t eps k resp packok => ct_store mx st t eps k resp packok
  | CtGet t k => ct_get st t k
  | CtForeign now stored expire k v nx => (mkCt (ct_mem st) (redis_set (ct_red st) now stored expire k v nx), OTick)
  | CtRedisDrop k => (mkCt (ct_mem st) (ct_rremove k (ct_red st)), OEvicted)
  end.

Fixpoint ct_run (mx : Z) (st : ct_state) (evs : list ct_event) : ct_state * list out :=
  match evs with
  | [] => (st, [])
  | ev :: evs' =>
    let '(st1, o) := ct_step mx st ev in
    let '(st2, os) := ct_run mx st1 evs' in
    (st2, o :: os)
  end.

(* ------------------------------------------------------------------ assumptions about one event (no proofs) *)
(* Store: as ev_ok of the base model.  Get: the otter clock is not ahead of the wall clock and lags it by less than
   [lag]; if redis holds the key, clock + remaining lifetime does not wrap uint32.  Nothing is assumed about what other
   instances write (CtForeign) nor about when the memory cache or redis lose keys. *)
Definition ct_ev_ok (lag mx : Z) (st : ct_state) (ev : ct_event) : Prop :=
  let clk := st_clk (ct_mem st) in
  match ev with
  | CtStore t eps k resp pk => ev_ok lag mx clk (EvStore t eps k resp pk)
  | CtGet t k =>
      t - lag < Z.of_N clk * SECOND /\ Z.of_N clk * SECOND <= t /\
      forall e, ct_rfind k (ct_red st) = Some e -> Z.of_N clk * SECOND + (re_expire e - t) + SECOND < two32 * SECOND
  | _ => True
  end.

Fixpoint ct_hist_ok (lag mx : Z) (st : ct_state) (evs : list ct_event) : Prop :=
  match evs with
  | [] => True
  | ev :: evs' => ct_ev_ok lag mx st ev /\ ct_hist_ok lag mx (fst (ct_step mx st ev)) evs'
  end.

Definition ct_ev_okb (lag mx : Z) (st : ct_state) (ev : ct_event) : bool :=
  let clk := st_clk (ct_mem st) in
  match ev with
  | CtStore t eps k resp pk => ev_okb lag mx clk (EvStore t eps k resp pk)
  | CtGet t k =>
      (t - lag <? Z.of_N clk * SECOND) && (Z.of_N clk * SECOND <=? t) &&
      match ct_rfind k (ct_red st) with
      | Some e => Z.of_N clk * SECOND + (re_expire e - t) + SECOND <? two32 * SECOND
      | None => true
      end
  | _ => true
  end.

Fixpoint ct_hist_okb (lag mx : Z) (st : ct_state) (evs : list ct_event) : bool :=
  match evs with
  | [] => true
  | ev :: evs' => ct_ev_okb lag mx st ev && ct_hist_okb lag mx (fst (ct_step mx st ev)) evs'
  end.

(* where an answer in either tier came from: this proxy's own Store of response m at s0 (instants exact in the memory
   cache, cut to whole seconds when they travelled through redis), or another instance's store *)
Definition ct_src (mx : Z) (hist : list ct_event) (k : key) (m : msg) (s x : Z) : Prop :=
  (exists s0 eps, In (CtStore s0 eps k (Some m) true) hist /\ h_tc (m_hdr m) = false /\
     ((s = s0 /\ x = s0 + msg_lifetime mx m) \/
      (s = unix_floor s0 /\ x = unix_floor (s0 + msg_lifetime mx m)))) \/
  (exists now s0 x0 nx, In (CtForeign now s0 x0 k m nx) hist /\ s = unix_floor s0 /\ x = unix_floor x0).

(* ------------------------------------------------------------------ round 4: the configuration without a memory cache *)
(* [hm] = a memory backend is configured (cache.mem_size > 0).  With hm = false cacheCtl has only the redis backend:
   Store returns early under the same conditions (nil / truncated response, pack failure) and otherwise only queues the
   SET [NX] PX; Get asks redis and has nothing to promote into.  hm = true is the two-tier system above. *)
Definition ctc_store (hm : bool) (mx : Z) (st : ct_state) (t eps : Z) (k : key) (resp : option msg) (packok : bool)
  : ct_state * out :=
  if hm then ct_store mx st t eps k resp packok
  else
    match resp with
    | None => (st, OSkipped)
    | Some m =>
      if h_tc (m_hdr m) then (st, OSkipped)
      else if negb packok then (st, OSkipped)
      else (mkCt (ct_mem st) (redis_set (ct_red st) (t + eps) t (t + msg_lifetime mx m) k m (negative m)),
            OStored (msg_lifetime mx m))
    end.

Definition ctc_get (hm : bool) (st : ct_state) (t : Z) (k : key) : ct_state * out :=
  if hm then ct_get st t k
  else
    match ct_rfind k (ct_red st) with
    | Some e =>
      if t <? re_dead e
      then (st, OHit (subtract_ttl (elapsed_secs t (re_stored e)) (re_msg e)) (re_stored e) (re_expire e))
      else (mkCt (ct_mem st) (ct_rremove k (ct_red st)), OMiss)
    | None => (st, OMiss)
    end.

Definition ctc_step (hm : bool) (mx : Z) (st : ct_state) (ev : ct_event) : ct_state * out :=
  match ev with
  | CtStore t eps k resp packok => ctc_store hm mx st t eps k resp packok
  | CtGet t k => ctc_get hm st t k
  | _ => ct_step mx st ev
  end.

Fixpoint ctc_run (hm : bool) (mx : Z) (st : ct_state) (evs : list ct_event) : ct_state * list out :=
  match evs with
  | [] => (st, [])
  | ev :: evs' =>
    let '(st1, o) := ctc_step hm mx st ev in
    let '(st2, os) := ctc_run hm mx st1 evs' in
    (st2, o :: os)
  end.

(* what a Store of an error response (rcode <> 0: stored set-if-absent in BOTH tiers) may do: the memory tier is left alone
   when it holds a node for the key (live, or expired and not yet collected); the redis tier is left alone when it holds
   a live value for the key *)
Definition ct_neg_keeps (hm : bool) (mx : Z) (st : ct_state) (ev : ct_event) (st1 : ct_state) : Prop :=
  match ev with
  | CtStore t eps k (Some m) pk =>
      negative m = true ->
      (forall e, cp_find k (st_map (ct_mem st)) = Some e -> ct_mem st1 = ct_mem st) /\
      (forall e, ct_rfind k (ct_red st) = Some e -> t + eps < re_dead e -> ct_red st1 = ct_red st)
  | _ => True
  end.

Fixpoint ct_steps_sat (P : ct_state -> ct_event -> ct_state -> Prop) (hm : bool) (mx : Z) (st : ct_state)
  (evs : list ct_event) : Prop :=
  match evs with
  | [] => True
  | ev :: evs' => P st ev (fst (ctc_step hm mx st ev)) /\ ct_steps_sat P hm mx (fst (ctc_step hm mx st ev)) evs'
  end.

(* ------------------------------------------------------------------ round 6: the COMMANDS the redis tier sends *)
(* setLoop builds  SET key value [NX] PX ttlMs  for every queued op; Get sends GET key.  [px = None] is a SET without
   expiry (never built by the code as it is; it is what the refuted variant sends). *)
Inductive redis_cmd := RSet (k : key) (nx : bool) (px : option Z) | RGet (k : key).

(* AsyncStore + setLoop at wall time [now] for an entry expiring at [expire]: nothing when less than 11 ms are left *)
Definition redis_set_cmd (now expire : Z) (k : key) (nx : bool) : option redis_cmd :=
  let ttl_ms := Z.quot (expire - now) MILLI in
  if ttl_ms <=? 10 then None else Some (RSet k nx (Some ttl_ms)).

(* the SERVER executing a SET at [now] whose value carries the header instants s, x and the message v: the key dies
   px ms later; without PX it outlives every horizon [forever] one cares to name *)
Definition redis_exec (r : list (key * ct_rentry)) (now s x : Z) (v : msg) (c : redis_cmd) (forever : Z)
  : list (key * ct_rentry) :=
  match c with
  | RGet _ => r
  | RSet k nx px =>
    let dead := match px with Some p => now + p * MILLI | None => now + forever end in
    let e := mkREntry s x v dead in
    match ct_rfind k r with
    | Some old => if nx && (now <? re_dead old) then r else ct_rput k e r
    | None => ct_rput k e r
    end
  end.

(* the command cacheCtl.Store makes the redis tier send (None: Store returned early, or too little lifetime left) *)
Definition ct_store_cmd (mx : Z) (t eps : Z) (k : key) (resp : option msg) (packok : bool) : option redis_cmd :=
  match resp with
  | None => None
  | Some m =>
    if h_tc (m_hdr m) then None
    else if negb packok then None
    else redis_set_cmd (t + eps) (t + msg_lifetime mx m) k (negative m)
  end.

(* redis-only lookup on a bare redis map (what ctc_get false does), for the statements about commands *)
Definition redis_lookup (r : list (key * ct_rentry)) (t : Z) (k : key) : option ct_rentry :=
  match ct_rfind k r with
  | Some e => if t <? re_dead e then Some e else None
  | None => None
  end.
