(* Cache/CacheMem.v — model of internal/cache/cm_mem.go (MemoryCache.Store / Get, cacheEntry, releaseEntry)
   as a small-cm_step transition system whose steps are the atomic actions of the Go code, and of the value
   encoding of app/router/cache.go (packCacheMsg / unpackCacheMsg).

   * backend (otter) = finite map key -> (entry_cm pointer, expiry); the environment may drop any binding at
     any time (size eviction, expiry, explicit delete); a dropped or replaced entry_cm is handed to the
     deletion listener (= releaseEntry) at any LATER time (otter calls it from its worker goroutine).
   * entries are recycled through cacheEntryPool: releaseEntry(key, entry_cm) clears the entry_cm under its write
     lock and puts it into the pool — unless the entry_cm no longer carries that key (otter v1.2.0 reports an
     expired-then-replaced node twice; [LNotify] lets the backend repeat or invent ANY notification); Store takes an entry_cm from the pool (or a fresh one), fills it under the write
     lock and publishes it with backend.Set / SetIfAbsent.  A reader that obtained the pointer before the
     eviction may therefore lock an entry_cm that meanwhile belongs to another key.
   * Get = backend lookup; TryRLock; (e.v == nil || e.k != k) -> miss; copy e.v; RUnlock.
   * sync.RWMutex: Lock needs no holder at all; TryRLock fails iff a writer holds or waits for the lock.
   * the backend clock (otter's unixtime, updated once per second) lags real time by less than 1 s; a
     binding set at clock c with ttl L expires at c + ceil_seconds(L); lookup finds it while clock < expiry.

   Goroutines are unbounded in number (thread ids are allocated on call); every label_cm is one atomic action,
   so the states reachable by [cm_run] are exactly those reachable under every interleaving.
   Model only (no proofs here): Cache/CacheMemProofs.v. *)
From Mos Require Import Base.Prelude Codec.Name Codec.Msg.

Definition cm_upd {A} (f : nat -> A) (i : nat) (x : A) : nat -> A :=
  fun j => if Nat.eqb j i then x else f j.

Inductive owner_cm := OwnT (t : nat) | OwnRel.     (* who holds the write lock: goroutine t (Store) / releaseEntry *)

Record entry_cm := mkEntry {
  e_k : list N;                 (* cacheEntry.k *)
  e_v : option (list N);        (* cacheEntry.v (nil after release) *)
  e_w : option owner_cm;           (* write lock holder *)
  e_r : list nat                (* goroutines holding a read lock *)
}.
Definition entry0 : entry_cm := mkEntry [] None None [].

(* program counters of one goroutine *)
Inductive pc_cm :=
| Idle
| SNew (k v : list N) (ttl : N) (nx : bool)             (* Store called; next: newCacheEntry() *)
| SLock (k v : list N) (ttl : N) (nx : bool) (e : nat)  (* next: e.l.Lock() *)
| SFillK (k v : list N) (ttl : N) (nx : bool) (e : nat) (* holds the lock; next: e.k = ks *)
| SFillV (k v : list N) (ttl : N) (nx : bool) (e : nat) (* next: e.v = vCopy; e.l.Unlock() *)
| SSet (k : list N) (ttl : N) (nx : bool) (e : nat)     (* next: backend.Set / SetIfAbsent *)
| GLook (k : list N)                                    (* Get called; next: backend.Get *)
| GTry (k : list N) (e : nat)                           (* next: e.l.TryRLock() *)
| GCheck (k : list N) (e : nat)                         (* holds a read lock; next: e.v == nil || e.k != k *)
| GCopy (k : list N) (e : nat)                          (* next: v = CopyBuf(e.v) *)
| GUnlockMiss (k : list N) (e : nat)                    (* next: RUnlock; return nil *)
| GUnlockHit (k : list N) (e : nat) (v : list N).       (* next: RUnlock; return v *)

Inductive event_cm :=
| CmStore (k v : list N)        (* Store(k, v) was called *)
| CmHit (k v : list N)          (* Get(k) returned v *)
| CmMiss (k : list N).          (* Get(k) returned nil *)

Record binding := mkB { b_k : list N; b_e : nat; b_exp : N }.

Record state_cm := mkState {
  backend : list binding;
  ents : nat -> entry_cm;
  nent : nat;                   (* entries allocated so far (fresh ids are >= nent) *)
  free : list nat;              (* cacheEntryPool *)
  issued : list nat;            (* taken from the pool, Store's Lock not yet acquired (a waiting writer) *)
  pend : list (list N * nat);   (* deletion notifications (key, entry_cm) whose releaseEntry has not yet locked *)
  relw : list (list N * nat);   (* releaseEntry(key, entry_cm) holds the write lock *)
  relc : list nat;              (* cleared and unlocked, not yet put into the pool *)
  thr : nat -> pc_cm;
  nthr : nat;
  now : N;                      (* real time, ms *)
  bclk : N;                     (* backend clock, ms:  bclk <= now < bclk + 1000 *)
  trace : list event_cm            (* newest first *)
}.

Definition cm_init : state_cm :=
  mkState [] (fun _ => entry0) 0 [] [] [] [] [] (fun _ => Idle) 0 0 0 [].

Inductive label_cm :=
| LStore (k v : list N) (ttl : N) (nx : bool)   (* a new goroutine calls Store *)
| LGet (k : list N)                             (* a new goroutine calls Get *)
| LStep (t : nat) (choice : option nat)         (* goroutine t performs its next atomic action *)
| LEvict (i : nat)                              (* the backend drops its i-th binding *)
| LNotify (k : list N) (e : nat)                (* otter invokes the deletion listener for (k, e) once more *)
| LRelLock (k : list N) (e : nat)               (* releaseEntry(k, e): e.l.Lock() *)
| LRelClear (k : list N) (e : nat)              (* ... e.k != k: Unlock, return | e.k = ""; e.v = nil; Unlock *)
| LRelPut (e : nat)                             (* ... cacheEntryPool.Put(e) *)
| LTick (d : N)                                 (* real time advances *)
| LSync (c : N).                                (* the backend clock is refreshed *)

(* ---- field updates ---- *)
Definition with_thr (s : state_cm) (t : nat) (p : pc_cm) : state_cm :=
  mkState (backend s) (ents s) (nent s) (free s) (issued s) (pend s) (relw s) (relc s)
          (cm_upd (thr s) t p) (nthr s) (now s) (bclk s) (trace s).
Definition with_ent (s : state_cm) (e : nat) (x : entry_cm) : state_cm :=
  mkState (backend s) (cm_upd (ents s) e x) (nent s) (free s) (issued s) (pend s) (relw s) (relc s)
          (thr s) (nthr s) (now s) (bclk s) (trace s).
Definition with_ev (s : state_cm) (ev : event_cm) : state_cm :=
  mkState (backend s) (ents s) (nent s) (free s) (issued s) (pend s) (relw s) (relc s)
          (thr s) (nthr s) (now s) (bclk s) (ev :: trace s).
Definition with_backend (s : state_cm) (b : list binding) (pd : list (list N * nat)) : state_cm :=
  mkState b (ents s) (nent s) (free s) (issued s) pd (relw s) (relc s)
          (thr s) (nthr s) (now s) (bclk s) (trace s).
Definition with_pool (s : state_cm) (n : nat) (fr iss : list nat) : state_cm :=
  mkState (backend s) (ents s) n fr iss (pend s) (relw s) (relc s)
          (thr s) (nthr s) (now s) (bclk s) (trace s).
Definition with_rel (s : state_cm) (fr : list nat) (pd rw : list (list N * nat)) (rc : list nat) : state_cm :=
  mkState (backend s) (ents s) (nent s) fr (issued s) pd rw rc
          (thr s) (nthr s) (now s) (bclk s) (trace s).
Definition with_time (s : state_cm) (n c : N) : state_cm :=
  mkState (backend s) (ents s) (nent s) (free s) (issued s) (pend s) (relw s) (relc s)
          (thr s) (nthr s) n c (trace s).
Definition spawn (s : state_cm) (p : pc_cm) : state_cm :=
  mkState (backend s) (ents s) (nent s) (free s) (issued s) (pend s) (relw s) (relc s)
          (cm_upd (thr s) (nthr s) p) (S (nthr s)) (now s) (bclk s) (trace s).

Definition rem (e : nat) (l : list nat) : list nat := remove Nat.eq_dec e l.
Definition cm_mem (e : nat) (l : list nat) : bool := existsb (Nat.eqb e) l.
Definition same2 (k : list N) (e : nat) (p : list N * nat) : bool := list_eqb k (fst p) && Nat.eqb e (snd p).
Definition mem2 (k : list N) (e : nat) (l : list (list N * nat)) : bool := existsb (same2 k e) l.
Definition rem2 (k : list N) (e : nat) (l : list (list N * nat)) : list (list N * nat) :=
  filter (fun p => negb (same2 k e p)) l.
(* every pair about entry_cm e (the write lock has one holder, so there is at most one) *)
Definition rem_e (e : nat) (l : list (list N * nat)) : list (list N * nat) :=
  filter (fun p => negb (Nat.eqb e (snd p))) l.
Fixpoint drop_nth {A} (i : nat) (l : list A) : list A :=
  match l, i with
  | [], _ => []
  | _ :: t, O => t
  | x :: t, S i' => x :: drop_nth i' t
  end.

Fixpoint find_b (k : list N) (b : list binding) : option binding :=
  match b with
  | [] => None
  | x :: r => if list_eqb k (b_k x) then Some x else find_b k r
  end.
Definition others (k : list N) (b : list binding) : list binding :=
  filter (fun x => negb (list_eqb k (b_k x))) b.
Definition same (k : list N) (b : list binding) : list binding :=
  filter (fun x => list_eqb k (b_k x)) b.

(* otter: expiration = clock + ceil(ttl / 1 s) *)
Definition ceil_s (ttl : N) : N := ((ttl + 999) / 1000 * 1000)%N.

Definition unlocked (x : entry_cm) : bool :=
  match e_w x, e_r x with None, [] => true | _, _ => false end.

(* one atomic action of goroutine t *)
Definition step_thread (s : state_cm) (t : nat) (choice : option nat) : option state_cm :=
  match thr s t with
  | Idle => None
  | SNew k v ttl nx =>
    match choice with
    | None => let e := nent s in
              Some (with_thr (with_pool s (S e) (free s) (e :: issued s)) t (SLock k v ttl nx e))
    | Some i => match nth_error (free s) i with
                | Some e => Some (with_thr (with_pool s (nent s) (drop_nth i (free s)) (e :: issued s)) t
                                           (SLock k v ttl nx e))
                | None => None
                end
    end
  | SLock k v ttl nx e =>
    let x := ents s e in
    if unlocked x
    then Some (with_thr (with_pool (with_ent s e (mkEntry (e_k x) (e_v x) (Some (OwnT t)) (e_r x)))
                                   (nent s) (free s) (rem e (issued s))) t (SFillK k v ttl nx e))
    else None                                             (* blocked *)
  | SFillK k v ttl nx e =>
    let x := ents s e in
    Some (with_thr (with_ent s e (mkEntry k (e_v x) (e_w x) (e_r x))) t (SFillV k v ttl nx e))
  | SFillV k v ttl nx e =>
    let x := ents s e in
    Some (with_thr (with_ent s e (mkEntry (e_k x) (Some v) None (e_r x))) t (SSet k ttl nx e))
  | SSet k ttl nx e =>
    let nb := mkB k e (bclk s + ceil_s ttl) in
    match find_b k (backend s) with
    | Some _ =>
      if nx then Some (with_thr s t Idle)                 (* SetIfAbsent: the new entry_cm is simply dropped *)
      else Some (with_thr (with_backend s (nb :: others k (backend s))
                                        (map (fun b => (b_k b, b_e b)) (same k (backend s)) ++ pend s)) t Idle)
    | None => Some (with_thr (with_backend s (nb :: backend s) (pend s)) t Idle)
    end
  | GLook k =>
    match find_b k (backend s) with
    | Some b => if (bclk s <? b_exp b)%N then Some (with_thr s t (GTry k (b_e b)))
                else Some (with_ev (with_thr s t Idle) (CmMiss k))
    | None => Some (with_ev (with_thr s t Idle) (CmMiss k))
    end
  | GTry k e =>
    let x := ents s e in
    match choice with
    | None =>
      match e_w x with
      | None => Some (with_thr (with_ent s e (mkEntry (e_k x) (e_v x) None (t :: e_r x))) t (GCheck k e))
      | Some _ => Some (with_ev (with_thr s t Idle) (CmMiss k))      (* a writer holds the lock *)
      end
    | Some _ =>                                                       (* a writer is waiting for the lock *)
      if cm_mem e (map snd (pend s)) || cm_mem e (issued s)
      then Some (with_ev (with_thr s t Idle) (CmMiss k)) else None
    end
  | GCheck k e =>
    let x := ents s e in
    match e_v x with
    | None => Some (with_thr s t (GUnlockMiss k e))
    | Some _ => if list_eqb (e_k x) k then Some (with_thr s t (GCopy k e))
                else Some (with_thr s t (GUnlockMiss k e))
    end
  | GCopy k e =>
    match e_v (ents s e) with
    | Some v => Some (with_thr s t (GUnlockHit k e v))
    | None => None                                                    (* would be a nil dereference *)
    end
  | GUnlockMiss k e =>
    let x := ents s e in
    Some (with_ev (with_thr (with_ent s e (mkEntry (e_k x) (e_v x) (e_w x) (rem t (e_r x)))) t Idle) (CmMiss k))
  | GUnlockHit k e v =>
    let x := ents s e in
    Some (with_ev (with_thr (with_ent s e (mkEntry (e_k x) (e_v x) (e_w x) (rem t (e_r x)))) t Idle) (CmHit k v))
  end.

Definition cm_step (s : state_cm) (l : label_cm) : option state_cm :=
  match l with
  | LStore k v ttl nx => Some (with_ev (spawn s (SNew k v ttl nx)) (CmStore k v))
  | LGet k => Some (spawn s (GLook k))
  | LStep t c => step_thread s t c
  | LEvict i =>
    match nth_error (backend s) i with
    | Some b => Some (with_backend s (drop_nth i (backend s)) ((b_k b, b_e b) :: pend s))
    | None => None
    end
  | LNotify k e => Some (with_backend s (backend s) ((k, e) :: pend s))
  | LRelLock k e =>
    let x := ents s e in
    if mem2 k e (pend s) && unlocked x
    then Some (with_rel (with_ent s e (mkEntry (e_k x) (e_v x) (Some OwnRel) (e_r x)))
                        (free s) (rem2 k e (pend s)) ((k, e) :: relw s) (relc s))
    else None
  | LRelClear k e =>
    let x := ents s e in
    if mem2 k e (relw s)
    then if list_eqb (e_k x) k
         then Some (with_rel (with_ent s e (mkEntry [] None None (e_r x)))
                             (free s) (pend s) (rem_e e (relw s)) (e :: relc s))
         else (* already released, or re-issued for another key: leave it alone *)
              Some (with_rel (with_ent s e (mkEntry (e_k x) (e_v x) None (e_r x)))
                             (free s) (pend s) (rem_e e (relw s)) (relc s))
    else None
  | LRelPut e =>
    if cm_mem e (relc s)
    then Some (with_rel s (e :: free s) (pend s) (relw s) (rem e (relc s)))
    else None
  | LTick d => if (now s + d <? bclk s + 1000)%N then Some (with_time s (now s + d) (bclk s)) else None
  | LSync c => if (bclk s <=? c)%N && (c <=? now s)%N then Some (with_time s (now s) c) else None
  end.

Fixpoint cm_run (ls : list label_cm) (s : state_cm) : option state_cm :=
  match ls with
  | [] => Some s
  | l :: r => match cm_step s l with Some s' => cm_run r s' | None => None end
  end.

(* ---------- quiescent (big-cm_step) operations: particular schedules of the small-cm_step system ---------- *)

(* let goroutine t cm_run alone until it returns *)
Fixpoint drive (fuel : nat) (t : nat) (s : state_cm) : option state_cm :=
  match thr s t with
  | Idle => Some s
  | _ => match fuel with
         | O => None
         | S f => match cm_step s (LStep t None) with Some s' => drive f t s' | None => None end
         end
  end.

Definition pool_choice (s : state_cm) : option nat := match free s with [] => None | _ => Some 0 end.

Definition big_store (k v : list N) (ttl : N) (nx : bool) (s : state_cm) : option state_cm :=
  let t := nthr s in
  match cm_step s (LStore k v ttl nx) with
  | Some s1 => match cm_step s1 (LStep t (pool_choice s1)) with
               | Some s2 => drive 8 t s2
               | None => None
               end
  | None => None
  end.

Definition big_get (k : list N) (s : state_cm) : option state_cm :=
  let t := nthr s in
  match cm_step s (LGet k) with Some s1 => drive 8 t s1 | None => None end.

Fixpoint index_b (k : list N) (b : list binding) : option (nat * nat) :=
  match b with
  | [] => None
  | x :: r => if list_eqb k (b_k x) then Some (0, b_e x)
              else match index_b k r with Some (i, e) => Some (S i, e) | None => None end
  end.

(* drop the binding of k and let the deletion listener cm_run to completion (no-op when k is not bound) *)
Definition big_evict (k : list N) (s : state_cm) : option state_cm :=
  match index_b k (backend s) with
  | None => Some s
  | Some (i, e) => cm_run [LEvict i; LRelLock k e; LRelClear k e; LRelPut e] s
  end.

(* real time passes; the clock is refreshed as late as its contract allows (worst case for hits is the
   opposite: an early refresh; both are schedules, the theorem covers all) *)
Definition big_sleep (d : N) (s : state_cm) : option state_cm :=
  match cm_step s (LSync (now s)) with
  | Some s1 => if (d <? 1000)%N then cm_step s1 (LTick d) else None
  | None => None
  end.

(* a reader that looked the pointer up, then lost the race against eviction.  [phase]:
     0 = the entry_cm is being released (write lock held) when the reader tries to lock it
     1 = the entry_cm has been cleared (v == nil), not yet reused
     2 = the entry_cm has been recycled for key k2 / value v2 *)
Definition big_race (phase : nat) (k k2 v2 : list N) (s : state_cm) : option state_cm :=
  let t := nthr s in
  match cm_step s (LGet k) with
  | None => None
  | Some s1 =>
    match cm_step s1 (LStep t None) with
    | None => None
    | Some s2 =>
      match thr s2 t, index_b k (backend s2) with
      | GTry _ e, Some (i, _) =>
        match phase with
        | 0 => match cm_run [LEvict i; LRelLock k e] s2 with
               | Some s3 => match drive 8 t s3 with
                            | Some s4 => cm_run [LRelClear k e; LRelPut e] s4
                            | None => None
                            end
               | None => None
               end
        | 1 => match cm_run [LEvict i; LRelLock k e; LRelClear k e] s2 with
               | Some s3 => match drive 8 t s3 with
                            | Some s4 => cm_run [LRelPut e] s4
                            | None => None
                            end
               | None => None
               end
        | _ => match cm_run [LEvict i; LRelLock k e; LRelClear k e; LRelPut e] s2 with
               | Some s3 => match big_store k2 v2 3600000 false s3 with
                            | Some s4 => drive 8 t s4
                            | None => None
                            end
               | None => None
               end
        end
      | _, _ => Some s2        (* k was not bound: the Get already returned a miss *)
      end
    end
  end.

Inductive op :=
| OStore (k v : list N) (ttl : N) (nx : bool)
| OGet (k : list N)
| OEvict (k : list N)
| ORace (phase : nat) (k k2 v2 : list N)
| OSleep (d : N).

Definition big_op (o : op) (s : state_cm) : option state_cm :=
  match o with
  | OStore k v ttl nx => big_store k v ttl nx s
  | OGet k => big_get k s
  | OEvict k => big_evict k s
  | ORace ph k k2 v2 => big_race ph k k2 v2 s
  | OSleep d => big_sleep d s
  end.

Fixpoint big_run (os : list op) (s : state_cm) : option state_cm :=
  match os with
  | [] => Some s
  | o :: r => match big_op o s with Some s' => big_run r s' | None => None end
  end.

(* what the callers of Get saw, oldest first *)
Definition is_ret (e : event_cm) : bool := match e with CmStore _ _ => false | _ => true end.
Definition returns (s : state_cm) : list event_cm := rev (filter is_ret (trace s)).

(* ---------- value encoding: packCacheMsg / unpackCacheMsg ---------- *)
Section Value.
  Variable enc : list N -> list N.                 (* s2.Encode *)
  Variable dec : list N -> option (list N).        (* s2.Decode *)

  Definition pack_cache (m : msg) : res (list N) :=
    do b <- pack_msg (msg_len m) false 0 m; Ok (enc b).

  Definition unpack_cache (c : list N) : res msg :=
    match dec c with Some b => unpack_msg b | None => Err EOther end.
End Value.
