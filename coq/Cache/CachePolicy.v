(* Cache/CachePolicy.v — model of the cache lifetime policy, TTL ageing and expiry (C08).

   Mirrors, branch by branch,
     app/router/cache.go          initCache (maximumTtl), cacheCtl.Store, cacheCtl.Get (memory path)
     internal/dnsutils/msg_ttl.go GetMinimalTTL, SubtractTTL
     internal/cache/mem.go        MemoryCache.Store (time.Until, Set / SetIfAbsent), MemoryCache.Get
     otter v1.2.0                 getTTL / getExpiration (TTL rounded up to whole seconds, uint32),
                                  node.HasExpired (expiration <= unixtime.Now()), GetNode (expired => miss + delete task,
                                  which does NOT cp_remove the node from the hash table), cleanup (removes expired nodes),
                                  hashtable set(onlyIfAbsent) (refuses whenever a node with the key is *present*,
                                  expired or not), the 1 s ticker clock internal/unixtime
     app/router/router.go         handleReq / doPrefetch: which branches reach cache.Store

   Durations and instants are integers in nanoseconds (Z), as time.Duration / time.Time are; TTLs and the
   backend clock are N.  Where the Go code converts (uint32 -> Duration, Duration -> uint32, float seconds ->
   uint32, int seconds -> Duration) the wrap-around is written explicitly.

   The cache *key* is abstract here (N): its construction is C07's model.  The stored *value* is the message
   itself: the value encoding (pack + s2) is C07's; a failing pack is the boolean [packok] of the store event.

   No proofs in this file. *)
From Mos Require Import Base.Prelude Codec.Msg.

Local Open Scope Z_scope.

(* ------------------------------------------------------------------ constants *)
Definition SECOND : Z := 1000000000.                      (* time.Second *)
Definition two32 : Z := 4294967296.
Definition u32max : N := 4294967295%N.                    (* ^uint32(0) *)
Definition default_max_cache_ttl : Z := 6 * 3600 * SECOND. (* defaultMaxCacheTtl = time.Hour * 6 *)

Definition RCodeSuccess : N := 0%N.
Definition RCodeServerFailure : N := 2%N.
Definition RCodeNameError : N := 3%N.

(* int64 wrap-around of Go's signed arithmetic *)
Definition wrap64 (z : Z) : Z := (z + 9223372036854775808) mod 18446744073709551616 - 9223372036854775808.

(* time.Duration(u) * time.Second for a uint32 u (int64 multiplication) *)
Definition dur_of_secs (u : N) : Z := wrap64 (Z.of_N u * SECOND).

(* initCache: c.maximumTtl = time.Duration(cfg.MaximumTTL) * time.Second; if <= 0 { default }   (cfg.MaximumTTL : int) *)
Definition init_max_ttl (cfg_secs : Z) : Z :=
  let d := wrap64 (cfg_secs * SECOND) in
  if d <=? 0 then default_max_cache_ttl else d.

(* ------------------------------------------------------------------ dnsutils.GetMinimalTTL *)
Definition cp_is_opt (r : rr) : bool := (r_type r =? TypeOPT)%N.

(* the three sections in the order the Go loops visit them *)
Definition rrs (m : msg) : list rr := m_an m ++ m_ns m ++ m_ar m.

Fixpoint min_ttl_loop (l : list rr) (minTTL : N) (hasRecord : bool) : N * bool :=
  match l with
  | [] => (minTTL, hasRecord)
  | r :: l' =>
    if cp_is_opt r then min_ttl_loop l' minTTL hasRecord
    else min_ttl_loop l' (if (r_ttl r <? minTTL)%N then r_ttl r else minTTL) true
  end.

Definition get_minimal_ttl (m : msg) : N * bool :=
  let '(mn, has) := min_ttl_loop (rrs m) u32max false in
  if has then (mn, true) else (0%N, false).

(* ------------------------------------------------------------------ cacheCtl.Store: the lifetime switch *)
Definition cap_default (def : Z) (hasRr : bool) (msgRrMinTtl : Z) : Z :=
  if hasRr then Z.min def msgRrMinTtl else def.

Definition lifetime (rcode : N) (hasRr : bool) (u : N) (maximumTtl : Z) : Z :=
  let msgRrMinTtl := dur_of_secs u in
  let ttl :=
    if (rcode =? RCodeNameError)%N then cap_default (30 * SECOND) hasRr msgRrMinTtl
    else if (rcode =? RCodeServerFailure)%N then cap_default (1 * SECOND) hasRr msgRrMinTtl
    else if (rcode =? RCodeSuccess)%N then (if hasRr then msgRrMinTtl else 30 * SECOND)
    else cap_default (5 * SECOND) hasRr msgRrMinTtl in
  let ttl := if ttl <=? 0 then SECOND else ttl in          (* "Minimum ttl is 1." *)
  if ttl >? maximumTtl then maximumTtl else ttl.           (* "Apply maximum." *)

Definition msg_lifetime (maximumTtl : Z) (m : msg) : Z :=
  let '(u, has) := get_minimal_ttl m in
  lifetime (h_rcode (m_hdr m)) has u maximumTtl.

(* resp == nil || resp.Header.Truncated => return *)
Definition cacheable (resp : option msg) : bool :=
  match resp with None => false | Some m => negb (h_tc (m_hdr m)) end.

(* negativeResp := resp.RCode != dnsmsg.RCodeSuccess *)
Definition negative (m : msg) : bool := negb (h_rcode (m_hdr m) =? RCodeSuccess)%N.

(* ------------------------------------------------------------------ dnsutils.SubtractTTL *)
Definition set_ttl (r : rr) (t : N) : rr :=
  mkRR (r_name r) (r_type r) (r_class r) t (r_len r) (r_data r).

(* if hdr.TTL > delta { hdr.TTL -= delta } else { hdr.TTL = 1 } ; OPT skipped *)
Definition sub_rr (delta : N) (r : rr) : rr :=
  if cp_is_opt r then r
  else if (delta <? r_ttl r)%N then set_ttl r (r_ttl r - delta)%N else set_ttl r 1%N.

Definition subtract_ttl (delta : N) (m : msg) : msg :=
  mkMsg (m_hdr m) (m_qs m) (map (sub_rr delta) (m_an m)) (map (sub_rr delta) (m_ns m)) (map (sub_rr delta) (m_ar m)).

(* uint32(time.Since(storedTime).Seconds()): whole seconds (truncated), reduced to 32 bits.
   (Seconds() is a float64; it is exact below 2^24 s, and amd64 converts float -> uint32 through int64.) *)
Definition elapsed_secs (now stored : Z) : N := Z.to_N ((Z.quot (now - stored) SECOND) mod two32).

(* ------------------------------------------------------------------ otter: TTL rounding, expiration, clock *)
(* getTTL: uint32((ttl + time.Second - 1) / time.Second)   (Go division truncates toward zero) *)
Definition otter_ttl (d : Z) : N := Z.to_N ((Z.quot (d + SECOND - 1) SECOND) mod two32).
(* getExpiration: unixtime.Now() + getTTL(ttl)   (uint32 addition) *)
Definition otter_expiration (clk : N) (d : Z) : N := ((clk + otter_ttl d) mod 4294967296)%N.

Notation key := N (only parsing).

Record cp_entry := mkEntry {
  e_stored : Z;        (* cacheEntry.storedTime *)
  e_expire : Z;        (* cacheEntry.expireTime *)
  e_msg : msg;         (* cacheEntry.v (decoded) *)
  e_neg : bool;        (* stored with setNX *)
  e_exp : N            (* otter node expiration, in clock seconds *)
}.

(* HasExpired: n.expiration <= unixtime.Now() *)
Definition has_expired (clk : N) (e : cp_entry) : bool := (e_exp e <=? clk)%N.

(* the backend: an association list (at most one binding per key is kept by [put]) and the ticker clock *)
Record cp_state := mkState { st_clk : N; st_map : list (key * cp_entry) }.

Definition init_state (clk : N) : cp_state := mkState clk [].

Fixpoint cp_find (k : key) (m : list (key * cp_entry)) : option cp_entry :=
  match m with
  | [] => None
  | (k', e) :: m' => if (k =? k')%N then Some e else cp_find k m'
  end.

Fixpoint cp_remove (k : key) (m : list (key * cp_entry)) : list (key * cp_entry) :=
  match m with
  | [] => []
  | (k', e) :: m' => if (k =? k')%N then cp_remove k m' else (k', e) :: cp_remove k m'
  end.

Definition put (k : key) (e : cp_entry) (m : list (key * cp_entry)) : list (key * cp_entry) := (k, e) :: cp_remove k m.

(* what one cp_step shows to the caller / observer *)
Inductive out :=
| OTick
| OEvicted
| OSkipped                                   (* Store returned before touching the backend *)
| OStored (lifetime : Z)                     (* backend Set / successful SetIfAbsent *)
| OKept (lifetime : Z)                       (* SetIfAbsent refused: a node with this key is present *)
| OMiss
| OHit (m : msg) (stored expire : Z).

(* MemoryCache.Store(k, storedTime, expireTime, v, setNX) evaluated when the wall clock shows [until_now]
   (ttl := time.Until(expireTime)) and the otter clock shows st_clk *)
Definition mem_store (st : cp_state) (k : key) (stored expire until_now : Z) (v : msg) (setNX : bool) : cp_state * bool :=
  let e := mkEntry stored expire v setNX (otter_expiration (st_clk st) (expire - until_now)) in
  if setNX then
    match cp_find k (st_map st) with
    | Some _ => (st, false)
    | None => (mkState (st_clk st) (put k e (st_map st)), true)
    end
  else (mkState (st_clk st) (put k e (st_map st)), true).

(* cacheCtl.Store at wall time [t]; the backend call happens [eps] >= 0 later *)
Definition cachectl_store (maximumTtl : Z) (st : cp_state) (t eps : Z) (k : key) (resp : option msg) (packok : bool)
  : cp_state * out :=
  match resp with
  | None => (st, OSkipped)
  | Some m =>
    if h_tc (m_hdr m) then (st, OSkipped)
    else
      let ttl := msg_lifetime maximumTtl m in
      if negb packok then (st, OSkipped)
      else
        let '(st', done) := mem_store st k t (t + ttl) (t + eps) m (negative m) in
        (st', if done then OStored ttl else OKept ttl)
  end.

(* MemoryCache.Store called directly at wall time [now] with caller-chosen storedTime / expireTime: what cacheCtl.Get
   does when it promotes a redis hit into the memory cache (storedTime lies in the past: the ORIGINAL fetch instant;
   setNX = true there) and what the verification hook StoreAt does.  The lifetime handed to otter is
   time.Until(expireTime) = expire - now, whatever storedTime is. *)
Definition mem_store_at (st : cp_state) (now stored expire : Z) (k : key) (v : msg) (setNX : bool) : cp_state * out :=
  let '(st', done) := mem_store st k stored expire now v setNX in
  (st', if done then OStored (expire - now) else OKept (expire - now)).

(* cacheCtl.Get (memory backend) at wall time [t] *)
Definition cachectl_get (st : cp_state) (t : Z) (k : key) : cp_state * out :=
  match cp_find k (st_map st) with
  | None => (st, OMiss)
  | Some e =>
    if has_expired (st_clk st) e
    then (st, OMiss)   (* GetNode pushes newDeleteTask(n): that task updates the eviction / expiry policies only;
                          the node STAYS in otter's hash table (expired) until overwritten by Set or collected *)
    else (st, OHit (subtract_ttl (elapsed_secs t (e_stored e)) (e_msg e)) (e_stored e) (e_expire e))
  end.

(* ------------------------------------------------------------------ histories *)
Inductive event :=
| EvTick (c : N)                                              (* the ticker goroutine publishes a new reading *)
| EvStore (t eps : Z) (k : key) (resp : option msg) (packok : bool)
| EvStoreAt (now stored expire : Z) (k : key) (v : msg) (setNX : bool)   (* MemoryCache.Store, stored <> now allowed *)
| EvGet (t : Z) (k : key)
| EvCollect (k : key)                                         (* otter's cleanup goroutine removes the node if it has expired *)
| EvEvict (k : key).                                          (* size eviction: any key, any time *)

Definition cp_step (maximumTtl : Z) (st : cp_state) (ev : event) : cp_state * out :=
  match ev with
  | EvTick c => (mkState c (st_map st), OTick)
  | EvStore t eps k resp packok => cachectl_store maximumTtl st t eps k resp packok
  | EvStoreAt now stored expire k v nx => mem_store_at st now stored expire k v nx
  | EvGet t k => cachectl_get st t k
  | EvCollect k =>
      match cp_find k (st_map st) with
      | Some e => if has_expired (st_clk st) e then (mkState (st_clk st) (cp_remove k (st_map st)), OEvicted) else (st, OTick)
      | None => (st, OTick)
      end
  | EvEvict k => (mkState (st_clk st) (cp_remove k (st_map st)), OEvicted)
  end.

Fixpoint cp_run (maximumTtl : Z) (st : cp_state) (evs : list event) : cp_state * list out :=
  match evs with
  | [] => (st, [])
  | ev :: evs' =>
    let '(st1, o) := cp_step maximumTtl st ev in
    let '(st2, os) := cp_run maximumTtl st1 evs' in
    (st2, o :: os)
  end.

(* ------------------------------------------------------------------ router level: which branch stores *)
(* handleReq after rule matching (reject / no-upstream rules return before the cache is consulted):
     cache hit                         -> serve the cached message, no Store (prefetch may be spawned: C19)
     miss, forward fails               -> SERVFAIL, no Store
     miss, forward returns resp        -> Store(resp)
   doPrefetch: forward fails -> nothing; forward returns resp -> Store(resp).
   [forward] returns (resp, nil) only when upstream.Exchange returned a decoded reply: a time-out, a connection
   error or an undecodable reply is an error (C14/C01). *)
Inductive upstream_result := UpFail | UpReply (m : msg).

Inductive req_path := PathRejected | PathHit | PathMiss (u : upstream_result).

(* the argument of the Store call the request makes, if it makes one *)
Definition handle_req_store (p : req_path) : option (option msg) :=
  match p with
  | PathRejected => None
  | PathHit => None
  | PathMiss UpFail => None
  | PathMiss (UpReply m) => Some (Some m)
  end.

Definition prefetch_store (u : upstream_result) : option (option msg) :=
  match u with UpFail => None | UpReply m => Some (Some m) end.

(* ------------------------------------------------------------------ executable oracles used by the driver *)
(* the property's lifetime table as a bound, in ns *)
Definition table_bound (rcode : N) (hasRr : bool) (u : N) (maximumTtl : Z) : Z :=
  let base :=
    if (rcode =? RCodeSuccess)%N then (if hasRr then Z.max SECOND (Z.of_N u * SECOND) else 30 * SECOND)
    else if (rcode =? RCodeNameError)%N then 30 * SECOND
    else if (rcode =? RCodeServerFailure)%N then 1 * SECOND
    else 5 * SECOND in
  Z.min base maximumTtl.

(* aged TTL demanded by the property: max 1 (ttl - delta) *)
Definition aged (delta ttl : N) : N := N.max 1 (ttl - delta).

Fixpoint aged_ok (delta : N) (orig got : list rr) : bool :=
  match orig, got with
  | [], [] => true
  | r :: o', r' :: g' =>
    (if cp_is_opt r then (r_ttl r' =? r_ttl r)%N else (r_ttl r' =? aged delta (r_ttl r))%N) && aged_ok delta o' g'
  | _, _ => false
  end.

(* ------------------------------------------------------------------ specification vocabulary (no proofs) *)
(* one record of an aged message: OPT untouched; otherwise only the TTL changes, to max 1 (ttl - delta) *)
Definition rr_aged (delta : N) (r r' : rr) : Prop :=
  if cp_is_opt r then r' = r else r' = set_ttl r (N.max 1 (r_ttl r - delta)).

(* Assumptions about one event, given the backend clock reading [clk] it meets (times in ns from any fixed origin):
     Store: the backend call happens 0 <= eps < 1 s after time.Now(); the clock is not ahead of the wall clock;
            no uint32 wrap of clock + TTL (process uptime + maximum lifetime below 2^32 s).
     StoreAt: the clock is not ahead of the wall clock; the call is made less than 1 s after expireTime (a later call
            hands otter a TTL <= -1 s, which getTTL wraps to a huge uint32: C08_observation_past_expiry; the promotion
            path respects this when redis and the proxy share a clock, because redis has dropped the key by then);
            no uint32 wrap of clock + TTL.  NOTHING is assumed about storedTime.
     Get:   the clock lags the wall clock by less than [lag]. *)
Definition ev_ok (lag mx : Z) (clk : N) (ev : event) : Prop :=
  match ev with
  | EvStore t eps k resp pk =>
      0 <= eps < SECOND /\ Z.of_N clk * SECOND <= t + eps /\ Z.of_N clk * SECOND + mx + SECOND < two32 * SECOND
  | EvStoreAt now stored expire k v nx =>
      Z.of_N clk * SECOND <= now /\ - SECOND < expire - now /\
      Z.of_N clk * SECOND + (expire - now) + SECOND < two32 * SECOND
  | EvGet t k => t - lag < Z.of_N clk * SECOND
  | _ => True
  end.

Fixpoint hist_ok (lag mx : Z) (st : cp_state) (evs : list event) : Prop :=
  match evs with
  | [] => True
  | ev :: evs' => ev_ok lag mx (st_clk st) ev /\ hist_ok lag mx (fst (cp_step mx st ev)) evs'
  end.

(* boolean versions (for closed examples and for the driver) *)
Definition ev_okb (lag mx : Z) (clk : N) (ev : event) : bool :=
  match ev with
  | EvStore t eps k resp pk =>
      (0 <=? eps) && (eps <? SECOND) && (Z.of_N clk * SECOND <=? t + eps) &&
      (Z.of_N clk * SECOND + mx + SECOND <? two32 * SECOND)
  | EvStoreAt now stored expire k v nx =>
      (Z.of_N clk * SECOND <=? now) && (- SECOND <? expire - now) &&
      (Z.of_N clk * SECOND + (expire - now) + SECOND <? two32 * SECOND)
  | EvGet t k => t - lag <? Z.of_N clk * SECOND
  | _ => true
  end.

Fixpoint hist_okb (lag mx : Z) (st : cp_state) (evs : list event) : bool :=
  match evs with
  | [] => true
  | ev :: evs' => ev_okb lag mx (st_clk st) ev && hist_okb lag mx (fst (cp_step mx st ev)) evs'
  end.

(* a generic "every cp_step of every history" combinator *)
Fixpoint steps_sat (P : cp_state -> event -> cp_state -> out -> Prop) (mx : Z) (st : cp_state) (evs : list event) : Prop :=
  match evs with
  | [] => True
  | ev :: evs' => P st ev (fst (cp_step mx st ev)) (snd (cp_step mx st ev)) /\ steps_sat P mx (fst (cp_step mx st ev)) evs'
  end.

(* what a cp_step may do to the binding of a key *)
Definition neg_keeps (st : cp_state) (ev : event) (st1 : cp_state) (o : out) : Prop :=
  match ev with
  | EvStore t eps k (Some m) pk =>
      negative m = true -> forall e, cp_find k (st_map st) = Some e ->
        st1 = st /\ (o = OSkipped \/ exists L, o = OKept L)
  | EvStoreAt now stored expire k v true =>        (* set-if-absent, as the promotion of a redis hit is *)
      forall e, cp_find k (st_map st) = Some e -> st1 = st /\ exists L, o = OKept L
  | _ => True
  end.
