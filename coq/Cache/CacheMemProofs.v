(* Cache/CacheMemProofs.v — invariants of the memory-cache transition system (every reachable state = every
   interleaving), refinement of the quiescent operations, value round trip. *)
From Mos Require Import Base.Prelude Codec.Name Codec.Msg Codec.NameProofs Codec.SafetyProofs Codec.WfProofs
  Codec.RoundtripProofs Cache.CacheMem.
From Coq Require Import ZifyN ZifyNat ZifyBool.

(* ---------- the trace property: every hit is preceded by a store of the same key and value ---------- *)
Fixpoint hits_ok (tr : list event) : Prop :=          (* trace is newest first *)
  match tr with
  | [] => True
  | EvHit k v :: r => In (EvStore k v) r /\ hits_ok r
  | _ :: r => hits_ok r
  end.

Lemma hits_ok_split tr : hits_ok tr -> forall l1 k v l2, tr = l1 ++ EvHit k v :: l2 -> In (EvStore k v) l2.
Proof.
  induction tr as [|ev tr IH]; intros H l1 k v l2 E.
  - destruct l1; discriminate.
  - destruct l1 as [|x l1]; cbn in E; inversion E; subst; cbn in H.
    + tauto.
    + assert (Hr : hits_ok (l1 ++ EvHit k v :: l2)) by (destruct x; cbn in H; tauto).
      eapply IH; eauto.
Qed.

(* ---------- the invariant ---------- *)
Definition ent_ok (tr : list event) (x : entry) : Prop :=
  (e_w x <> None -> e_r x = []) /\                       (* a held write lock excludes readers *)
  ((forall t, e_w x <> Some (OwnT t)) ->                 (* unless a Store is filling it, an entry is consistent *)
   forall v, e_v x = Some v -> In (EvStore (e_k x) v) tr).

Definition thr_ok (en : nat -> entry) (tr : list event) (t : nat) (p : pc) : Prop :=
  match p with
  | SNew k v _ _ | SLock k v _ _ _ => In (EvStore k v) tr
  | SFillK k v _ _ e => In (EvStore k v) tr /\ e_w (en e) = Some (OwnT t)
  | SFillV k v _ _ e => In (EvStore k v) tr /\ e_w (en e) = Some (OwnT t) /\ e_k (en e) = k
  | GCheck _ e => In t (e_r (en e))
  | GCopy k e => In t (e_r (en e)) /\ e_k (en e) = k /\ e_v (en e) <> None
  | GUnlockHit k _ v => In (EvStore k v) tr
  | _ => True
  end.

Definition Inv' (en : nat -> entry) (th : nat -> pc) (rw : list (list N * nat)) (tr : list event) : Prop :=
  (forall e, ent_ok tr (en e)) /\
  (forall t, thr_ok en tr t (th t)) /\
  (forall k e, In (k, e) rw -> e_w (en e) = Some OwnRel) /\
  hits_ok tr.

Definition Inv (s : state) : Prop := Inv' (ents s) (thr s) (relw s) (trace s).

Definition grows (tr tr' : list event) : Prop := forall ev, In ev tr -> In ev tr'.
Lemma grows_refl tr : grows tr tr. Proof. intros ev H; exact H. Qed.
Lemma grows_cons ev tr : grows tr (ev :: tr). Proof. intros x H; right; exact H. Qed.
#[local] Hint Resolve grows_refl grows_cons : core.

Lemma ent_ok_grows tr tr' x : grows tr tr' -> ent_ok tr x -> ent_ok tr' x.
Proof. intros G [A B]. split; auto. Qed.

Lemma upd_same {A} (f : nat -> A) i x : upd f i x i = x.
Proof. unfold upd. now rewrite Nat.eqb_refl. Qed.
Lemma upd_other {A} (f : nat -> A) i x j : j <> i -> upd f i x j = f j.
Proof. unfold upd. intros H. apply Nat.eqb_neq in H. now rewrite H. Qed.

(* a thread's obligations survive when only the trace grows *)
Lemma thr_ok_grows en tr tr' t p : grows tr tr' -> thr_ok en tr t p -> thr_ok en tr' t p.
Proof. intros G H. destruct p; cbn in *; intuition. Qed.

(* ... when a WRITER (not this thread) changes an entry that had no readers *)
Lemma thr_ok_upd_w en tr tr' e x t p :
  grows tr tr' -> e_r (en e) = [] -> e_w (en e) <> Some (OwnT t) ->
  thr_ok en tr t p -> thr_ok (upd en e x) tr' t p.
Proof.
  intros G Hr Hw H.
  destruct p; cbn in *; auto;
    try (destruct (Nat.eq_dec e0 e) as [->|Hne];
         [exfalso; intuition (try congruence); rewrite Hr in *; cbn in *; tauto
         |rewrite upd_other by exact Hne; intuition]).
Qed.

(* ... when a READER step changes only the reader set of an entry, keeping every other reader *)
Lemma thr_ok_upd_r en tr tr' e x t0 t p :
  grows tr tr' -> t <> t0 ->
  e_w x = e_w (en e) -> e_k x = e_k (en e) -> e_v x = e_v (en e) ->
  (forall t', t' <> t0 -> In t' (e_r (en e)) -> In t' (e_r x)) ->
  thr_ok en tr t p -> thr_ok (upd en e x) tr' t p.
Proof.
  intros G Hne Ew Ek Ev Er H.
  destruct p; cbn in *; auto;
    try (destruct (Nat.eq_dec e0 e) as [->|Hne2];
         [rewrite upd_same; rewrite ?Ew, ?Ek, ?Ev; intuition
         |rewrite upd_other by exact Hne2; intuition]).
Qed.

Lemma unlocked_true x : unlocked x = true -> e_w x = None /\ e_r x = [].
Proof. unfold unlocked. destruct (e_w x), (e_r x); try discriminate; auto. Qed.

Lemma mem_In e l : mem e l = true -> In e l.
Proof.
  unfold mem. intros H. apply existsb_exists in H. destruct H as (x & Hx & E).
  apply Nat.eqb_eq in E. now subst.
Qed.

Lemma In_rem_keep x e l : In x l -> x <> e -> In x (rem e l).
Proof. unfold rem. intros. now apply in_in_remove. Qed.

Lemma mem2_In k e l : mem2 k e l = true -> In (k, e) l.
Proof.
  unfold mem2, same2. intros H. apply existsb_exists in H. destruct H as ([k' e'] & Hx & E). cbn in E.
  apply andb_true_iff in E. destruct E as [Ek Ee]. apply list_eqb_eq in Ek. apply Nat.eqb_eq in Ee. now subst.
Qed.
Lemma In_rem_e e l k' e' : In (k', e') (rem_e e l) -> In (k', e') l /\ e' <> e.
Proof.
  unfold rem_e. intros H. apply filter_In in H. destruct H as [H1 H2]. split; auto. cbn in H2.
  intros ->. rewrite Nat.eqb_refl in H2. discriminate.
Qed.

(* generic re-establishment after one entry and one thread changed *)
Lemma inv_step en th rw tr e x t p tr' rw' :
  Inv' en th rw tr -> grows tr tr' -> hits_ok tr' -> ent_ok tr' x ->
  (forall t', t' <> t -> thr_ok en tr t' (th t') -> thr_ok (upd en e x) tr' t' (th t')) ->
  thr_ok (upd en e x) tr' t p ->
  (forall k' e', In (k', e') rw' -> e_w (upd en e x e') = Some OwnRel) ->
  Inv' (upd en e x) (upd th t p) rw' tr'.
Proof.
  intros (I1 & I2 & I3 & I4) G Hh Hx Ht Hp Hr. split; [|split; [|split]]; auto.
  - intros e0. destruct (Nat.eq_dec e0 e) as [->|Hne]; [rewrite upd_same; apply Hx|rewrite upd_other by exact Hne].
    apply (ent_ok_grows tr tr'); auto.
  - intros t'. destruct (Nat.eq_dec t' t) as [->|Hne]; [rewrite upd_same; exact Hp|].
    rewrite upd_other by exact Hne. apply Ht; auto.
Qed.

(* only a thread's pc (and possibly the trace) changed *)
Lemma inv_thr en th rw tr t p tr' :
  Inv' en th rw tr -> grows tr tr' -> hits_ok tr' -> thr_ok en tr' t p -> Inv' en (upd th t p) rw tr'.
Proof.
  intros (I1 & I2 & I3 & I4) G Hh Hp. split; [|split; [|split]]; auto.
  - intros e0. apply (ent_ok_grows tr tr'); auto.
  - intros t'. destruct (Nat.eq_dec t' t) as [->|Hne]; [rewrite upd_same; exact Hp|].
    rewrite upd_other by exact Hne. eapply thr_ok_grows; eauto.
Qed.

(* only an entry changed (releaseEntry's steps) *)
Lemma inv_ent en th rw tr e x rw' :
  Inv' en th rw tr -> ent_ok tr x ->
  (forall t', thr_ok en tr t' (th t') -> thr_ok (upd en e x) tr t' (th t')) ->
  (forall k' e', In (k', e') rw' -> e_w (upd en e x e') = Some OwnRel) ->
  Inv' (upd en e x) th rw' tr.
Proof.
  intros (I1 & I2 & I3 & I4) Hx Ht Hr. split; [|split; [|split]]; auto.
  intros e0. destruct (Nat.eq_dec e0 e) as [->|Hne]; [rewrite upd_same; apply Hx|rewrite upd_other by exact Hne; apply I1].
Qed.

Lemma relw_keep en (rw : list (list N * nat)) e x :
  (forall k' e', In (k', e') rw -> e_w (en e') = Some OwnRel) -> e_w x = e_w (en e) ->
  forall k' e', In (k', e') rw -> e_w (upd en e x e') = Some OwnRel.
Proof.
  intros H E k' e' Hin. destruct (Nat.eq_dec e' e) as [->|Hne];
    [rewrite upd_same, E; eauto|rewrite upd_other by exact Hne; eauto].
Qed.

Lemma relw_contra en (rw : list (list N * nat)) e x o :
  (forall k' e', In (k', e') rw -> e_w (en e') = Some OwnRel) -> e_w (en e) = o -> o <> Some OwnRel ->
  forall k' e', In (k', e') rw -> e_w (upd en e x e') = Some OwnRel.
Proof.
  intros H E Hne k' e' Hin. destruct (Nat.eq_dec e' e) as [->|Hne2];
    [exfalso; apply Hne; rewrite <- E; eauto|rewrite upd_other by exact Hne2; eauto].
Qed.

Lemma init_inv : Inv init.
Proof.
  unfold Inv, Inv', init; cbn. split; [|split; [|split]]; auto; try tauto.
  intros e. split; cbn; [tauto|discriminate].
Qed.

Lemma step_thread_inv s t c s' : Inv s -> step_thread s t c = Some s' -> Inv s'.
Proof.
  unfold Inv. intros I H. unfold step_thread in H.
  pose proof I as (I1 & I2 & I3 & I4). pose proof (I2 t) as Ht.
  destruct (thr s t) eqn:Epc; try discriminate.
  - (* SNew *)
    destruct c as [i|].
    + destruct (nth_error (free s) i); inversion H; subst; cbn. apply (inv_thr _ _ _ (trace s)); auto.
    + inversion H; subst; cbn. apply (inv_thr _ _ _ (trace s)); auto.
  - (* SLock *)
    destruct (unlocked (ents s e)) eqn:U; inversion H; subst; cbn. clear H.
    apply unlocked_true in U. destruct U as [Uw Ur].
    apply (inv_step _ _ (relw s) (trace s)); auto.
    + split; cbn; [auto|]. intros W. exfalso. apply (W t). reflexivity.
    + intros t' Hne. apply thr_ok_upd_w; auto. rewrite Uw. discriminate.
    + cbn. rewrite upd_same. cbn. cbn in Ht. auto.
    + eapply relw_contra; eauto. discriminate.
  - (* SFillK *)
    inversion H; subst; cbn. clear H. cbn in Ht. destruct Ht as [Hs Hw].
    assert (Hr : e_r (ents s e) = []) by (apply (I1 e); rewrite Hw; discriminate).
    apply (inv_step _ _ (relw s) (trace s)); auto.
    + split; cbn; [auto|]. intros W. exfalso. apply (W t). exact Hw.
    + intros t' Hne. apply thr_ok_upd_w; auto. rewrite Hw. congruence.
    + cbn. rewrite upd_same. cbn. auto.
    + eapply relw_keep; eauto.
  - (* SFillV *)
    inversion H; subst; cbn. clear H. cbn in Ht. destruct Ht as (Hs & Hw & Hk).
    assert (Hr : e_r (ents s e) = []) by (apply (I1 e); rewrite Hw; discriminate).
    apply (inv_step _ _ (relw s) (trace s)); auto.
    + split; cbn; [tauto|]. intros _ v0 E. inversion E; subst. exact Hs.
    + intros t' Hne. apply thr_ok_upd_w; auto. rewrite Hw. congruence.
    + cbn. trivial.
    + eapply relw_contra; eauto. discriminate.
  - (* SSet *)
    destruct (find_b k (backend s)); [destruct nx|]; inversion H; subst; cbn;
      apply (inv_thr _ _ _ (trace s)); cbn; auto.
  - (* GLook *)
    destruct (find_b k (backend s)) as [b|]; [destruct (bclk s <? b_exp b)%N|]; inversion H; subst; cbn;
      apply (inv_thr _ _ _ (trace s)); cbn; auto.
  - (* GTry *)
    destruct c as [i|].
    + destruct (mem e (map snd (pend s)) || mem e (issued s)); inversion H; subst; cbn.
      apply (inv_thr _ _ _ (trace s)); cbn; auto.
    + destruct (e_w (ents s e)) eqn:Ew; inversion H; subst; cbn; clear H.
      * apply (inv_thr _ _ _ (trace s)); cbn; auto.
      * apply (inv_step _ _ (relw s) (trace s)); auto.
        -- destruct (I1 e) as [A B]. split; cbn; [tauto|]. intros _ v0 E. apply B; auto.
           intros t0. rewrite Ew. discriminate.
        -- intros t' Hne. apply (thr_ok_upd_r _ _ _ _ _ t); cbn; auto.
        -- cbn. rewrite upd_same. cbn. auto.
        -- eapply relw_keep; eauto.
  - (* GCheck *)
    cbn in Ht.
    destruct (e_v (ents s e)) eqn:Ev; [destruct (list_eqb (e_k (ents s e)) k) eqn:Ek|];
      inversion H; subst; cbn; apply (inv_thr _ _ _ (trace s)); cbn; auto.
    apply list_eqb_eq in Ek. repeat split; auto. rewrite Ev. discriminate.
  - (* GCopy *)
    cbn in Ht. destruct Ht as (Hin & Hk & Hv).
    destruct (e_v (ents s e)) as [v|] eqn:Ev; [|discriminate]. injection H as <-. cbn.
    apply (inv_thr _ _ _ (trace s)); cbn; auto.
    destruct (I1 e) as [A B]. rewrite <- Hk. apply B; auto.
    intros t0 W. rewrite A in Hin by (rewrite W; discriminate). exact Hin.
  - (* GUnlockMiss *)
    inversion H; subst; cbn. clear H.
    apply (inv_step _ _ (relw s) (trace s)); cbn; auto.
    + destruct (I1 e) as [A B]. split; cbn.
      * intros W. rewrite (A W). reflexivity.
      * intros W v0 E. right. apply B; auto.
    + intros t' Hne. apply (thr_ok_upd_r _ _ _ _ _ t); cbn; auto.
      intros t'' Hne2 Hin. apply In_rem_keep; auto.
    + eapply relw_keep; eauto.
  - (* GUnlockHit *)
    inversion H; subst; cbn. clear H. cbn in Ht.
    apply (inv_step _ _ (relw s) (trace s)); cbn; auto.
    + destruct (I1 e) as [A B]. split; cbn.
      * intros W. rewrite (A W). reflexivity.
      * intros W v0 E. right. apply B; auto.
    + intros t' Hne. apply (thr_ok_upd_r _ _ _ _ _ t); cbn; auto.
      intros t'' Hne2 Hin. apply In_rem_keep; auto.
    + eapply relw_keep; eauto.
Qed.

Lemma step_inv s l s' : Inv s -> step s l = Some s' -> Inv s'.
Proof.
  intros I H. destruct l; cbn [step] in H.
  - (* LStore *) inversion H; subst. unfold Inv; cbn. apply (inv_thr _ _ _ (trace s)); cbn; auto. apply I.
  - (* LGet *) inversion H; subst. unfold Inv; cbn. apply (inv_thr _ _ _ (trace s)); cbn; auto. apply I.
  - eapply step_thread_inv; eauto.
  - (* LEvict *) destruct (nth_error (backend s) i); inversion H; subst. exact I.
  - (* LNotify *) inversion H; subst. exact I.
  - (* LRelLock *)
    destruct (mem2 k e (pend s) && unlocked (ents s e)) eqn:C; inversion H; subst. clear H.
    apply andb_true_iff in C. destruct C as [_ U]. apply unlocked_true in U. destruct U as [Uw Ur].
    unfold Inv in *; cbn. pose proof I as (I1 & I2 & I3 & I4).
    apply (inv_ent _ _ (relw s)); auto.
    + destruct (I1 e) as [A B]. split; cbn; [auto|]. intros _ v0 E. apply B; auto.
      intros t0. rewrite Uw. discriminate.
    + intros t'. apply thr_ok_upd_w; auto. rewrite Uw. discriminate.
    + intros k' e' [E|Hin]; [inversion E; subst; rewrite upd_same; reflexivity|].
      destruct (Nat.eq_dec e' e) as [->|Hne]; [rewrite upd_same; reflexivity|rewrite upd_other by exact Hne; eauto].
  - (* LRelClear *)
    destruct (mem2 k e (relw s)) eqn:C; [|discriminate]. apply mem2_In in C.
    unfold Inv in *. pose proof I as (I1 & I2 & I3 & I4).
    assert (Hw : e_w (ents s e) = Some OwnRel) by eauto.
    assert (Hr : e_r (ents s e) = []) by (apply (I1 e); rewrite Hw; discriminate).
    destruct (list_eqb (e_k (ents s e)) k); inversion H; subst; clear H; cbn.
    + apply (inv_ent _ _ (relw s)); auto.
      * split; cbn; [tauto|discriminate].
      * intros t'. apply thr_ok_upd_w; auto. rewrite Hw. discriminate.
      * intros k' e' Hin. apply In_rem_e in Hin. destruct Hin as [Hin Hne]. rewrite upd_other by exact Hne. eauto.
    + apply (inv_ent _ _ (relw s)); auto.
      * destruct (I1 e) as [A B]. split; cbn; [tauto|]. intros _ v0 E. apply B; auto.
        intros t0. rewrite Hw. discriminate.
      * intros t'. apply thr_ok_upd_w; auto. rewrite Hw. discriminate.
      * intros k' e' Hin. apply In_rem_e in Hin. destruct Hin as [Hin Hne]. rewrite upd_other by exact Hne. eauto.
  - (* LRelPut *) destruct (mem e (relc s)); inversion H; subst. exact I.
  - (* LTick *) destruct (now s + d <? bclk s + 1000)%N; inversion H; subst. exact I.
  - (* LSync *) destruct ((bclk s <=? c)%N && (c <=? now s)%N); inversion H; subst. exact I.
Qed.

Lemma run_inv ls : forall s s', Inv s -> run ls s = Some s' -> Inv s'.
Proof.
  induction ls as [|l ls IH]; intros s s' I H; cbn in H; [inversion H; subst; exact I|].
  destruct (step s l) eqn:E; [|discriminate]. eapply IH; [|exact H]. eapply step_inv; eauto.
Qed.

(* ---------- C07_hit_same_key ---------- *)
Theorem hit_same_key : forall ls s, run ls init = Some s ->
  forall l1 k v l2, trace s = l1 ++ EvHit k v :: l2 -> In (EvStore k v) l2.
Proof.
  intros ls s H. pose proof (run_inv ls init s init_inv H) as (_ & _ & _ & Hh).
  apply hits_ok_split. exact Hh.
Qed.

(* mutual exclusion, for the record: in every reachable state a write-locked entry has no reader, and a
   goroutine between its check and its copy still sees the key it checked *)
Theorem lock_excludes_readers : forall ls s, run ls init = Some s ->
  forall e, e_w (ents s e) <> None -> e_r (ents s e) = [].
Proof. intros ls s H e. pose proof (run_inv ls init s init_inv H) as (I1 & _). apply I1. Qed.

Theorem checked_key_stable : forall ls s, run ls init = Some s ->
  forall t k e, thr s t = GCopy k e -> e_k (ents s e) = k /\ e_v (ents s e) <> None /\ e_w (ents s e) = None.
Proof.
  intros ls s H t k e E. pose proof (run_inv ls init s init_inv H) as (I1 & I2 & _).
  specialize (I2 t). rewrite E in I2. cbn in I2. destruct I2 as (Hin & Hk & Hv). repeat split; auto.
  destruct (e_w (ents s e)) eqn:W; auto. exfalso. destruct (I1 e) as [A _].
  rewrite A in Hin by (rewrite W; discriminate). exact Hin.
Qed.

(* ---------- the quiescent operations are schedules of the small-step system ---------- *)
Definition reach (s s' : state) : Prop := exists ls, run ls s = Some s'.

Lemma run_app a : forall b s, run (a ++ b) s = match run a s with Some s1 => run b s1 | None => None end.
Proof. induction a as [|l a IH]; intros b s; cbn; [reflexivity|]. destruct (step s l); auto. Qed.

Lemma reach_refl s : reach s s. Proof. exists []. reflexivity. Qed.
Lemma reach_trans a b c : reach a b -> reach b c -> reach a c.
Proof. intros [l1 H1] [l2 H2]. exists (l1 ++ l2). now rewrite run_app, H1. Qed.
Lemma reach_step s l s1 : step s l = Some s1 -> reach s s1.
Proof. intros H. exists [l]. cbn. now rewrite H. Qed.
Lemma reach_run ls s s1 : run ls s = Some s1 -> reach s s1.
Proof. intros H. exists ls. exact H. Qed.

Lemma reach_drive fuel : forall t s s', drive fuel t s = Some s' -> reach s s'.
Proof.
  induction fuel as [|f IH]; intros t s s' H; cbn [drive] in H.
  - destruct (thr s t); inversion H; subst; apply reach_refl.
  - destruct (thr s t) eqn:E; try (inversion H; subst; apply reach_refl);
      (destruct (step s (LStep t None)) eqn:Es; [|discriminate];
       eapply reach_trans; [eapply reach_step; exact Es|eapply IH; exact H]).
Qed.

Lemma reach_big_store k v ttl nx s s' : big_store k v ttl nx s = Some s' -> reach s s'.
Proof.
  unfold big_store. intros H.
  destruct (step s (LStore k v ttl nx)) eqn:E1; [|discriminate].
  destruct (step s0 (LStep (nthr s) (pool_choice s0))) eqn:E2; [|discriminate].
  eapply reach_trans; [eapply reach_step; exact E1|].
  eapply reach_trans; [eapply reach_step; exact E2|]. eapply reach_drive; exact H.
Qed.

Lemma reach_big_get k s s' : big_get k s = Some s' -> reach s s'.
Proof.
  unfold big_get. intros H. destruct (step s (LGet k)) eqn:E1; [|discriminate].
  eapply reach_trans; [eapply reach_step; exact E1|]. eapply reach_drive; exact H.
Qed.

Lemma reach_big_evict k s s' : big_evict k s = Some s' -> reach s s'.
Proof.
  unfold big_evict. intros H. destruct (index_b k (backend s)) as [[i e]|].
  - eapply reach_run; exact H.
  - inversion H; subst. apply reach_refl.
Qed.

Lemma reach_big_sleep d s s' : big_sleep d s = Some s' -> reach s s'.
Proof.
  unfold big_sleep. intros H. destruct (step s (LSync (now s))) eqn:E1; [|discriminate].
  destruct (d <? 1000)%N; [|discriminate].
  eapply reach_trans; eapply reach_step; eauto.
Qed.

Lemma reach_big_race ph k k2 v2 s s' : big_race ph k k2 v2 s = Some s' -> reach s s'.
Proof.
  unfold big_race. intros H.
  destruct (step s (LGet k)) eqn:E1; [|discriminate].
  destruct (step s0 (LStep (nthr s) None)) eqn:E2; [|discriminate].
  eapply reach_trans; [eapply reach_step; exact E1|].
  eapply reach_trans; [eapply reach_step; exact E2|].
  destruct (thr s1 (nthr s)); try (injection H as <-; apply reach_refl).
  destruct (index_b k (backend s1)) as [[i e']|]; [|injection H as <-; apply reach_refl].
  destruct ph as [|[|ph]].
  - destruct (run [LEvict i; LRelLock k e] s1) eqn:R1; [|discriminate].
    destruct (drive 8 (nthr s) s2) eqn:D; [|discriminate].
    eapply reach_trans; [eapply reach_run; exact R1|].
    eapply reach_trans; [eapply reach_drive; exact D|]. eapply reach_run; exact H.
  - destruct (run [LEvict i; LRelLock k e; LRelClear k e] s1) eqn:R1; [|discriminate].
    destruct (drive 8 (nthr s) s2) eqn:D; [|discriminate].
    eapply reach_trans; [eapply reach_run; exact R1|].
    eapply reach_trans; [eapply reach_drive; exact D|]. eapply reach_run; exact H.
  - destruct (run [LEvict i; LRelLock k e; LRelClear k e; LRelPut e] s1) eqn:R1; [|discriminate].
    destruct (big_store k2 v2 3600000 false s2) eqn:B; [|discriminate].
    eapply reach_trans; [eapply reach_run; exact R1|].
    eapply reach_trans; [eapply reach_big_store; exact B|]. eapply reach_drive; exact H.
Qed.

(* (conversion hint for the kernel: unfold big_op, not the operations, when checking the next lemma) *)
Opaque big_store big_get big_evict big_race big_sleep.
Lemma reach_big_op o s s' : big_op o s = Some s' -> reach s s'.
Proof.
  destruct o; intros H.
  - eapply reach_big_store; exact H.
  - eapply reach_big_get; exact H.
  - eapply reach_big_evict; exact H.
  - eapply reach_big_race; exact H.
  - eapply reach_big_sleep; exact H.
Qed.
Transparent big_store big_get big_evict big_race big_sleep.

Theorem big_refines_small : forall os s s', big_run os s = Some s' -> reach s s'.
Proof.
  induction os as [|o os IH]; intros s s' H; cbn [big_run] in H; [inversion H; subst; apply reach_refl|].
  destruct (big_op o s) eqn:E; [|discriminate].
  eapply reach_trans; [eapply reach_big_op; exact E|eapply IH; exact H].
Qed.

(* hence the histories replayed against the implementation satisfy the trace property too *)
Corollary big_hit_same_key : forall os s, big_run os init = Some s ->
  forall l1 k v l2, trace s = l1 ++ EvHit k v :: l2 -> In (EvStore k v) l2.
Proof. intros os s H. destruct (big_refines_small os init s H) as [ls Hl]. eapply hit_same_key; eauto. Qed.

(* ---------- value encoding ---------- *)
Section ValueProofs.
  Variable enc : list N -> list N.
  Variable dec : list N -> option (list N).
  Hypothesis dec_enc : forall x, dec (enc x) = Some x.

  Theorem value_unchanged : forall m : msg, wf_msg m ->
    exists c m', pack_cache enc m = Ok c /\ unpack_cache dec c = Ok m' /\ view m' = view m.
  Proof.
    intros m Hw. exists (enc (plain_bytes m)), (relen m). unfold pack_cache, unpack_cache.
    rewrite pack_msg_plain by exact Hw. cbn [bind]. rewrite dec_enc. split; [reflexivity|].
    split; [|apply view_relen]. rewrite <- (app_nil_r (plain_bytes m)). now apply unpack_plain.
  Qed.

  (* for every upstream response the proxy's decoder accepted *)
  Theorem value_unchanged_accepted : forall (bs : list N) (m : msg), bytes bs -> unpack_msg bs = Ok m ->
    exists c m', pack_cache enc m = Ok c /\ unpack_cache dec c = Ok m' /\ view m' = view m.
  Proof. intros bs m Hb Hu. apply value_unchanged. eapply unpack_msg_wf; eauto. Qed.
End ValueProofs.
