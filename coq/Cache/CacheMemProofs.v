(* Cache/CacheMemProofs.v — invariants of the memory-cache transition system (every reachable state_cm = every
   interleaving), refinement of the quiescent operations, value round trip. *)
From Mos Require Import Base.Prelude Codec.Name Codec.Msg Codec.NameProofs Codec.SafetyProofs Codec.WfProofs
  Codec.RoundtripProofs Cache.CacheMem.
From Coq Require Import ZifyN ZifyNat ZifyBool.

(* ---------- the trace property: every hit is preceded by a store of the same key and value ---------- *)
Fixpoint hits_ok (tr : list event_cm) : Prop :=          (* trace is newest first *)
  match tr with
  | [] => True
  | CmHit k v :: r => In (CmStore k v) r /\ hits_ok r
  | _ :: r => hits_ok r
  end.

Lemma hits_ok_split tr : hits_ok tr -> forall l1 k v l2, tr = l1 ++ CmHit k v :: l2 -> In (CmStore k v) l2.
Proof.
  induction tr as [|ev tr IH]; intros H l1 k v l2 E.
  - destruct l1; discriminate.
  - destruct l1 as [|x l1]; cbn in E; inversion E; subst; cbn in H.
    + tauto.
    + assert (Hr : hits_ok (l1 ++ CmHit k v :: l2)) by (destruct x; cbn in H; tauto).
      eapply IH; eauto.
Qed.

(* ---------- the invariant ---------- *)
Definition ent_ok (tr : list event_cm) (x : entry_cm) : Prop :=
  (e_w x <> None -> e_r x = []) /\                       (* a held write lock excludes readers *)
  ((forall t, e_w x <> Some (OwnT t)) ->                 (* unless a Store is filling it, an entry_cm is consistent *)
   forall v, e_v x = Some v -> In (CmStore (e_k x) v) tr).

Definition thr_ok (en : nat -> entry_cm) (tr : list event_cm) (t : nat) (p : pc_cm) : Prop :=
  match p with
  | SNew k v _ _ | SLock k v _ _ _ => In (CmStore k v) tr
  | SFillK k v _ _ e => In (CmStore k v) tr /\ e_w (en e) = Some (OwnT t)
  | SFillV k v _ _ e => In (CmStore k v) tr /\ e_w (en e) = Some (OwnT t) /\ e_k (en e) = k
  | GCheck _ e => In t (e_r (en e))
  | GCopy k e => In t (e_r (en e)) /\ e_k (en e) = k /\ e_v (en e) <> None
  | GUnlockMiss _ e => In t (e_r (en e))
  (* the copy is finished and the read lock is STILL held: what is about to be returned is the value the entry_cm has
     now (nobody can have released or refilled it meanwhile) *)
  | GUnlockHit k e v => In (CmStore k v) tr /\ In t (e_r (en e)) /\ e_k (en e) = k /\ e_v (en e) = Some v
  | _ => True
  end.

Definition Inv' (en : nat -> entry_cm) (th : nat -> pc_cm) (rw : list (list N * nat)) (tr : list event_cm) : Prop :=
  (forall e, ent_ok tr (en e)) /\
  (forall t, thr_ok en tr t (th t)) /\
  (forall k e, In (k, e) rw -> e_w (en e) = Some OwnRel) /\
  hits_ok tr.

Definition Inv (s : state_cm) : Prop := Inv' (ents s) (thr s) (relw s) (trace s).

Definition grows (tr tr' : list event_cm) : Prop := forall ev, In ev tr -> In ev tr'.
Lemma grows_refl tr : grows tr tr. Proof. intros ev H; exact H. Qed.
Lemma grows_cons ev tr : grows tr (ev :: tr). Proof. intros x H; right; exact H. Qed.
#[local] Hint Resolve grows_refl grows_cons : core.

Lemma ent_ok_grows tr tr' x : grows tr tr' -> ent_ok tr x -> ent_ok tr' x.
Proof. intros G [A B]. split; auto. Qed.

Lemma upd_same {A} (f : nat -> A) i x : cm_upd f i x i = x.
Proof. unfold cm_upd. now rewrite Nat.eqb_refl. Qed.
Lemma upd_other {A} (f : nat -> A) i x j : j <> i -> cm_upd f i x j = f j.
Proof. unfold cm_upd. intros H. apply Nat.eqb_neq in H. now rewrite H. Qed.

(* a thread's obligations survive when only the trace grows *)
Lemma thr_ok_grows en tr tr' t p : grows tr tr' -> thr_ok en tr t p -> thr_ok en tr' t p.
Proof. intros G H. destruct p; cbn in *; intuition. Qed.

(* ... when a WRITER (not this thread) changes an entry_cm that had no readers *)
Lemma thr_ok_upd_w en tr tr' e x t p :
  grows tr tr' -> e_r (en e) = [] -> e_w (en e) <> Some (OwnT t) ->
  thr_ok en tr t p -> thr_ok (cm_upd en e x) tr' t p.
Proof.
  intros G Hr Hw H.
  destruct p; cbn in *; auto;
    try (destruct (Nat.eq_dec e0 e) as [->|Hne];
         [exfalso; intuition (try congruence); rewrite Hr in *; cbn in *; tauto
         |rewrite upd_other by exact Hne; intuition]).
Qed.

(* ... when a READER cm_step changes only the reader set of an entry_cm, keeping every other reader *)
Lemma thr_ok_upd_r en tr tr' e x t0 t p :
  grows tr tr' -> t <> t0 ->
  e_w x = e_w (en e) -> e_k x = e_k (en e) -> e_v x = e_v (en e) ->
  (forall t', t' <> t0 -> In t' (e_r (en e)) -> In t' (e_r x)) ->
  thr_ok en tr t p -> thr_ok (cm_upd en e x) tr' t p.
Proof.
  intros G Hne Ew Ek Ev Er H.
  destruct p; cbn in *; auto;
    try (destruct (Nat.eq_dec e0 e) as [->|Hne2];
         [rewrite upd_same; rewrite ?Ew, ?Ek, ?Ev; intuition
         |rewrite upd_other by exact Hne2; intuition]).
Qed.

Lemma unlocked_true x : unlocked x = true -> e_w x = None /\ e_r x = [].
Proof. unfold unlocked. destruct (e_w x), (e_r x); try discriminate; auto. Qed.

Lemma mem_In e l : cm_mem e l = true -> In e l.
Proof.
  unfold cm_mem. intros H. apply existsb_exists in H. destruct H as (x & Hx & E).
  apply Nat.eqb_eq in E. now subst.
Qed.

Lemma In_rem_keep x e l : In x l -> x <> e -> In x (rem e l).
Proof. unfold rem. intros. now apply in_in_remove. Qed.

Lemma mem2_In k e l : mem2 k e l = true -> In (k, e) l.
Proof.
  unfold mem2, same2. intros H. apply existsb_exists in H. destruct H as ([k' e'] & Hx & E). cbn in E.
  apply andb_true_iff in E. destruct E as [Ek Ee]. apply list_eqb_eq in Ek. apply Nat.eqb_eq in Ee. now subst.
Qed.
Lemma In_rem_e e l k' e' : In (k', e') (rem_e e l) -> In (k', e') l /\ e' <> e.
Proof.
  unfold rem_e. intros H. apply filter_In in H. destruct H as [H1 H2]. split; auto. cbn in H2.
  intros ->. rewrite Nat.eqb_refl in H2. discriminate.
Qed.

(* generic re-establishment after one entry_cm and one thread changed *)
Lemma inv_step en th rw tr e x t p tr' rw' :
  Inv' en th rw tr -> grows tr tr' -> hits_ok tr' -> ent_ok tr' x ->
  (forall t', t' <> t -> thr_ok en tr t' (th t') -> thr_ok (cm_upd en e x) tr' t' (th t')) ->
  thr_ok (cm_upd en e x) tr' t p ->
  (forall k' e', In (k', e') rw' -> e_w (cm_upd en e x e') = Some OwnRel) ->
  Inv' (cm_upd en e x) (cm_upd th t p) rw' tr'.
Proof.
  intros (I1 & I2 & I3 & I4) G Hh Hx Ht Hp Hr. split; [|split; [|split]]; auto.
  - intros e0. destruct (Nat.eq_dec e0 e) as [->|Hne]; [rewrite upd_same; apply Hx|rewrite upd_other by exact Hne].
    apply (ent_ok_grows tr tr'); auto.
  - intros t'. destruct (Nat.eq_dec t' t) as [->|Hne]; [rewrite upd_same; exact Hp|].
    rewrite upd_other by exact Hne. apply Ht; auto.
Qed.

(* only a thread's pc_cm (and possibly the trace) changed *)
Lemma inv_thr en th rw tr t p tr' :
  Inv' en th rw tr -> grows tr tr' -> hits_ok tr' -> thr_ok en tr' t p -> Inv' en (cm_upd th t p) rw tr'.
Proof.
  intros (I1 & I2 & I3 & I4) G Hh Hp. split; [|split; [|split]]; auto.
  - intros e0. apply (ent_ok_grows tr tr'); auto.
  - intros t'. destruct (Nat.eq_dec t' t) as [->|Hne]; [rewrite upd_same; exact Hp|].
    rewrite upd_other by exact Hne. eapply thr_ok_grows; eauto.
Qed.

(* only an entry_cm changed (releaseEntry's steps) *)
Lemma inv_ent en th rw tr e x rw' :
  Inv' en th rw tr -> ent_ok tr x ->
  (forall t', thr_ok en tr t' (th t') -> thr_ok (cm_upd en e x) tr t' (th t')) ->
  (forall k' e', In (k', e') rw' -> e_w (cm_upd en e x e') = Some OwnRel) ->
  Inv' (cm_upd en e x) th rw' tr.
Proof.
  intros (I1 & I2 & I3 & I4) Hx Ht Hr. split; [|split; [|split]]; auto.
  intros e0. destruct (Nat.eq_dec e0 e) as [->|Hne]; [rewrite upd_same; apply Hx|rewrite upd_other by exact Hne; apply I1].
Qed.

Lemma relw_keep en (rw : list (list N * nat)) e x :
  (forall k' e', In (k', e') rw -> e_w (en e') = Some OwnRel) -> e_w x = e_w (en e) ->
  forall k' e', In (k', e') rw -> e_w (cm_upd en e x e') = Some OwnRel.
Proof.
  intros H E k' e' Hin. destruct (Nat.eq_dec e' e) as [->|Hne];
    [rewrite upd_same, E; eauto|rewrite upd_other by exact Hne; eauto].
Qed.

Lemma relw_contra en (rw : list (list N * nat)) e x o :
  (forall k' e', In (k', e') rw -> e_w (en e') = Some OwnRel) -> e_w (en e) = o -> o <> Some OwnRel ->
  forall k' e', In (k', e') rw -> e_w (cm_upd en e x e') = Some OwnRel.
Proof.
  intros H E Hne k' e' Hin. destruct (Nat.eq_dec e' e) as [->|Hne2];
    [exfalso; apply Hne; rewrite <- E; eauto|rewrite upd_other by exact Hne2; eauto].
Qed.

Lemma init_inv : Inv cm_init.
Proof.
  unfold Inv, Inv', cm_init; cbn. split; [|split; [|split]]; auto; try tauto.
  intros e. split; cbn; [tauto|discriminate].
Qed.

Lemma step_thread_inv s t c s' : Inv s -> step_thread s t c = Some s' -> Inv s'.
Proof.
  unfold Inv. intros I H. unfold step_thread in H.
  pose proof I as (I1 & I2 & I3 & I4). pose proof (I2 t) as Ht.
  destruct (thr s t) eqn:Epc; try discriminate.
  - (* SNew *)
    destruct c as [i|].
    + destruct (nth_error (free s) i); inversion H; subst; cbn. apply (inv_thr _ _ _ (trace s)); auto.
    + inversion H; subst; cbn. apply (inv_thr _ _ _ (trace s)); auto.
  - (* SLock *)
    destruct (unlocked (ents s e)) eqn:U; inversion H; subst; cbn. clear H.
    apply unlocked_true in U. destruct U as [Uw Ur].
    apply (inv_step _ _ (relw s) (trace s)); auto.
    + split; cbn; [auto|]. intros W. exfalso. apply (W t). reflexivity.
    + intros t' Hne. apply thr_ok_upd_w; auto. rewrite Uw. discriminate.
    + cbn. rewrite upd_same. cbn. cbn in Ht. auto.
    + eapply relw_contra; eauto. discriminate.
  - (* SFillK *)
    inversion H; subst; cbn. clear H. cbn in Ht. destruct Ht as [Hs Hw].
    assert (Hr : e_r (ents s e) = []) by (apply (I1 e); rewrite Hw; discriminate).
    apply (inv_step _ _ (relw s) (trace s)); auto.
    + split; cbn; [auto|]. intros W. exfalso. apply (W t). exact Hw.
    + intros t' Hne. apply thr_ok_upd_w; auto. rewrite Hw. congruence.
    + cbn. rewrite upd_same. cbn. auto.
    + eapply relw_keep; eauto.
  - (* SFillV *)
    inversion H; subst; cbn. clear H. cbn in Ht. destruct Ht as (Hs & Hw & Hk).
    assert (Hr : e_r (ents s e) = []) by (apply (I1 e); rewrite Hw; discriminate).
    apply (inv_step _ _ (relw s) (trace s)); auto.
    + split; cbn; [tauto|]. intros _ v0 E. inversion E; subst. exact Hs.
    + intros t' Hne. apply thr_ok_upd_w; auto. rewrite Hw. congruence.
    + cbn. trivial.
    + eapply relw_contra; eauto. discriminate.
  - (* SSet *)
    destruct (find_b k (backend s)); [destruct nx|]; inversion H; subst; cbn;
      apply (inv_thr _ _ _ (trace s)); cbn; auto.
  - (* GLook *)
    destruct (find_b k (backend s)) as [b|]; [destruct (bclk s <? b_exp b)%N|]; inversion H; subst; cbn;
      apply (inv_thr _ _ _ (trace s)); cbn; auto.
  - (* GTry *)
    destruct c as [i|].
    + destruct (cm_mem e (map snd (pend s)) || cm_mem e (issued s)); inversion H; subst; cbn.
      apply (inv_thr _ _ _ (trace s)); cbn; auto.
    + destruct (e_w (ents s e)) eqn:Ew; inversion H; subst; cbn; clear H.
      * apply (inv_thr _ _ _ (trace s)); cbn; auto.
      * apply (inv_step _ _ (relw s) (trace s)); auto.
        -- destruct (I1 e) as [A B]. split; cbn; [tauto|]. intros _ v0 E. apply B; auto.
           intros t0. rewrite Ew. discriminate.
        -- intros t' Hne. apply (thr_ok_upd_r _ _ _ _ _ t); cbn; auto.
        -- cbn. rewrite upd_same. cbn. auto.
        -- eapply relw_keep; eauto.
  - (* GCheck *)
    cbn in Ht.
    destruct (e_v (ents s e)) eqn:Ev; [destruct (list_eqb (e_k (ents s e)) k) eqn:Ek|];
      inversion H; subst; cbn; apply (inv_thr _ _ _ (trace s)); cbn; auto.
    apply list_eqb_eq in Ek. repeat split; auto. rewrite Ev. discriminate.
  - (* GCopy *)
    cbn in Ht. destruct Ht as (Hin & Hk & Hv).
    destruct (e_v (ents s e)) as [v|] eqn:Ev; [|discriminate]. injection H as <-. cbn.
    apply (inv_thr _ _ _ (trace s)); cbn; auto.
    split; [|auto].
    destruct (I1 e) as [A B]. rewrite <- Hk. apply B; auto.
    intros t0 W. rewrite A in Hin by (rewrite W; discriminate). exact Hin.
  - (* GUnlockMiss *)
    inversion H; subst; cbn. clear H.
    apply (inv_step _ _ (relw s) (trace s)); cbn; auto.
    + destruct (I1 e) as [A B]. split; cbn.
      * intros W. rewrite (A W). reflexivity.
      * intros W v0 E. right. apply B; auto.
    + intros t' Hne. apply (thr_ok_upd_r _ _ _ _ _ t); cbn; auto.
      intros t'' Hne2 Hin. apply In_rem_keep; auto.
    + eapply relw_keep; eauto.
  - (* GUnlockHit *)
    inversion H; subst; cbn. clear H. cbn in Ht. destruct Ht as (Ht & _).
    apply (inv_step _ _ (relw s) (trace s)); cbn; auto.
    + destruct (I1 e) as [A B]. split; cbn.
      * intros W. rewrite (A W). reflexivity.
      * intros W v0 E. right. apply B; auto.
    + intros t' Hne. apply (thr_ok_upd_r _ _ _ _ _ t); cbn; auto.
      intros t'' Hne2 Hin. apply In_rem_keep; auto.
    + eapply relw_keep; eauto.
Qed.

Lemma step_inv s l s' : Inv s -> cm_step s l = Some s' -> Inv s'.
Proof.
  intros I H. destruct l; cbn [cm_step] in H.
  - (* LStore *) inversion H; subst. unfold Inv; cbn. apply (inv_thr _ _ _ (trace s)); cbn; auto. apply I.
  - (* LGet *) inversion H; subst. unfold Inv; cbn. apply (inv_thr _ _ _ (trace s)); cbn; auto. apply I.
  - eapply step_thread_inv; eauto.
  - (* LEvict *) destruct (nth_error (backend s) i); inversion H; subst. exact I.
  - (* LNotify *) inversion H; subst. exact I.
  - (* LRelLock *)
    destruct (mem2 k e (pend s) && unlocked (ents s e)) eqn:C; inversion H; subst. clear H.
    apply andb_true_iff in C. destruct C as [_ U]. apply unlocked_true in U. destruct U as [Uw Ur].
    unfold Inv in *; cbn. pose proof I as (I1 & I2 & I3 & I4).
    apply (inv_ent _ _ (relw s)); auto.
    + destruct (I1 e) as [A B]. split; cbn; [auto|]. intros _ v0 E. apply B; auto.
      intros t0. rewrite Uw. discriminate.
    + intros t'. apply thr_ok_upd_w; auto. rewrite Uw. discriminate.
    + intros k' e' [E|Hin]; [inversion E; subst; rewrite upd_same; reflexivity|].
      destruct (Nat.eq_dec e' e) as [->|Hne]; [rewrite upd_same; reflexivity|rewrite upd_other by exact Hne; eauto].
  - (* LRelClear *)
    destruct (mem2 k e (relw s)) eqn:C; [|discriminate]. apply mem2_In in C.
    unfold Inv in *. pose proof I as (I1 & I2 & I3 & I4).
    assert (Hw : e_w (ents s e) = Some OwnRel) by eauto.
    assert (Hr : e_r (ents s e) = []) by (apply (I1 e); rewrite Hw; discriminate).
    destruct (list_eqb (e_k (ents s e)) k); inversion H; subst; clear H; cbn.
    + apply (inv_ent _ _ (relw s)); auto.
      * split; cbn; [tauto|discriminate].
      * intros t'. apply thr_ok_upd_w; auto. rewrite Hw. discriminate.
      * intros k' e' Hin. apply In_rem_e in Hin. destruct Hin as [Hin Hne]. rewrite upd_other by exact Hne. eauto.
    + apply (inv_ent _ _ (relw s)); auto.
      * destruct (I1 e) as [A B]. split; cbn; [tauto|]. intros _ v0 E. apply B; auto.
        intros t0. rewrite Hw. discriminate.
      * intros t'. apply thr_ok_upd_w; auto. rewrite Hw. discriminate.
      * intros k' e' Hin. apply In_rem_e in Hin. destruct Hin as [Hin Hne]. rewrite upd_other by exact Hne. eauto.
  - (* LRelPut *) destruct (cm_mem e (relc s)); inversion H; subst. exact I.
  - (* LTick *) destruct (now s + d <? bclk s + 1000)%N; inversion H; subst. exact I.
  - (* LSync *) destruct ((bclk s <=? c)%N && (c <=? now s)%N); inversion H; subst. exact I.
Qed.

Lemma run_inv ls : forall s s', Inv s -> cm_run ls s = Some s' -> Inv s'.
Proof.
  induction ls as [|l ls IH]; intros s s' I H; cbn in H; [inversion H; subst; exact I|].
  destruct (cm_step s l) eqn:E; [|discriminate]. eapply IH; [|exact H]. eapply step_inv; eauto.
Qed.

(* ---------- C07_hit_same_key ---------- *)
Theorem hit_same_key : forall ls s, cm_run ls cm_init = Some s ->
  forall l1 k v l2, trace s = l1 ++ CmHit k v :: l2 -> In (CmStore k v) l2.
Proof.
  intros ls s H. pose proof (run_inv ls cm_init s init_inv H) as (_ & _ & _ & Hh).
  apply hits_ok_split. exact Hh.
Qed.

(* mutual exclusion, for the record: in every reachable state_cm a write-locked entry_cm has no reader, and a
   goroutine between its check and its copy still sees the key it checked *)
Theorem lock_excludes_readers : forall ls s, cm_run ls cm_init = Some s ->
  forall e, e_w (ents s e) <> None -> e_r (ents s e) = [].
Proof. intros ls s H e. pose proof (run_inv ls cm_init s init_inv H) as (I1 & _). apply I1. Qed.

Theorem checked_key_stable : forall ls s, cm_run ls cm_init = Some s ->
  forall t k e, thr s t = GCopy k e -> e_k (ents s e) = k /\ e_v (ents s e) <> None /\ e_w (ents s e) = None.
Proof.
  intros ls s H t k e E. pose proof (run_inv ls cm_init s init_inv H) as (I1 & I2 & _).
  specialize (I2 t). rewrite E in I2. cbn in I2. destruct I2 as (Hin & Hk & Hv). repeat split; auto.
  destruct (e_w (ents s e)) eqn:W; auto. exfalso. destruct (I1 e) as [A _].
  rewrite A in Hin by (rewrite W; discriminate). exact Hin.
Qed.

(* the copy is made, and finished, under the entry_cm's read lock: from the check to the RUnlock that publishes the hit
   the goroutine holds a read lock of e, nobody holds the write lock, e still carries the looked-up key and the very
   value that is copied / about to be returned, and that value was stored under that key.  The step that emits
   [CmHit k v] is the RUnlock (the linearisation point): at that moment v IS the entry_cm's value. *)
Theorem copy_under_lock : forall ls s, cm_run ls cm_init = Some s ->
  forall t k e,
    (thr s t = GCopy k e ->
       In t (e_r (ents s e)) /\ e_w (ents s e) = None /\ e_k (ents s e) = k /\
       exists v, e_v (ents s e) = Some v /\ In (CmStore k v) (trace s)) /\
    (forall v, thr s t = GUnlockHit k e v ->
       In t (e_r (ents s e)) /\ e_w (ents s e) = None /\ e_k (ents s e) = k /\
       e_v (ents s e) = Some v /\ In (CmStore k v) (trace s)).
Proof.
  intros ls s H t k e. pose proof (run_inv ls cm_init s init_inv H) as (I1 & I2 & _).
  assert (NoW : In t (e_r (ents s e)) -> e_w (ents s e) = None).
  { intros Hin. destruct (e_w (ents s e)) eqn:W; auto. exfalso. destruct (I1 e) as [A _].
    rewrite A in Hin by (rewrite W; discriminate). exact Hin. }
  split.
  - intros E. specialize (I2 t). rewrite E in I2. cbn in I2. destruct I2 as (Hin & Hk & Hv).
    pose proof (NoW Hin) as W. repeat split; auto.
    destruct (e_v (ents s e)) as [v|] eqn:Ev; [|congruence]. exists v. split; auto.
    destruct (I1 e) as [_ B]. rewrite <- Hk. apply B; auto. intros t0. rewrite W. discriminate.
  - intros v E. specialize (I2 t). rewrite E in I2. cbn in I2. destruct I2 as (Hs & Hin & Hk & Hv).
    repeat split; auto.
Qed.

(* the step that returns a hit: it appends [CmHit k v] to the trace, and in the state it is taken from v is the value
   of the entry_cm, which carries key k and whose read lock the goroutine still holds *)
Theorem hit_is_entry_value : forall ls s, cm_run ls cm_init = Some s ->
  forall t c k e v s', thr s t = GUnlockHit k e v -> cm_step s (LStep t c) = Some s' ->
    trace s' = CmHit k v :: trace s /\
    e_v (ents s e) = Some v /\ e_k (ents s e) = k /\ In t (e_r (ents s e)) /\ e_w (ents s e) = None.
Proof.
  intros ls s H t c k e v s' E Hs.
  destruct (copy_under_lock ls s H t k e) as [_ B]. destruct (B v E) as (Hin & Hw & Hk & Hv & _).
  cbn [cm_step] in Hs. unfold step_thread in Hs. rewrite E in Hs. inversion Hs; subst. cbn. auto.
Qed.

(* ---------- the quiescent operations are schedules of the small-cm_step system ---------- *)
Definition reach (s s' : state_cm) : Prop := exists ls, cm_run ls s = Some s'.

Lemma run_app a : forall b s, cm_run (a ++ b) s = match cm_run a s with Some s1 => cm_run b s1 | None => None end.
Proof. induction a as [|l a IH]; intros b s; cbn; [reflexivity|]. destruct (cm_step s l); auto. Qed.

Lemma reach_refl s : reach s s. Proof. exists []. reflexivity. Qed.
Lemma reach_trans a b c : reach a b -> reach b c -> reach a c.
Proof. intros [l1 H1] [l2 H2]. exists (l1 ++ l2). now rewrite run_app, H1. Qed.
Lemma reach_step s l s1 : cm_step s l = Some s1 -> reach s s1.
Proof. intros H. exists [l]. cbn. now rewrite H. Qed.
Lemma reach_run ls s s1 : cm_run ls s = Some s1 -> reach s s1.
Proof. intros H. exists ls. exact H. Qed.

Lemma reach_drive fuel : forall t s s', drive fuel t s = Some s' -> reach s s'.
Proof.
  induction fuel as [|f IH]; intros t s s' H; cbn [drive] in H.
  - destruct (thr s t); inversion H; subst; apply reach_refl.
  - destruct (thr s t) eqn:E; try (inversion H; subst; apply reach_refl);
      (destruct (cm_step s (LStep t None)) eqn:Es; [|discriminate];
       eapply reach_trans; [eapply reach_step; exact Es|eapply IH; exact H]).
Qed.

Lemma reach_big_store k v ttl nx s s' : big_store k v ttl nx s = Some s' -> reach s s'.
Proof.
  unfold big_store. intros H.
  destruct (cm_step s (LStore k v ttl nx)) eqn:E1; [|discriminate].
  destruct (cm_step s0 (LStep (nthr s) (pool_choice s0))) eqn:E2; [|discriminate].
  eapply reach_trans; [eapply reach_step; exact E1|].
  eapply reach_trans; [eapply reach_step; exact E2|]. eapply reach_drive; exact H.
Qed.

Lemma reach_big_get k s s' : big_get k s = Some s' -> reach s s'.
Proof.
  unfold big_get. intros H. destruct (cm_step s (LGet k)) eqn:E1; [|discriminate].
  eapply reach_trans; [eapply reach_step; exact E1|]. eapply reach_drive; exact H.
Qed.

Lemma reach_big_evict k s s' : big_evict k s = Some s' -> reach s s'.
Proof.
  unfold big_evict. intros H. destruct (index_b k (backend s)) as [[i e]|].
  - eapply reach_run; exact H.
  - inversion H; subst. apply reach_refl.
Qed.

Lemma reach_big_sleep d s s' : big_sleep d s = Some s' -> reach s s'.
Proof.
  unfold big_sleep. intros H. destruct (cm_step s (LSync (now s))) eqn:E1; [|discriminate].
  destruct (d <? 1000)%N; [|discriminate].
  eapply reach_trans; eapply reach_step; eauto.
Qed.

Lemma reach_big_race ph k k2 v2 s s' : big_race ph k k2 v2 s = Some s' -> reach s s'.
Proof.
  unfold big_race. intros H.
  destruct (cm_step s (LGet k)) eqn:E1; [|discriminate].
  destruct (cm_step s0 (LStep (nthr s) None)) eqn:E2; [|discriminate].
  eapply reach_trans; [eapply reach_step; exact E1|].
  eapply reach_trans; [eapply reach_step; exact E2|].
  destruct (thr s1 (nthr s)); try (injection H as <-; apply reach_refl).
  destruct (index_b k (backend s1)) as [[i e']|]; [|injection H as <-; apply reach_refl].
  destruct ph as [|[|ph]].
  - destruct (cm_run [LEvict i; LRelLock k e] s1) eqn:R1; [|discriminate].
    destruct (drive 8 (nthr s) s2) eqn:D; [|discriminate].
    eapply reach_trans; [eapply reach_run; exact R1|].
    eapply reach_trans; [eapply reach_drive; exact D|]. eapply reach_run; exact H.
  - destruct (cm_run [LEvict i; LRelLock k e; LRelClear k e] s1) eqn:R1; [|discriminate].
    destruct (drive 8 (nthr s) s2) eqn:D; [|discriminate].
    eapply reach_trans; [eapply reach_run; exact R1|].
    eapply reach_trans; [eapply reach_drive; exact D|]. eapply reach_run; exact H.
  - destruct (cm_run [LEvict i; LRelLock k e; LRelClear k e; LRelPut e] s1) eqn:R1; [|discriminate].
    destruct (big_store k2 v2 3600000 false s2) eqn:B; [|discriminate].
    eapply reach_trans; [eapply reach_run; exact R1|].
    eapply reach_trans; [eapply reach_big_store; exact B|]. eapply reach_drive; exact H.
Qed.

(* (conversion hint for the kernel: unfold big_op, not the operations, when checking the next lemma) *)
Opaque big_store big_get big_evict big_race big_sleep.
Lemma reach_big_op o s s' : big_op o s = Some s' -> reach s s'.
Proof.
  destruct o; intros H.
  - eapply reach_big_store; exact H.
  - eapply reach_big_get; exact H.
  - eapply reach_big_evict; exact H.
  - eapply reach_big_race; exact H.
  - eapply reach_big_sleep; exact H.
Qed.
Transparent big_store big_get big_evict big_race big_sleep.

Theorem big_refines_small : forall os s s', big_run os s = Some s' -> reach s s'.
Proof.
  induction os as [|o os IH]; intros s s' H; cbn [big_run] in H; [inversion H; subst; apply reach_refl|].
  destruct (big_op o s) eqn:E; [|discriminate].
  eapply reach_trans; [eapply reach_big_op; exact E|eapply IH; exact H].
Qed.

(* hence the histories replayed against the implementation satisfy the trace property too *)
Corollary big_hit_same_key : forall os s, big_run os cm_init = Some s ->
  forall l1 k v l2, trace s = l1 ++ CmHit k v :: l2 -> In (CmStore k v) l2.
Proof. intros os s H. destruct (big_refines_small os cm_init s H) as [ls Hl]. eapply hit_same_key; eauto. Qed.

(* ---------- value encoding ---------- *)
Section ValueProofs.
  Variable enc : list N -> list N.
  Variable dec : list N -> option (list N).
  Hypothesis dec_enc : forall x, dec (enc x) = Some x.

  Theorem value_unchanged : forall m : msg, wf_msg m ->
    exists c m', pack_cache enc m = Ok c /\ unpack_cache dec c = Ok m' /\ view m' = view m.
  Proof.
    intros m Hw. exists (enc (plain_bytes m)), (relen m). unfold pack_cache, unpack_cache.
    rewrite pack_msg_plain by exact Hw. cbn [bind]. rewrite dec_enc. split; [reflexivity|].
    split; [|apply view_relen]. rewrite <- (app_nil_r (plain_bytes m)). now apply unpack_plain.
  Qed.

  (* for every upstream response the proxy's decoder accepted *)
  Theorem value_unchanged_accepted : forall (bs : list N) (m : msg), bytes bs -> unpack_msg bs = Ok m ->
    exists c m', pack_cache enc m = Ok c /\ unpack_cache dec c = Ok m' /\ view m' = view m.
  Proof. intros bs m Hb Hu. apply value_unchanged. eapply unpack_msg_wf; eauto. Qed.
End ValueProofs.

(* ---------- C07_repeat_hits: a stored key is found again while more than 1 s of its lifetime remains ---------- *)
(* quiescent states: no lock is held *)
Definition QU (s : state_cm) : Prop := forall e, e_w (ents s e) = None /\ e_r (ents s e) = [].
(* the backend clock lags real time by less than one second *)
Definition clock_ok (s : state_cm) : Prop := (bclk s <= now s)%N /\ (now s < bclk s + 1000)%N.

Lemma ceil_s_ge ttl : (ttl <= ceil_s ttl)%N.
Proof.
  unfold ceil_s. pose proof (N.div_mod (ttl + 999) 1000). pose proof (N.mod_lt (ttl + 999) 1000). lia.
Qed.

Lemma drive_idle f t s : thr s t = Idle -> drive f t s = Some s.
Proof. intros H. destruct f; cbn [drive]; rewrite H; reflexivity. Qed.

Lemma drive_next f t s s1 : thr s t <> Idle -> step_thread s t None = Some s1 -> drive (S f) t s = drive f t s1.
Proof.
  intros Hn Hs. cbn [drive]. change (cm_step s (LStep t None)) with (step_thread s t None). rewrite Hs.
  destruct (thr s t); try reflexivity. congruence.
Qed.

Lemma init_QU : QU cm_init. Proof. intros e. cbn. auto. Qed.
Lemma init_clock : clock_ok cm_init. Proof. unfold clock_ok; cbn. lia. Qed.

(* Get on a quiescent state_cm: runs to completion, changes nothing but the trace (and thread bookkeeping), and
   its result is determined by the backend binding and the entry_cm it points to *)
Definition get_result (s : state_cm) (k : list N) : event_cm :=
  match find_b k (backend s) with
  | Some b =>
    if (bclk s <? b_exp b)%N then
      match e_v (ents s (b_e b)) with
      | Some v => if list_eqb (e_k (ents s (b_e b))) k then CmHit k v else CmMiss k
      | None => CmMiss k
      end
    else CmMiss k
  | None => CmMiss k
  end.

Lemma rem_self t : rem t [t] = [].
Proof. unfold rem. cbn. destruct (Nat.eq_dec t t); [reflexivity|congruence]. Qed.

Lemma get_finish s sN t e ev :
  backend sN = backend s -> now sN = now s -> bclk sN = bclk s -> trace sN = trace s ->
  (forall e', e' <> e -> ents sN e' = ents s e') ->
  ents sN e = mkEntry (e_k (ents s e)) (e_v (ents s e)) None [t] ->
  e_w (ents s e) = None -> e_r (ents s e) = [] ->
  forall s', s' = (let x := ents sN e in
                   with_ev (with_thr (with_ent sN e (mkEntry (e_k x) (e_v x) (e_w x) (rem t (e_r x)))) t Idle) ev) ->
  backend s' = backend s /\ (forall e', ents s' e' = ents s e') /\ now s' = now s /\ bclk s' = bclk s /\
  trace s' = ev :: trace s.
Proof.
  intros B Nw C Tr Eo Ee Qw Qr s' ->. cbn. rewrite B, Nw, C, Tr. repeat split; auto.
  intros e'. destruct (Nat.eq_dec e' e) as [->|Hne]; [|rewrite upd_other by exact Hne; auto].
  rewrite upd_same, Ee. cbn [e_k e_v e_w e_r]. rewrite rem_self.
  destruct (ents s e) as [xk xv xw xr]; cbn in *. subst. reflexivity.
Qed.

Lemma big_get_spec s k : QU s ->
  exists s', big_get k s = Some s' /\ backend s' = backend s /\ (forall e, ents s' e = ents s e) /\
             now s' = now s /\ bclk s' = bclk s /\ trace s' = get_result s k :: trace s.
Proof.
  intros Q. unfold big_get, get_result. cbn [cm_step].
  set (t := nthr s). set (s1 := spawn s (GLook k)).
  assert (T1 : thr s1 t = GLook k) by (unfold s1, spawn; cbn; apply upd_same).
  (* GLook *)
  destruct (find_b k (backend s)) as [b|] eqn:Fb.
  2:{ eexists. split.
      - erewrite drive_next; [apply drive_idle| rewrite T1; discriminate|].
        2:{ unfold step_thread. rewrite T1. unfold s1 at 1; cbn [backend spawn]. rewrite Fb. reflexivity. }
        cbn. apply upd_same.
      - cbn. repeat split; auto. }
  destruct (bclk s <? b_exp b)%N eqn:Live.
  2:{ eexists. split.
      - erewrite drive_next; [apply drive_idle| rewrite T1; discriminate|].
        2:{ unfold step_thread. rewrite T1. unfold s1 at 1 2; cbn [backend bclk spawn]. rewrite Fb, Live. reflexivity. }
        cbn. apply upd_same.
      - cbn. repeat split; auto. }
  set (e := b_e b). destruct (Q e) as [Qw Qr].
  set (s2 := with_thr s1 t (GTry k e)).
  assert (S1 : step_thread s1 t None = Some s2).
  { unfold step_thread. rewrite T1. unfold s1 at 1 2; cbn [backend bclk spawn]. rewrite Fb, Live. reflexivity. }
  assert (T2 : thr s2 t = GTry k e) by (unfold s2; cbn; apply upd_same).
  (* GTry *)
  set (x := ents s e).
  set (s3 := with_thr (with_ent s2 e (mkEntry (e_k x) (e_v x) None (t :: e_r x))) t (GCheck k e)).
  assert (S2 : step_thread s2 t None = Some s3).
  { unfold step_thread. rewrite T2. change (ents s2 e) with x. unfold x at 1. rewrite Qw. reflexivity. }
  assert (T3 : thr s3 t = GCheck k e) by (unfold s3; cbn; apply upd_same).
  assert (E3 : ents s3 e = mkEntry (e_k x) (e_v x) None [t]).
  { unfold s3; cbn. rewrite upd_same. unfold x at 3. rewrite Qr. reflexivity. }
  assert (O3 : forall e', e' <> e -> ents s3 e' = ents s e').
  { intros e' Hne. unfold s3; cbn. rewrite upd_other by exact Hne. reflexivity. }
  destruct (e_v x) as [v|] eqn:Ev; [destruct (list_eqb (e_k x) k) eqn:Ek|].
  - (* hit *)
    set (s4 := with_thr s3 t (GCopy k e)).
    assert (S3 : step_thread s3 t None = Some s4).
    { unfold step_thread. rewrite T3, E3. cbn [e_v e_k]. rewrite Ek. reflexivity. }
    assert (T4 : thr s4 t = GCopy k e) by (unfold s4; cbn; apply upd_same).
    set (s5 := with_thr s4 t (GUnlockHit k e v)).
    assert (S4 : step_thread s4 t None = Some s5).
    { unfold step_thread. rewrite T4. change (ents s4 e) with (ents s3 e). rewrite E3. reflexivity. }
    assert (T5 : thr s5 t = GUnlockHit k e v) by (unfold s5; cbn; apply upd_same).
    eexists. split.
    + erewrite drive_next; [|rewrite T1; discriminate|exact S1].
      erewrite drive_next; [|rewrite T2; discriminate|exact S2].
      erewrite drive_next; [|rewrite T3; discriminate|exact S3].
      erewrite drive_next; [|rewrite T4; discriminate|exact S4].
      erewrite drive_next; [apply drive_idle|rewrite T5; discriminate|].
      2:{ unfold step_thread. rewrite T5. reflexivity. }
      cbn. apply upd_same.
    + eapply (get_finish s s5 t e); try reflexivity; auto.
      change (ents s5 e) with (ents s3 e). rewrite E3. fold x. rewrite Ev. reflexivity.
  - (* the entry_cm carries another key *)
    set (s4 := with_thr s3 t (GUnlockMiss k e)).
    assert (S3 : step_thread s3 t None = Some s4).
    { unfold step_thread. rewrite T3, E3. cbn [e_v e_k]. rewrite Ek. reflexivity. }
    assert (T4 : thr s4 t = GUnlockMiss k e) by (unfold s4; cbn; apply upd_same).
    eexists. split.
    + erewrite drive_next; [|rewrite T1; discriminate|exact S1].
      erewrite drive_next; [|rewrite T2; discriminate|exact S2].
      erewrite drive_next; [|rewrite T3; discriminate|exact S3].
      erewrite drive_next; [apply drive_idle|rewrite T4; discriminate|].
      2:{ unfold step_thread. rewrite T4. reflexivity. }
      cbn. apply upd_same.
    + eapply (get_finish s s4 t e); try reflexivity; auto.
      change (ents s4 e) with (ents s3 e). rewrite E3. fold x. rewrite Ev. reflexivity.
  - (* the entry_cm has been released *)
    set (s4 := with_thr s3 t (GUnlockMiss k e)).
    assert (S3 : step_thread s3 t None = Some s4).
    { unfold step_thread. rewrite T3, E3. reflexivity. }
    assert (T4 : thr s4 t = GUnlockMiss k e) by (unfold s4; cbn; apply upd_same).
    eexists. split.
    + erewrite drive_next; [|rewrite T1; discriminate|exact S1].
      erewrite drive_next; [|rewrite T2; discriminate|exact S2].
      erewrite drive_next; [|rewrite T3; discriminate|exact S3].
      erewrite drive_next; [apply drive_idle|rewrite T4; discriminate|].
      2:{ unfold step_thread. rewrite T4. reflexivity. }
      cbn. apply upd_same.
    + eapply (get_finish s s4 t e); try reflexivity; auto.
      change (ents s4 e) with (ents s3 e). rewrite E3. fold x. rewrite Ev. reflexivity.
Qed.

(* Store (Set, not SetIfAbsent) from the point where the entry_cm has been taken from the pool *)
Lemma store_from_lock sL t k v ttl e : thr sL t = SLock k v ttl false e -> QU sL ->
  exists s2, drive 8 t sL = Some s2 /\
    find_b k (backend s2) = Some (mkB k e (bclk sL + ceil_s ttl)) /\
    ents s2 e = mkEntry k (Some v) None [] /\ QU s2 /\ now s2 = now sL /\ bclk s2 = bclk sL /\
    (forall k', list_eqb k' k = false -> find_b k' (backend s2) = find_b k' (backend sL)) /\
    (forall e', e' <> e -> ents s2 e' = ents sL e').
Proof.
  intros TL Q. set (x := ents sL e). destruct (Q e) as [Qw Qr]. fold x in Qw, Qr.
  set (sA := with_thr (with_pool (with_ent sL e (mkEntry (e_k x) (e_v x) (Some (OwnT t)) (e_r x)))
                                 (nent sL) (free sL) (rem e (issued sL))) t (SFillK k v ttl false e)).
  assert (SA : step_thread sL t None = Some sA).
  { assert (U : unlocked x = true) by (unfold unlocked; rewrite Qw, Qr; reflexivity).
    unfold step_thread. rewrite TL. fold x. rewrite U. reflexivity. }
  assert (TA : thr sA t = SFillK k v ttl false e) by (unfold sA; cbn; apply upd_same).
  assert (EA : ents sA e = mkEntry (e_k x) (e_v x) (Some (OwnT t)) []).
  { unfold sA; cbn. rewrite upd_same, Qr. reflexivity. }
  set (sB := with_thr (with_ent sA e (mkEntry k (e_v x) (Some (OwnT t)) [])) t (SFillV k v ttl false e)).
  assert (SB : step_thread sA t None = Some sB).
  { unfold step_thread. rewrite TA, EA. reflexivity. }
  assert (TB : thr sB t = SFillV k v ttl false e) by (unfold sB; cbn; apply upd_same).
  assert (EB : ents sB e = mkEntry k (e_v x) (Some (OwnT t)) []) by (unfold sB; cbn; apply upd_same).
  set (sC := with_thr (with_ent sB e (mkEntry k (Some v) None [])) t (SSet k ttl false e)).
  assert (SC : step_thread sB t None = Some sC).
  { unfold step_thread. rewrite TB, EB. reflexivity. }
  assert (TC : thr sC t = SSet k ttl false e) by (unfold sC; cbn; apply upd_same).
  assert (EC : ents sC e = mkEntry k (Some v) None []) by (unfold sC; cbn; apply upd_same).
  assert (OC : forall e', e' <> e -> ents sC e' = ents sL e').
  { intros e' Hne. unfold sC, sB, sA; cbn. rewrite !upd_other by exact Hne. reflexivity. }
  assert (BC : backend sC = backend sL) by reflexivity.
  assert (CC : bclk sC = bclk sL) by reflexivity.
  assert (NC : now sC = now sL) by reflexivity.
  set (nb := mkB k e (bclk sL + ceil_s ttl)).
  assert (QC : forall bk pd, QU (with_thr (with_backend sC bk pd) t Idle)).
  { intros bk pd e'. cbn [ents with_thr with_backend].
    destruct (Nat.eq_dec e' e) as [->|Hne]; [rewrite EC; auto|rewrite OC by exact Hne; apply Q]. }
  assert (Fnb : forall rest, find_b k (nb :: rest) = Some nb).
  { intros rest. cbn. rewrite list_eqb_refl. reflexivity. }
  assert (Foth : forall k' rest, list_eqb k' k = false -> find_b k' (nb :: rest) = find_b k' rest).
  { intros k' rest H. cbn. rewrite H. reflexivity. }
  assert (Fothers : forall k' bs, list_eqb k' k = false -> find_b k' (others k bs) = find_b k' bs).
  { intros k' bs H. induction bs as [|b bs IH]; cbn; [reflexivity|].
    destruct (list_eqb k (b_k b)) eqn:E1; cbn.
    - apply list_eqb_eq in E1. subst. rewrite H. exact IH.
    - destruct (list_eqb k' (b_k b)); auto. }
  destruct (find_b k (backend sC)) as [b0|] eqn:Fb.
  - set (sD := with_thr (with_backend sC (nb :: others k (backend sC))
                  (map (fun b => (b_k b, b_e b)) (same k (backend sC)) ++ pend sC)) t Idle).
    assert (SD : step_thread sC t None = Some sD).
    { unfold step_thread. rewrite TC, Fb. unfold sD, nb. rewrite CC. reflexivity. }
    exists sD. split.
    { erewrite drive_next; [|rewrite TL; discriminate|exact SA].
      erewrite drive_next; [|rewrite TA; discriminate|exact SB].
      erewrite drive_next; [|rewrite TB; discriminate|exact SC].
      erewrite drive_next; [apply drive_idle|rewrite TC; discriminate|exact SD].
      unfold sD; cbn. apply upd_same. }
    split; [unfold sD; cbn [backend with_thr with_backend]; apply Fnb|].
    split; [exact EC|]. split; [apply QC|]. split; [exact NC|]. split; [exact CC|]. split.
    + intros k' H. unfold sD; cbn [backend with_thr with_backend]. rewrite Foth by exact H.
      rewrite BC. apply Fothers. exact H.
    + intros e' Hne. apply OC. exact Hne.
  - set (sD := with_thr (with_backend sC (nb :: backend sC) (pend sC)) t Idle).
    assert (SD : step_thread sC t None = Some sD).
    { unfold step_thread. rewrite TC, Fb. unfold sD, nb. rewrite CC. reflexivity. }
    exists sD. split.
    { erewrite drive_next; [|rewrite TL; discriminate|exact SA].
      erewrite drive_next; [|rewrite TA; discriminate|exact SB].
      erewrite drive_next; [|rewrite TB; discriminate|exact SC].
      erewrite drive_next; [apply drive_idle|rewrite TC; discriminate|exact SD].
      unfold sD; cbn. apply upd_same. }
    split; [unfold sD; cbn [backend with_thr with_backend]; apply Fnb|].
    split; [exact EC|]. split; [apply QC|]. split; [exact NC|]. split; [exact CC|]. split.
    + intros k' H. unfold sD; cbn [backend with_thr with_backend]. rewrite Foth by exact H.
      rewrite BC. reflexivity.
    + intros e' Hne. apply OC. exact Hne.
Qed.

Lemma big_store_spec s k v ttl : QU s ->
  exists s2 e, big_store k v ttl false s = Some s2 /\
    find_b k (backend s2) = Some (mkB k e (bclk s + ceil_s ttl)) /\
    ents s2 e = mkEntry k (Some v) None [] /\ QU s2 /\ now s2 = now s /\ bclk s2 = bclk s.
Proof.
  intros Q. unfold big_store. cbn [cm_step].
  set (t := nthr s). set (s1 := with_ev (spawn s (SNew k v ttl false)) (CmStore k v)).
  assert (T1 : thr s1 t = SNew k v ttl false) by (unfold s1; cbn; apply upd_same).
  unfold pool_choice. change (free s1) with (free s).
  destruct (free s) as [|e0 fr] eqn:Fr.
  - set (sL := with_thr (with_pool s1 (S (nent s)) (free s1) (nent s :: issued s1)) t (SLock k v ttl false (nent s))).
    assert (S1 : step_thread s1 t None = Some sL) by (unfold step_thread; rewrite T1; reflexivity).
    change (cm_step s1 (LStep t None)) with (step_thread s1 t None). rewrite S1.
    destruct (store_from_lock sL t k v ttl (nent s)) as (s2 & D & F & E & Q2 & N2 & C2 & _);
      [unfold sL; cbn; apply upd_same|intros e'; apply Q|].
    exists s2, (nent s). repeat split; auto; try apply Q2.
  - set (sL := with_thr (with_pool s1 (nent s1) fr (e0 :: issued s1)) t (SLock k v ttl false e0)).
    assert (S1 : step_thread s1 t (Some 0) = Some sL).
    { unfold step_thread. rewrite T1. change (free s1) with (free s). rewrite Fr. reflexivity. }
    change (cm_step s1 (LStep t (Some 0))) with (step_thread s1 t (Some 0)). rewrite S1.
    destruct (store_from_lock sL t k v ttl e0) as (s2 & D & F & E & Q2 & N2 & C2 & _);
      [unfold sL; cbn; apply upd_same|intros e'; apply Q|].
    exists s2, e0. repeat split; auto; try apply Q2.
Qed.

(* operations that neither store nor evict: lookups (of any key) and the passage of time *)
Definition passive (o : op) : Prop := match o with OGet _ | OSleep _ => True | _ => False end.

Lemma big_sleep_spec s d s1 : clock_ok s -> big_sleep d s = Some s1 ->
  backend s1 = backend s /\ (forall e, ents s1 e = ents s e) /\ clock_ok s1.
Proof.
  intros [C1 C2] E. unfold big_sleep in E. cbn [cm_step] in E.
  assert ((bclk s <=? now s)%N && (now s <=? now s)%N = true) as Hs
    by (apply andb_true_iff; split; apply N.leb_le; lia).
  rewrite Hs in E. destruct (d <? 1000)%N eqn:Hd; [|discriminate]. apply N.ltb_lt in Hd.
  cbn [cm_step now bclk with_time] in E.
  assert ((now s + d <? now s + 1000)%N = true) as Ht by (apply N.ltb_lt; lia).
  rewrite Ht in E. inversion E; subst. unfold clock_ok. cbn. repeat split; auto; lia.
Qed.

(* (conversion hint for the kernel, as above) *)
Opaque big_store big_get big_evict big_race big_sleep.

Lemma passive_step o s s1 : passive o -> QU s -> clock_ok s -> big_op o s = Some s1 ->
  backend s1 = backend s /\ (forall e, ents s1 e = ents s e) /\ QU s1 /\ clock_ok s1.
Proof.
  intros Ho Q C E. destruct o; try contradiction; cbn [big_op] in E.
  - destruct (big_get_spec s k Q) as (s1' & G & B & En & Nw & Ck & _). rewrite G in E. inversion E; subst.
    split; [exact B|]. split; [exact En|]. split.
    + intros e9. rewrite En. apply Q.
    + unfold clock_ok in *. rewrite Nw, Ck. exact C.
  - destruct (big_sleep_spec s d s1 C E) as (B & En & C1).
    split; [exact B|]. split; [exact En|]. split; [|exact C1]. intros e9. rewrite En. apply Q.
Qed.

Lemma passive_run ops : forall s s', Forall passive ops -> QU s -> clock_ok s -> big_run ops s = Some s' ->
  backend s' = backend s /\ (forall e, ents s' e = ents s e) /\ QU s' /\ clock_ok s'.
Proof.
  induction ops as [|o ops IH]; intros s s' Hp Q C H; cbn [big_run] in H.
  - inversion H; subst. auto.
  - inversion Hp as [|? ? Ho Hps]; subst.
    destruct (big_op o s) as [s1|] eqn:E; [|discriminate].
    destruct (passive_step o s s1 Ho Q C E) as (B1 & E1 & Q1 & C1).
    destruct (IH s1 s' Hps Q1 C1 H) as (B2 & E2 & Q2 & C2).
    split; [congruence|]. split; [intros e9; rewrite E2; apply E1|]. split; assumption.
Qed.

(* C07_repeat_hits *)
Theorem repeat_hits s k v ttl : QU s -> clock_ok s ->
  exists s2, big_store k v ttl false s = Some s2 /\
    forall ops s3, Forall passive ops -> big_run ops s2 = Some s3 ->
      (now s3 + 1000 < now s + ttl)%N ->                      (* more than 1 s of the lifetime remains *)
      exists s4, big_get k s3 = Some s4 /\ trace s4 = CmHit k v :: trace s3.
Proof.
  intros Q C. destruct (big_store_spec s k v ttl Q) as (s2 & e & St & Fb & En & Q2 & N2 & C2).
  exists s2. split; [exact St|]. intros ops s3 Hp Hr Hlife.
  assert (Ck2 : clock_ok s2) by (unfold clock_ok in *; rewrite N2, C2; exact C).
  destruct (passive_run ops s2 s3 Hp Q2 Ck2 Hr) as (B3 & E3 & Q3 & C3).
  destruct (big_get_spec s3 k Q3) as (s4 & G & _ & _ & _ & _ & Tr).
  exists s4. split; [exact G|]. rewrite Tr. f_equal.
  unfold get_result. rewrite B3, Fb. cbn [b_exp b_e]. rewrite E3, En. cbn [e_v e_k].
  rewrite list_eqb_refl.
  assert ((bclk s3 <? bclk s + ceil_s ttl)%N = true) as ->; [|reflexivity].
  apply N.ltb_lt. pose proof (ceil_s_ge ttl). unfold clock_ok in *. lia.
Qed.

(* the states in which the correspondence check issues its operations are quiescent: *)
Definition simple (o : op) : Prop :=
  match o with OStore _ _ _ false | OGet _ | OSleep _ => True | _ => False end.

Theorem simple_history_quiescent ops : forall s s', Forall simple ops -> QU s -> clock_ok s ->
  big_run ops s = Some s' -> QU s' /\ clock_ok s'.
Proof.
  induction ops as [|o ops IH]; intros s s' Hp Q C H; cbn [big_run] in H.
  - inversion H; subst. auto.
  - inversion Hp as [|? ? Ho Hps]; subst.
    destruct (big_op o s) as [s1|] eqn:E; [|discriminate].
    assert (X : QU s1 /\ clock_ok s1).
    { destruct o; try contradiction.
      - destruct nx; [contradiction|]. cbn [big_op] in E.
        destruct (big_store_spec s k v ttl Q) as (s2 & e & St & _ & _ & Q2 & N2 & C2).
        rewrite St in E. inversion E; subst. split; auto. unfold clock_ok in *. rewrite N2, C2. exact C.
      - destruct (passive_step (OGet k) s s1) as (_ & _ & Q1 & C1); cbn; auto.
      - destruct (passive_step (OSleep d) s s1) as (_ & _ & Q1 & C1); cbn; auto. }
    destruct X as [Q1 C1]. eapply IH; eauto.
Qed.
Transparent big_store big_get big_evict big_race big_sleep.

(* from the initial state_cm: after any quiescent history of stores, lookups and sleeps *)
Corollary repeat_hits_history : forall ops1 s1 k v ttl,
  Forall simple ops1 -> big_run ops1 cm_init = Some s1 ->
  exists s2, big_store k v ttl false s1 = Some s2 /\
    forall ops2 s3, Forall passive ops2 -> big_run ops2 s2 = Some s3 ->
      (now s3 + 1000 < now s1 + ttl)%N ->
      exists s4, big_get k s3 = Some s4 /\ trace s4 = CmHit k v :: trace s3.
Proof.
  intros ops1 s1 k v ttl Hs Hr.
  destruct (simple_history_quiescent ops1 cm_init s1 Hs init_QU init_clock Hr) as [Q C].
  apply repeat_hits; assumption.
Qed.
