(* Cache/CacheBufProofs.v — the buffer-level invariant of Cache/CacheBuf.v (C07, round 2). *)
From Mos Require Import Base.Prelude Codec.Name Codec.RoundtripProofs Cache.CacheBuf.

(* ---------- the invariant (for the code as it is: the copy is made under the read lock, early = false) ---------- *)
Definition cb_ent_ok (s : cb_state) (e : nat) : Prop :=
  let x := cb_ents s e in
  (cb_w x <> None -> cb_r x = []) /\
  (forall b n, cb_v x = Some (b, n) ->
     cb_own s b = CbEnt e /\ In (CbStore (cb_k x) (cb_read (cb_buf s b) n)) (cb_trace s)).

Definition cb_thr_ok (s : cb_state) (t : nat) : Prop :=
  match cb_thr s t with
  | CbIdle | CbGTry _ _ => True
  | CbSFill k v b i =>
      cb_own s b = CbThr t /\ In (CbStore k v) (cb_trace s) /\ i <= length v /\
      (forall j, j < i -> cb_buf s b j = nth j v 0%N)
  | CbSLock k b n e => cb_own s b = CbThr t /\ In (CbStore k (cb_read (cb_buf s b) n)) (cb_trace s)
  | CbSPut k b n e =>
      cb_own s b = CbThr t /\ In (CbStore k (cb_read (cb_buf s b) n)) (cb_trace s) /\
      cb_w (cb_ents s e) = Some (CbWThr t)
  | CbGCheck k e => In t (cb_r (cb_ents s e))
  | CbGAlloc k e b n =>
      In t (cb_r (cb_ents s e)) /\ cb_k (cb_ents s e) = k /\ cb_v (cb_ents s e) = Some (b, n)
  | CbGCopy k e b n d i =>
      In t (cb_r (cb_ents s e)) /\ cb_k (cb_ents s e) = k /\ cb_v (cb_ents s e) = Some (b, n) /\
      cb_own s d = CbThr t /\ i <= n /\ (forall j, j < i -> cb_buf s d j = cb_buf s b j)
  end.

Definition cb_inv (s : cb_state) : Prop :=
  (forall e, cb_ent_ok s e) /\ (forall t, cb_thr_ok s t) /\ cb_hits_ok (cb_trace s).

Lemma cb_upd_same {A} (f : nat -> A) i x : cb_upd f i x i = x.
Proof. unfold cb_upd. now rewrite Nat.eqb_refl. Qed.
Lemma cb_upd_other {A} (f : nat -> A) i x j : j <> i -> cb_upd f i x j = f j.
Proof. unfold cb_upd. intros H. apply Nat.eqb_neq in H. now rewrite H. Qed.

Lemma cb_read_ext a a' n : (forall j, j < n -> a j = a' j) -> cb_read a n = cb_read a' n.
Proof.
  intros H. unfold cb_read. apply map_ext_in. intros j Hj. apply in_seq in Hj. apply H. lia.
Qed.

Lemma cb_read_nth v a : (forall j, j < length v -> a j = nth j v 0%N) -> cb_read a (length v) = v.
Proof.
  intros H. unfold cb_read. apply nth_ext with (d := 0%N) (d' := 0%N).
  - now rewrite map_length, seq_length.
  - intros j Hj. rewrite map_length, seq_length in Hj.
    rewrite (nth_indep _ 0%N (a 0)) by (now rewrite map_length, seq_length).
    rewrite map_nth, seq_nth by exact Hj. cbn. apply H, Hj.
Qed.

Lemma cb_unlocked_true x : cb_unlocked x = true -> cb_w x = None /\ cb_r x = [].
Proof. unfold cb_unlocked. destruct (cb_w x), (cb_r x); try discriminate; auto. Qed.

Lemma cb_isfree_true o : cb_isfree o = true -> o = CbFree.
Proof. destruct o; cbn; congruence. Qed.

Lemma cb_in_rem_keep x t l : In x l -> x <> t -> In x (cb_rem t l).
Proof. unfold cb_rem. intros. now apply in_in_remove. Qed.

Lemma cb_init_inv : cb_inv cb_init.
Proof.
  split; [|split].
  - intros e. split; cbn; [auto|discriminate].
  - intros t. exact I.
  - exact I.
Qed.

(* ---------- preservation: frame lemmas ---------- *)
(* facts a goroutine relies on survive any step that (a) leaves the arrays it may read/write, their owners and the trace
   alone (or only extends the trace) and (b) leaves the entries it holds a lock on alone *)

(* 1. a write into array d by its owning goroutine t0 *)
Lemma cb_write_ent_ok s d i x t0 e :
  cb_own s d = CbThr t0 -> cb_ent_ok s e -> cb_ent_ok (cb_write s d i x) e.
Proof.
  intros Ho [A B]. split; cbn; [exact A|].
  intros b n Hv. destruct (B b n Hv) as [Hown Hin]. split; [exact Hown|].
  assert (b <> d) by (intros ->; rewrite Ho in Hown; discriminate).
  rewrite cb_upd_other by assumption. exact Hin.
Qed.

Lemma cb_write_thr_ok s d i x t0 t :
  cb_own s d = CbThr t0 -> t <> t0 -> (forall e, cb_ent_ok s e) -> cb_thr_ok s t -> cb_thr_ok (cb_write s d i x) t.
Proof.
  intros Ho Hne He H. unfold cb_thr_ok in *. cbn [cb_write cb_thr cb_own cb_buf cb_ents cb_trace].
  destruct (cb_thr s t) as [|k v b i0|k b n e|k b n e|k e|k e|k e b n|k e b n d0 i0]; auto.
  - destruct H as (H1 & H2 & H3 & H4).
    assert (b <> d) by (intros ->; rewrite Ho in H1; inversion H1; congruence).
    rewrite cb_upd_other by assumption. auto.
  - destruct H as (H1 & H2).
    assert (b <> d) by (intros ->; rewrite Ho in H1; inversion H1; congruence).
    rewrite cb_upd_other by assumption. auto.
  - destruct H as (H1 & H2 & H3).
    assert (b <> d) by (intros ->; rewrite Ho in H1; inversion H1; congruence).
    rewrite cb_upd_other by assumption. auto.
  - destruct H as (H1 & H2 & H3 & H4 & H5 & H6).
    assert (d0 <> d) by (intros ->; rewrite Ho in H4; inversion H4; congruence).
    destruct (He e) as [_ B]. destruct (B b n H3) as [Hown _].
    assert (b <> d) by (intros ->; rewrite Ho in Hown; discriminate).
    rewrite !cb_upd_other by assumption. auto 10.
Qed.

(* 2. only the pc of goroutine t0 changes (and the trace may grow) *)
Lemma cb_thr_ok_frame s s' t :
  cb_thr s' t = cb_thr s t -> cb_ents s' = cb_ents s -> cb_buf s' = cb_buf s -> cb_own s' = cb_own s ->
  (forall ev, In ev (cb_trace s) -> In ev (cb_trace s')) ->
  cb_thr_ok s t -> cb_thr_ok s' t.
Proof.
  intros Ht He Hb Ho Hg H. unfold cb_thr_ok in *. rewrite Ht, He, Hb, Ho.
  destruct (cb_thr s t); intuition.
Qed.

Lemma cb_ent_ok_frame s s' e :
  cb_ents s' = cb_ents s -> cb_buf s' = cb_buf s -> cb_own s' = cb_own s ->
  (forall ev, In ev (cb_trace s) -> In ev (cb_trace s')) ->
  cb_ent_ok s e -> cb_ent_ok s' e.
Proof.
  intros He Hb Ho Hg [A B]. unfold cb_ent_ok. rewrite He, Hb, Ho. split; [exact A|].
  intros b n Hv. destruct (B b n Hv). auto.
Qed.

(* 3. the owner of array b changes, b being referenced by no entry and owned by no other goroutine *)
Lemma cb_ent_ok_own s b o e :
  (forall b' n, cb_v (cb_ents s e) = Some (b', n) -> b' <> b) ->
  cb_ent_ok s e -> cb_ent_ok (cb_set_own s b o) e.
Proof.
  intros Hnb [A B]. split; cbn; [exact A|]. intros b' n Hv. destruct (B b' n Hv) as [H1 H2].
  rewrite cb_upd_other by (eapply Hnb; eauto). auto.
Qed.

Lemma cb_thr_ok_own s b o t :
  (forall t', cb_own s b <> CbThr t') \/ (exists t0, cb_own s b = CbThr t0 /\ t <> t0) ->
  cb_thr_ok s t -> cb_thr_ok (cb_set_own s b o) t.
Proof.
  intros Hb H. unfold cb_thr_ok in *. cbn [cb_set_own cb_thr cb_own cb_buf cb_ents cb_trace].
  assert (Hne : forall b', cb_own s b' = CbThr t -> b' <> b).
  { intros b' Ho ->. destruct Hb as [Hb|(t0 & Hb & Hne)]; [eapply Hb; eauto|rewrite Hb in Ho; inversion Ho; congruence]. }
  destruct (cb_thr s t) as [|k v b0 i0|k b0 n e|k b0 n e|k e|k e|k e b0 n|k e b0 n d0 i0]; auto.
  - destruct H as (H1 & H2). rewrite cb_upd_other by (apply Hne; exact H1). auto.
  - destruct H as (H1 & H2). rewrite cb_upd_other by (apply Hne; exact H1). auto.
  - destruct H as (H1 & H2). rewrite cb_upd_other by (apply Hne; exact H1). auto.
  - destruct H as (H1 & H2 & H3 & H4 & H5). rewrite cb_upd_other by (apply Hne; exact H4). auto 10.
Qed.

(* 4. entry e changes, nobody holding a read lock on it, goroutine t not being its write-lock holder *)
Lemma cb_thr_ok_ent s e x t :
  cb_r (cb_ents s e) = [] -> cb_w (cb_ents s e) <> Some (CbWThr t) ->
  cb_thr_ok s t -> cb_thr_ok (cb_set_ent s e x) t.
Proof.
  intros Hr Hw H. unfold cb_thr_ok in *. cbn [cb_set_ent cb_thr cb_own cb_buf cb_ents cb_trace].
  destruct (cb_thr s t) as [|k v b0 i0|k b0 n e0|k b0 n e0|k e0|k e0|k e0 b0 n|k e0 b0 n d0 i0]; auto;
    (destruct (Nat.eq_dec e0 e) as [->|Hne];
     [exfalso; try (rewrite Hr in H; cbn in H; tauto); try (destruct H as (_ & _ & H); congruence)
     |rewrite cb_upd_other by exact Hne; exact H]).
Qed.

(* ... or only its reader set changes, every reader other than t0 staying *)
Lemma cb_thr_ok_readers s e x t t0 :
  t <> t0 -> cb_k x = cb_k (cb_ents s e) -> cb_v x = cb_v (cb_ents s e) -> cb_w x = cb_w (cb_ents s e) ->
  (forall t', t' <> t0 -> In t' (cb_r (cb_ents s e)) -> In t' (cb_r x)) ->
  cb_thr_ok s t -> cb_thr_ok (cb_set_ent s e x) t.
Proof.
  intros Hne Ek Ev Ew Er H. unfold cb_thr_ok in *. cbn [cb_set_ent cb_thr cb_own cb_buf cb_ents cb_trace].
  destruct (cb_thr s t) as [|k v b0 i0|k b0 n e0|k b0 n e0|k e0|k e0|k e0 b0 n|k e0 b0 n d0 i0]; auto;
    (destruct (Nat.eq_dec e0 e) as [->|Hne2];
     [rewrite cb_upd_same; rewrite ?Ek, ?Ev, ?Ew; intuition
     |rewrite cb_upd_other by exact Hne2; exact H]).
Qed.

Lemma cb_ent_ok_other s e x e0 : e0 <> e -> cb_ent_ok s e0 -> cb_ent_ok (cb_set_ent s e x) e0.
Proof.
  intros Hne [A B]. unfold cb_ent_ok. cbn [cb_set_ent cb_thr cb_own cb_buf cb_ents cb_trace].
  rewrite cb_upd_other by exact Hne. auto.
Qed.

Lemma cb_hits_ok_cons_nohit ev tr :
  (forall k v, ev <> CbHit k v) -> cb_hits_ok tr -> cb_hits_ok (ev :: tr).
Proof. intros H Hh. destruct ev; cbn; auto. exfalso. eapply H; eauto. Qed.

(* ---------- one atomic action of a goroutine ---------- *)
Lemma cb_step_thread_inv s t c s' : cb_inv s -> cb_step_thread false s t c = Some s' -> cb_inv s'.
Proof.
  intros (IE & IT & IH) H. unfold cb_step_thread in H. pose proof (IT t) as Ht. unfold cb_thr_ok in Ht.
  destruct (cb_thr s t) as [|k v b i|k b n e|k b n e|k e|k e|k e b n|k e b n d i] eqn:Epc; try discriminate.
  - (* CbSFill *)
    destruct Ht as (Ho & Hs & Hi & Hf).
    destruct (i <? length v) eqn:Ei; inversion H; subst; clear H.
    + apply Nat.ltb_lt in Ei. split; [|split]; [| |exact IH].
      * intros e0. apply (cb_ent_ok_frame (cb_write s b i (nth i v 0%N))); auto.
        eapply cb_write_ent_ok; eauto.
      * intros t'. destruct (Nat.eq_dec t' t) as [->|Hne].
        -- unfold cb_thr_ok. cbn. rewrite cb_upd_same. cbn.
           split; [exact Ho|]. split; [exact Hs|]. split; [lia|].
           intros j Hj. rewrite cb_upd_same. unfold cb_upd. destruct (Nat.eqb j i) eqn:Eji.
           ++ apply Nat.eqb_eq in Eji. now subst.
           ++ apply Nat.eqb_neq in Eji. apply Hf. lia.
        -- apply (cb_thr_ok_frame (cb_write s b i (nth i v 0%N))); auto.
           ++ cbn. now rewrite cb_upd_other.
           ++ eapply cb_write_thr_ok; eauto.
    + apply Nat.ltb_ge in Ei. assert (i = length v) by lia. subst i.
      split; [|split]; [| |exact IH].
      * intros e0. apply (cb_ent_ok_frame s); auto.
      * intros t'. destruct (Nat.eq_dec t' t) as [->|Hne].
        -- unfold cb_thr_ok. cbn. rewrite cb_upd_same. split; [exact Ho|].
           rewrite (cb_read_nth v (cb_buf s b) Hf). exact Hs.
        -- apply (cb_thr_ok_frame s); auto. cbn. now rewrite cb_upd_other.
  - (* CbSLock *)
    destruct Ht as (Ho & Hs).
    destruct (cb_unlocked (cb_ents s e)) eqn:U; inversion H; subst; clear H.
    apply cb_unlocked_true in U. destruct U as [Uw Ur].
    split; [|split]; [| |exact IH].
    + intros e0. destruct (Nat.eq_dec e0 e) as [->|Hne].
      * destruct (IE e) as [A B]. split; cbn; rewrite cb_upd_same; cbn; [auto|exact B].
      * apply (cb_ent_ok_frame (cb_set_ent s e (mkCbE (cb_k (cb_ents s e)) (cb_v (cb_ents s e)) (Some (CbWThr t)) (cb_r (cb_ents s e))))); auto.
        apply cb_ent_ok_other; auto.
    + intros t'. destruct (Nat.eq_dec t' t) as [->|Hne].
      * unfold cb_thr_ok. cbn. rewrite !cb_upd_same. cbn. auto.
      * apply (cb_thr_ok_frame (cb_set_ent s e (mkCbE (cb_k (cb_ents s e)) (cb_v (cb_ents s e)) (Some (CbWThr t)) (cb_r (cb_ents s e))))); auto.
        -- cbn. now rewrite cb_upd_other.
        -- apply cb_thr_ok_ent; auto. rewrite Uw. discriminate.
  - (* CbSPut *)
    destruct Ht as (Ho & Hs & Hw). inversion H; subst; clear H.
    assert (Hr : cb_r (cb_ents s e) = []) by (apply (IE e); rewrite Hw; discriminate).
    split; [|split]; [| |exact IH].
    + intros e0. destruct (Nat.eq_dec e0 e) as [->|Hne].
      * split; cbn; rewrite cb_upd_same; cbn; [congruence|].
        intros b0 n0 E. inversion E; subst. rewrite cb_upd_same. auto.
      * unfold cb_ent_ok. cbn. rewrite cb_upd_other by exact Hne. destruct (IE e0) as [A B]. split; [exact A|].
        intros b0 n0 Hv. destruct (B b0 n0 Hv) as [H1 H2].
        assert (b0 <> b) by (intros ->; rewrite Ho in H1; discriminate).
        rewrite cb_upd_other by assumption. auto.
    + intros t'. destruct (Nat.eq_dec t' t) as [->|Hne].
      * unfold cb_thr_ok. cbn. rewrite cb_upd_same. exact I.
      * assert (H1 : cb_thr_ok (cb_set_ent s e (mkCbE k (Some (b, n)) None (cb_r (cb_ents s e)))) t').
        { apply cb_thr_ok_ent; auto. rewrite Hw. congruence. }
        assert (H2 : cb_thr_ok (cb_set_own (cb_set_ent s e (mkCbE k (Some (b, n)) None (cb_r (cb_ents s e)))) b (CbEnt e)) t').
        { apply cb_thr_ok_own; auto. right. exists t. cbn. auto. }
        revert H2. apply cb_thr_ok_frame; auto. cbn. now rewrite cb_upd_other.
  - (* CbGTry *)
    destruct (cb_w (cb_ents s e)) eqn:Ew; [|destruct c as [|c']]; inversion H; subst; clear H.
    + split; [|split].
      * intros e0. apply (cb_ent_ok_frame s); auto. cbn; auto.
      * intros t'. destruct (Nat.eq_dec t' t) as [->|Hne]; [unfold cb_thr_ok; cbn; rewrite cb_upd_same; exact I|].
        apply (cb_thr_ok_frame s); auto; cbn; auto. now rewrite cb_upd_other.
      * cbn. exact IH.
    + split; [|split]; [| |exact IH].
      * intros e0. destruct (Nat.eq_dec e0 e) as [->|Hne].
        -- destruct (IE e) as [A B]. split; cbn; rewrite cb_upd_same; cbn; [congruence|exact B].
        -- apply (cb_ent_ok_frame (cb_set_ent s e (mkCbE (cb_k (cb_ents s e)) (cb_v (cb_ents s e)) None (t :: cb_r (cb_ents s e))))); auto.
           apply cb_ent_ok_other; auto.
      * intros t'. destruct (Nat.eq_dec t' t) as [->|Hne].
        -- unfold cb_thr_ok. cbn. rewrite !cb_upd_same. cbn. auto.
        -- apply (cb_thr_ok_frame (cb_set_ent s e (mkCbE (cb_k (cb_ents s e)) (cb_v (cb_ents s e)) None (t :: cb_r (cb_ents s e))))); auto.
           ++ cbn. now rewrite cb_upd_other.
           ++ apply (cb_thr_ok_readers _ _ _ _ t); cbn; auto.
    + split; [|split].
      * intros e0. apply (cb_ent_ok_frame s); auto. cbn; auto.
      * intros t'. destruct (Nat.eq_dec t' t) as [->|Hne]; [unfold cb_thr_ok; cbn; rewrite cb_upd_same; exact I|].
        apply (cb_thr_ok_frame s); auto; cbn; auto. now rewrite cb_upd_other.
      * cbn. exact IH.
  - (* CbGCheck *)
    assert (Hmiss : cb_inv (cb_emit (cb_set_thr (cb_runlock s e t) t CbIdle) (CbMiss k))).
    { split; [|split].
      - intros e0. destruct (Nat.eq_dec e0 e) as [->|Hne].
        + destruct (IE e) as [A B]. split; cbn; rewrite cb_upd_same; cbn.
          * intros W. rewrite (A W). reflexivity.
          * intros b0 n0 Hv. destruct (B b0 n0 Hv). auto.
        + apply (cb_ent_ok_frame (cb_runlock s e t)); auto; [cbn; auto|]. apply cb_ent_ok_other; auto.
      - intros t'. destruct (Nat.eq_dec t' t) as [->|Hne]; [unfold cb_thr_ok; cbn; rewrite cb_upd_same; exact I|].
        apply (cb_thr_ok_frame (cb_runlock s e t)); auto; [cbn; now rewrite cb_upd_other|cbn; auto|].
        apply (cb_thr_ok_readers _ _ _ _ t); cbn; auto. intros t'' Hne2 Hin. apply cb_in_rem_keep; auto.
      - cbn. exact IH. }
    destruct (cb_v (cb_ents s e)) as [[b n]|] eqn:Ev; [|inversion H; subst; exact Hmiss].
    destruct (list_eqb (cb_k (cb_ents s e)) k) eqn:Ek; inversion H; subst; [|exact Hmiss]. clear H Hmiss.
    apply list_eqb_eq in Ek.
    split; [|split]; [| |exact IH].
    + intros e0. apply (cb_ent_ok_frame s); auto.
    + intros t'. destruct (Nat.eq_dec t' t) as [->|Hne].
      * unfold cb_thr_ok. cbn. rewrite cb_upd_same. auto.
      * apply (cb_thr_ok_frame s); auto. cbn. now rewrite cb_upd_other.
  - (* CbGAlloc *)
    destruct Ht as (Hin & Hk & Hv).
    destruct (cb_isfree (cb_own s c)) eqn:Ef; [|discriminate]. injection H as <-. apply cb_isfree_true in Ef.
    split; [|split]; [| |exact IH].
    + intros e0. apply (cb_ent_ok_frame (cb_set_own s c (CbThr t))); auto.
      apply cb_ent_ok_own; auto. intros b' n' Hv' ->. destruct (IE e0) as [_ B]. destruct (B c n' Hv'). congruence.
    + intros t'. destruct (Nat.eq_dec t' t) as [->|Hne].
      * unfold cb_thr_ok. cbn. rewrite !cb_upd_same.
        split; [exact Hin|]. split; [exact Hk|]. split; [exact Hv|]. split; [reflexivity|]. split; [lia|].
        intros j Hj. lia.
      * apply (cb_thr_ok_frame (cb_set_own s c (CbThr t))); auto; [cbn; now rewrite cb_upd_other|].
        apply cb_thr_ok_own; auto. left. intros t''. rewrite Ef. discriminate.
  - (* CbGCopy *)
    destruct Ht as (Hin & Hk & Hv & Ho & Hi & Hf).
    destruct (IE e) as [EA EB]. destruct (EB b n Hv) as [Hob Hsb].
    assert (Hbd : b <> d) by (intros ->; rewrite Ho in Hob; discriminate).
    destruct (i <? n) eqn:Ei; injection H as <-.
    + apply Nat.ltb_lt in Ei. split; [|split]; [| |exact IH].
      * intros e0. apply (cb_ent_ok_frame (cb_write s d i (cb_buf s b i))); auto.
        eapply cb_write_ent_ok; eauto.
      * intros t'. destruct (Nat.eq_dec t' t) as [->|Hne].
        -- unfold cb_thr_ok. cbn. rewrite cb_upd_same. cbn.
           split; [exact Hin|]. split; [exact Hk|]. split; [exact Hv|]. split; [exact Ho|]. split; [lia|].
           intros j Hj. rewrite cb_upd_same, (cb_upd_other _ d _ b Hbd). unfold cb_upd. destruct (Nat.eqb j i) eqn:Eji.
           ++ apply Nat.eqb_eq in Eji. now subst.
           ++ apply Nat.eqb_neq in Eji. apply Hf. lia.
        -- apply (cb_thr_ok_frame (cb_write s d i (cb_buf s b i))); auto.
           ++ cbn. now rewrite cb_upd_other.
           ++ eapply cb_write_thr_ok; eauto.
    + apply Nat.ltb_ge in Ei. assert (i = n) by lia. subst i.
      assert (Hrd : cb_read (cb_buf s d) n = cb_read (cb_buf s b) n) by (apply cb_read_ext; exact Hf).
      split; [|split].
      * intros e0. destruct (Nat.eq_dec e0 e) as [->|Hne].
        -- split; cbn; rewrite cb_upd_same; cbn.
           ++ intros W. rewrite (EA W). reflexivity.
           ++ intros b0 n0 Hv0. destruct (EB b0 n0 Hv0) as [H1 H2].
              assert (b0 <> d) by (intros ->; rewrite Ho in H1; discriminate).
              rewrite cb_upd_other by assumption. auto.
        -- unfold cb_ent_ok. cbn. rewrite cb_upd_other by exact Hne. destruct (IE e0) as [A B]. split; [exact A|].
           intros b0 n0 Hv0. destruct (B b0 n0 Hv0) as [H1 H2].
           assert (b0 <> d) by (intros ->; rewrite Ho in H1; discriminate).
           rewrite cb_upd_other by assumption. auto.
      * intros t'. destruct (Nat.eq_dec t' t) as [->|Hne]; [unfold cb_thr_ok; cbn; rewrite cb_upd_same; exact I|].
        assert (H1 : cb_thr_ok (cb_runlock s e t) t').
        { apply (cb_thr_ok_readers _ _ _ _ t); cbn; auto. intros t'' Hne2 Hin2. apply cb_in_rem_keep; auto. }
        assert (H2 : cb_thr_ok (cb_set_own (cb_runlock s e t) d CbOut) t').
        { apply cb_thr_ok_own; auto. right. exists t. cbn. auto. }
        revert H2. apply cb_thr_ok_frame; auto; cbn; auto. now rewrite cb_upd_other.
      * cbn. split; [|exact IH]. rewrite Hrd, <- Hk. exact Hsb.
Qed.

(* ---------- every label ---------- *)
Lemma cb_step_inv s l s' : cb_inv s -> cb_step false s l = Some s' -> cb_inv s'.
Proof.
  intros I H. destruct l as [k v b|k e|t c|e|k e|d]; cbn [cb_step] in H.
  - (* CbLStore *)
    destruct I as (IE & IT & IH).
    destruct (cb_isfree (cb_own s b)) eqn:Ef; [|discriminate]. injection H as <-. apply cb_isfree_true in Ef.
    split; [|split].
    + intros e0. apply (cb_ent_ok_frame (cb_set_own s b (CbThr (cb_nthr s)))); auto; [cbn; auto|].
      apply cb_ent_ok_own; auto. intros b' n' Hv' ->. destruct (IE e0) as [_ B]. destruct (B b n' Hv'). congruence.
    + intros t'. destruct (Nat.eq_dec t' (cb_nthr s)) as [->|Hne].
      * unfold cb_thr_ok. cbn. rewrite !cb_upd_same. split; [reflexivity|]. split; [now left|]. split; [lia|].
        intros j Hj. lia.
      * apply (cb_thr_ok_frame (cb_set_own s b (CbThr (cb_nthr s)))); auto; [cbn; now rewrite cb_upd_other|cbn; auto|].
        apply cb_thr_ok_own; auto. left. intros t''. rewrite Ef. discriminate.
    + cbn. exact IH.
  - (* CbLGet *)
    destruct I as (IE & IT & IH). injection H as <-. split; [|split]; [| |exact IH].
    + intros e0. apply (cb_ent_ok_frame s); auto.
    + intros t'. destruct (Nat.eq_dec t' (cb_nthr s)) as [->|Hne]; [unfold cb_thr_ok; cbn; rewrite cb_upd_same; exact I|].
      apply (cb_thr_ok_frame s); auto. cbn. now rewrite cb_upd_other.
  - eapply cb_step_thread_inv; eauto.
  - (* CbLRelLock *)
    destruct I as (IE & IT & IH).
    destruct (cb_unlocked (cb_ents s e)) eqn:U; [|discriminate]. injection H as <-.
    apply cb_unlocked_true in U. destruct U as [Uw Ur].
    split; [|split]; [| |exact IH].
    + intros e0. destruct (Nat.eq_dec e0 e) as [->|Hne].
      * destruct (IE e) as [A B]. split; cbn; rewrite cb_upd_same; cbn; [auto|exact B].
      * apply cb_ent_ok_other; auto.
    + intros t'. apply cb_thr_ok_ent; auto. rewrite Uw. discriminate.
  - (* CbLRelClear *)
    destruct I as (IE & IT & IH).
    destruct (cb_w (cb_ents s e)) as [[tw|]|] eqn:Ew; try discriminate.
    assert (Hr : cb_r (cb_ents s e) = []) by (apply (IE e); rewrite Ew; discriminate).
    assert (Hnw : forall t', cb_w (cb_ents s e) <> Some (CbWThr t')) by (intros t'; rewrite Ew; discriminate).
    destruct (list_eqb (cb_k (cb_ents s e)) k); injection H as <-.
    + destruct (cb_v (cb_ents s e)) as [[b n]|] eqn:Ev.
      * (* the array goes back to the free list *)
        destruct (IE e) as [_ EB]. destruct (EB b n Ev) as [Hob _].
        split; [|split]; [| |exact IH].
        -- intros e0. destruct (Nat.eq_dec e0 e) as [->|Hne].
           ++ split; cbn; rewrite cb_upd_same; cbn; [auto|discriminate].
           ++ apply cb_ent_ok_other; auto. apply cb_ent_ok_own; auto.
              intros b' n' Hv' ->. destruct (IE e0) as [_ B]. destruct (B b n' Hv') as [H1 _]. rewrite Hob in H1.
              inversion H1. congruence.
        -- intros t'. apply cb_thr_ok_ent; cbn; auto.
           assert (H1 : cb_thr_ok (cb_set_own s b CbFree) t').
           { (* nobody reads from b: a reader of b holds a read lock on an entry whose value is b, i.e. on e *)
             pose proof (IT t') as Ht. unfold cb_thr_ok in *. cbn [cb_set_own cb_thr cb_own cb_buf cb_ents cb_trace].
             destruct (cb_thr s t') as [|k0 v0 b0 i0|k0 b0 n0 e0|k0 b0 n0 e0|k0 e0|k0 e0|k0 e0 b0 n0|k0 e0 b0 n0 d0 i0]; auto.
             - destruct Ht as (H1 & H2). rewrite cb_upd_other; auto. intros ->. rewrite Hob in H1. discriminate.
             - destruct Ht as (H1 & H2). rewrite cb_upd_other; auto. intros ->. rewrite Hob in H1. discriminate.
             - destruct Ht as (H1 & H2). rewrite cb_upd_other; auto. intros ->. rewrite Hob in H1. discriminate.
             - destruct Ht as (H1 & H2 & H3 & H4 & H5). rewrite cb_upd_other; auto 10.
               intros ->. rewrite Hob in H4. discriminate. }
           exact H1.
      * split; [|split]; [| |exact IH].
        -- intros e0. destruct (Nat.eq_dec e0 e) as [->|Hne].
           ++ split; cbn; rewrite cb_upd_same; cbn; [auto|discriminate].
           ++ apply cb_ent_ok_other; auto.
        -- intros t'. apply cb_thr_ok_ent; auto.
    + split; [|split]; [| |exact IH].
      * intros e0. destruct (Nat.eq_dec e0 e) as [->|Hne].
        -- destruct (IE e) as [A B]. split; cbn; rewrite cb_upd_same; cbn; [congruence|exact B].
        -- apply cb_ent_ok_other; auto.
      * intros t'. apply cb_thr_ok_ent; auto.
  - (* CbLCallerRelease *)
    destruct I as (IE & IT & IH).
    destruct (cb_own s d) eqn:Eo; try discriminate. injection H as <-.
    split; [|split]; [| |exact IH].
    + intros e0. apply cb_ent_ok_own; auto. intros b' n' Hv' ->. destruct (IE e0) as [_ B]. destruct (B d n' Hv'). congruence.
    + intros t'. apply cb_thr_ok_own; auto. left. intros t''. rewrite Eo. discriminate.
Qed.

Lemma cb_run_inv ls : forall s s', cb_inv s -> cb_run false ls s = Some s' -> cb_inv s'.
Proof.
  induction ls as [|l ls IH]; intros s s' I H; cbn in H; [inversion H; subst; exact I|].
  destruct (cb_step false s l) eqn:E; [|discriminate]. eapply IH; [|exact H]. eapply cb_step_inv; eauto.
Qed.

Lemma cb_hits_ok_split tr : cb_hits_ok tr -> forall l1 k v l2, tr = l1 ++ CbHit k v :: l2 -> In (CbStore k v) l2.
Proof.
  induction tr as [|ev tr IH]; intros H l1 k v l2 E.
  - destruct l1; discriminate.
  - destruct l1 as [|x l1]; cbn in E; inversion E; subst; cbn in H.
    + tauto.
    + assert (Hr : cb_hits_ok (l1 ++ CbHit k v :: l2)) by (destruct x; cbn in H; tauto).
      eapply IH; eauto.
Qed.

(* In EVERY interleaving of the buffer-level system (copy under the read lock), every hit returns, octet for octet,
   a value some Store call supplied for the looked-up key - although arrays are recycled through the pool with their old
   contents, the entry pool and the backend hand out arbitrary entries, and releases happen at arbitrary points *)
Theorem cb_hit_unchanged : forall ls s, cb_run false ls cb_init = Some s ->
  forall l1 k v l2, cb_trace s = l1 ++ CbHit k v :: l2 -> In (CbStore k v) l2.
Proof.
  intros ls s H. destruct (cb_run_inv ls cb_init s cb_init_inv H) as (_ & _ & Hh).
  apply cb_hits_ok_split. exact Hh.
Qed.

(* while a goroutine copies (and until it returns), the array it reads from belongs to the entry it holds the read lock
   of: it is neither in the free list nor in another goroutine's hands *)
Theorem cb_copy_source_owned : forall ls s, cb_run false ls cb_init = Some s ->
  forall t k e b n d i, cb_thr s t = CbGCopy k e b n d i ->
    In t (cb_r (cb_ents s e)) /\ cb_w (cb_ents s e) = None /\ cb_k (cb_ents s e) = k /\
    cb_v (cb_ents s e) = Some (b, n) /\ cb_own s b = CbEnt e /\ cb_own s d = CbThr t.
Proof.
  intros ls s H t k e b n d i E. destruct (cb_run_inv ls cb_init s cb_init_inv H) as (IE & IT & _).
  pose proof (IT t) as Ht. unfold cb_thr_ok in Ht. rewrite E in Ht. destruct Ht as (Hin & Hk & Hv & Ho & _).
  destruct (IE e) as [A B]. destruct (B b n Hv) as [Hob _].
  repeat split; auto. destruct (cb_w (cb_ents s e)) eqn:W; auto. exfalso.
  rewrite A in Hin by discriminate. exact Hin.
Qed.

(* ---------- the variant that unlocks before the copy is refuted ---------- *)
(* Store([1], [10;11]) into array 0 / entry 0;  Get([1]) passes the check, unlocks, is about to copy;  releaseEntry([1], 0)
   frees array 0;  Store([2], [20;21]) gets array 0 back and fills it;  the reader copies:  Get([1]) = [20;21]. *)
Definition cb_early_witness : list cb_label :=
  [ CbLStore [1] [10; 11] 0; CbLStep 0 0; CbLStep 0 0; CbLStep 0 0; CbLStep 0 0; CbLStep 0 0;
    CbLGet [1] 0; CbLStep 1 0; CbLStep 1 0;
    CbLRelLock 0; CbLRelClear [1] 0;
    CbLStore [2] [20; 21] 0; CbLStep 2 0; CbLStep 2 0;
    CbLStep 1 1; CbLStep 1 0; CbLStep 1 0; CbLStep 1 0 ]%N.

(* ... and a torn one: the second Store has written only its first octet when the reader copies *)
Definition cb_early_witness_torn : list cb_label :=
  [ CbLStore [1] [10; 11] 0; CbLStep 0 0; CbLStep 0 0; CbLStep 0 0; CbLStep 0 0; CbLStep 0 0;
    CbLGet [1] 0; CbLStep 1 0; CbLStep 1 0;
    CbLRelLock 0; CbLRelClear [1] 0;
    CbLStore [2] [20; 21] 0; CbLStep 2 0;
    CbLStep 1 1; CbLStep 1 0; CbLStep 1 0; CbLStep 1 0 ]%N.

Definition cb_trace_of (early : bool) (ls : list cb_label) : option (list cb_event) :=
  match cb_run early ls cb_init with Some s => Some (cb_trace s) | None => None end.

Theorem cb_early_unlock_refuted :
  cb_trace_of true cb_early_witness =
    Some [CbHit [1] [20; 21]; CbStore [2] [20; 21]; CbStore [1] [10; 11]]%N /\
  cb_trace_of true cb_early_witness_torn =
    Some [CbHit [1] [20; 11]; CbStore [2] [20; 21]; CbStore [1] [10; 11]]%N /\
  (* the same schedules are not schedules of the code as it is: releaseEntry's Lock is blocked by the reader *)
  cb_trace_of false cb_early_witness = None /\ cb_trace_of false cb_early_witness_torn = None.
Proof. vm_compute. repeat split. Qed.

Theorem cb_early_unlock_breaks_property :
  exists ls tr, cb_trace_of true ls = Some tr /\ ~ cb_hits_ok tr.
Proof.
  exists cb_early_witness, [CbHit [1] [20; 21]; CbStore [2] [20; 21]; CbStore [1] [10; 11]]%N.
  split; [exact (proj1 cb_early_unlock_refuted)|]. cbn. intros [[H1|[H1|[]]] _]; discriminate.
Qed.
