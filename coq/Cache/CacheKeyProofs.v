(* Cache/CacheKeyProofs.v — the cache key determines the request (name up to ASCII case, class, type, group). *)
From Mos Require Import Base.Prelude Codec.Name Codec.NameProofs Codec.RoundtripProofs Cache.CacheKey.
From Coq Require Import ZifyN ZifyNat ZifyBool.

Definition u16 (v : N) : Prop := (v < 65536)%N.

(* an octet that cannot be the length octet of a label *)
Definition not_label_start (a : N) : Prop := ~ (1 <= a <= 63)%N.

Lemma app_eq_len {A} (a b c d : list A) : length a = length b -> a ++ c = b ++ d -> a = b /\ c = d.
Proof.
  revert b; induction a as [|x a IH]; intros [|y b] Hl H; cbn in *; try discriminate; auto.
  inversion H; subst. destruct (IH b) as [-> ->]; auto.
Qed.

(* reading labels from the front of a key is deterministic: the name ends at the first octet that is not a
   label length *)
Lemma raw_prefix_inj ls1 : Forall wf_label ls1 -> forall ls2 a x b y, Forall wf_label ls2 ->
  not_label_start a -> not_label_start b ->
  raw ls1 ++ a :: x = raw ls2 ++ b :: y -> ls1 = ls2 /\ a :: x = b :: y.
Proof.
  unfold not_label_start.
  induction 1 as [|l1 r1 [Hl1 _] _ IH]; intros ls2 a x b y H2 Ha Hb E.
  - destruct H2 as [|l2 r2 [Hl2 _] _]; cbn in E; [auto|].
    inversion E; subst. exfalso. apply Ha. lia.
  - destruct H2 as [|l2 r2 [Hl2 _] H2]; cbn in E.
    + inversion E; subst. exfalso. apply Hb. lia.
    + inversion E as [[E1 E2]]. assert (length l1 = length l2) as Hlen by lia.
      rewrite <- !app_assoc in E2. destruct (app_eq_len _ _ _ _ Hlen E2) as [-> E3].
      destruct (IH r2 a x b y H2 Ha Hb E3) as [-> ->]. auto.
Qed.

Lemma be16_inj c1 c2 : u16 c1 -> u16 c2 -> be16 c1 = be16 c2 -> c1 = c2.
Proof. unfold u16, be16. intros H1 H2 E. inversion E. lia. Qed.

(* ---------- the layout of the repository (name ‖ 0 ‖ class ‖ type ‖ mark) ---------- *)
Theorem cache_key_injective n1 c1 t1 m1 n2 c2 t2 m2 :
  wf_name n1 -> wf_name n2 -> u16 c1 -> u16 c2 -> u16 t1 -> u16 t2 ->
  cache_key n1 c1 t1 m1 = cache_key n2 c2 t2 m2 ->
  n1 = n2 /\ c1 = c2 /\ t1 = t2 /\ m1 = m2.
Proof.
  intros (ls1 & -> & Hw1 & _) (ls2 & -> & Hw2 & _) Hc1 Hc2 Ht1 Ht2 E. unfold cache_key in E.
  assert (Hn : not_label_start 0%N) by (unfold not_label_start; lia).
  destruct (raw_prefix_inj ls1 Hw1 ls2 _ _ _ _ Hw2 Hn Hn E) as [-> E2].
  inversion E2 as [E3]. cbn [be16 app] in E3. inversion E3 as [[A B C D M]].
  repeat split; auto.
  - apply be16_inj; auto. unfold be16. congruence.
  - apply be16_inj; auto. unfold be16. congruence.
Qed.

(* ---------- ToLowerName on well-formed names ---------- *)
Lemma to_lower_go_raw ls : Forall wf_label ls -> forall fuel, length ls <= fuel ->
  to_lower_go fuel (raw ls) = raw (map (map lower) ls).
Proof.
  induction 1 as [|l ls [Hl Hb] _ IH]; intros fuel Hf; [destruct fuel; reflexivity|].
  cbn [raw]. destruct fuel as [|fuel]; [cbn in Hf; lia|]. cbn [to_lower_go].
  assert ((N.of_nat (length l) =? 0)%N = false) as -> by (apply N.eqb_neq; lia).
  assert ((63 <? N.of_nat (length l))%N = false) as -> by (apply N.ltb_ge; lia).
  rewrite Nat2N.id.
  assert (length (l ++ raw ls) <? length l = false) as -> by (apply Nat.ltb_ge; rewrite app_length; lia).
  rewrite skipn_app, skipn_all, Nat.sub_diag. cbn [skipn app].
  rewrite firstn_app, firstn_all, Nat.sub_diag. cbn [firstn]. rewrite app_nil_r.
  rewrite IH by (cbn in Hf; lia). cbn [map raw]. rewrite map_length. reflexivity.
Qed.

Lemma raw_lower_len ls : length (raw (map (map lower) ls)) = length (raw ls).
Proof. induction ls as [|l ls IH]; cbn; [reflexivity|]. rewrite !app_length, map_length, IH. reflexivity. Qed.

Lemma lower_byte c : isbyte c -> isbyte (lower c).
Proof.
  unfold isbyte, lower. intros H.
  destruct ((65 <=? c)%N && (c <=? 90)%N) eqn:E; [|exact H].
  apply andb_true_iff in E. destruct E as [_ E]. apply N.leb_le in E. lia.
Qed.

Lemma to_lower_name_raw ls : wf_labels ls -> to_lower_name (raw ls) = raw (map (map lower) ls).
Proof.
  intros [Hf Hl]. unfold to_lower_name.
  assert (254 <? length (raw ls) = false) as -> by (apply Nat.ltb_ge; lia).
  apply to_lower_go_raw; auto. now apply raw_len_ge.
Qed.

Lemma to_lower_name_wf n : wf_name n -> wf_name (to_lower_name n).
Proof.
  intros (ls & -> & Hw). rewrite to_lower_name_raw by exact Hw. destruct Hw as [Hf Hl].
  exists (map (map lower) ls). split; [reflexivity|]. split; [|rewrite raw_lower_len; exact Hl].
  apply Forall_forall. intros l' Hin. apply in_map_iff in Hin. destruct Hin as (l & <- & Hin).
  rewrite Forall_forall in Hf. destruct (Hf l Hin) as [Hlen Hb]. split; [now rewrite map_length|].
  unfold bytes in *. rewrite Forall_forall in *. intros c Hc. apply in_map_iff in Hc.
  destruct Hc as (c0 & <- & Hc0). apply lower_byte. auto.
Qed.

(* what the router computes: the key determines the lower-cased name, the class, the type and the group *)
Theorem req_key_injective n1 c1 t1 m1 n2 c2 t2 m2 :
  wf_name n1 -> wf_name n2 -> u16 c1 -> u16 c2 -> u16 t1 -> u16 t2 ->
  req_key n1 c1 t1 m1 = req_key n2 c2 t2 m2 ->
  to_lower_name n1 = to_lower_name n2 /\ c1 = c2 /\ t1 = t2 /\ m1 = m2.
Proof.
  intros H1 H2 Hc1 Hc2 Ht1 Ht2 E. unfold req_key in E.
  apply cache_key_injective in E; auto using to_lower_name_wf.
Qed.

(* conversely the key is a function of exactly those four (so a repeat, in any letter case, finds the entry) *)
Theorem req_key_complete n1 n2 c t m :
  to_lower_name n1 = to_lower_name n2 -> req_key n1 c t m = req_key n2 c t m.
Proof. unfold req_key. intros ->. reflexivity. Qed.

(* the executable oracle used by the correspondence check is exactly this *)
Theorem spec_keys_sound n1 c1 t1 m1 n2 c2 t2 m2 :
  wf_name n1 -> wf_name n2 -> u16 c1 -> u16 c2 -> u16 t1 -> u16 t2 ->
  spec_keys n1 c1 t1 m1 n2 c2 t2 m2 (req_key n1 c1 t1 m1) (req_key n2 c2 t2 m2) = true.
Proof.
  intros H1 H2 Hc1 Hc2 Ht1 Ht2. unfold spec_keys. apply Bool.eqb_true_iff.
  destruct (list_eqb (req_key n1 c1 t1 m1) (req_key n2 c2 t2 m2)) eqn:E.
  - apply list_eqb_eq in E. apply req_key_injective in E; auto. destruct E as (En & -> & -> & ->).
    unfold same_request. rewrite En, !list_eqb_refl, !N.eqb_refl. reflexivity.
  - symmetry. unfold same_request. apply not_true_iff_false. intros S.
    apply andb_true_iff in S. destruct S as [S Sm]. apply andb_true_iff in S. destruct S as [S St].
    apply andb_true_iff in S. destruct S as [Sn Sc].
    apply list_eqb_eq in Sn, Sm. apply N.eqb_eq in Sc, St. subst.
    unfold req_key in E. rewrite Sn, list_eqb_refl in E. discriminate.
Qed.

(* ---------- the pinned layout (name ‖ class ‖ type ‖ mark): injective only for harmless classes ---------- *)
(* the high octet of the class must not look like a label length *)
Definition class_ok (c : N) : Prop := (c < 256)%N \/ (16384 <= c)%N.

Theorem cache_key_pinned_injective_partial n1 c1 t1 m1 n2 c2 t2 m2 :
  wf_name n1 -> wf_name n2 -> u16 c1 -> u16 c2 -> u16 t1 -> u16 t2 -> class_ok c1 -> class_ok c2 ->
  cache_key_pinned n1 c1 t1 m1 = cache_key_pinned n2 c2 t2 m2 ->
  n1 = n2 /\ c1 = c2 /\ t1 = t2 /\ m1 = m2.
Proof.
  intros (ls1 & -> & Hw1 & _) (ls2 & -> & Hw2 & _) Hc1 Hc2 Ht1 Ht2 Ho1 Ho2 E.
  unfold cache_key_pinned in E. cbn [be16 app] in E. unfold u16, class_ok in *.
  assert (Hn1 : not_label_start ((c1 / 256) mod 256)%N) by (unfold not_label_start; lia).
  assert (Hn2 : not_label_start ((c2 / 256) mod 256)%N) by (unfold not_label_start; lia).
  destruct (raw_prefix_inj ls1 Hw1 ls2 _ _ _ _ Hw2 Hn1 Hn2 E) as [-> E2].
  inversion E2 as [[A B C D M]].
  repeat split; auto; lia.
Qed.

(* ... and NOT injective without that side condition (finding K2, fixed by the terminator octet):
   the root name, class 257, type 5, group "01"  vs  the name "\x01\x01", class 5, type 12337, no group *)
Theorem cache_key_pinned_refuted :
  exists n1 c1 t1 m1 n2 c2 t2 m2,
    wf_name n1 /\ wf_name n2 /\ u16 c1 /\ u16 c2 /\ u16 t1 /\ u16 t2 /\
    (n1 <> n2 /\ c1 <> c2 /\ t1 <> t2 /\ m1 <> m2) /\
    req_key_pinned n1 c1 t1 m1 = req_key_pinned n2 c2 t2 m2.
Proof.
  exists [], 257%N, 5%N, [48; 49]%N, [1; 1]%N, 5%N, 12337%N, [].
  split; [apply wf_name_nil|]. split.
  { exists [[1%N]]. split; [reflexivity|]. split; [|cbn; lia].
    constructor; [|constructor]. split; [cbn; lia|]. constructor; [unfold isbyte; lia|constructor]. }
  unfold u16. repeat split; try lia; try discriminate.
Qed.
