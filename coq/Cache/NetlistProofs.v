(* Cache/NetlistProofs.v — proofs about the model of internal/netlist and the ip marker (Cache/Netlist.v).
   All lemmas are closed (Qed, no axioms). *)
From Mos Require Import Base.Prelude Cache.Netlist.
From Coq Require Import ZifyN ZifyNat ZifyBool Permutation.

Definition valid (r : range) : Prop := (r_start r <= r_end r)%N.
Definition disjoint (a b : range) : Prop := (r_end a < r_start b)%N \/ (r_end b < r_start a)%N.
Fixpoint pairwise (R : range -> range -> Prop) (l : list range) : Prop :=
  match l with [] => True | x :: t => Forall (R x) t /\ pairwise R t end.

(* auxiliary relations *)
Definition le_start (a b : range) : Prop := (r_start a <= r_start b)%N.
Definition lt_es (a b : range) : Prop := (r_end a < r_start b)%N.

(* ------------------------------------------------------------------ *)
(* generic facts about pairwise                                        *)
(* ------------------------------------------------------------------ *)

Lemma disjoint_sym a b : disjoint a b -> disjoint b a.
Proof. unfold disjoint. tauto. Qed.

Lemma pairwise_perm (R : range -> range -> Prop) l l' :
  (forall a b, R a b -> R b a) -> Permutation l l' -> pairwise R l -> pairwise R l'.
Proof.
  intros Hs Hp. induction Hp; simpl; intros H.
  - exact I.
  - destruct H as [H1 H2]. split; auto. eapply Permutation_Forall; eauto.
  - destruct H as [H1 [H2 H3]]. inversion H1 as [|? ? Hyx Hyl]; subst.
    split; [|split]; auto.
  - auto.
Qed.

Lemma pairwise_nth (R : range -> range -> Prop) l : pairwise R l ->
  forall k1 k2 a b, nth_error l k1 = Some a -> nth_error l k2 = Some b -> k1 < k2 -> R a b.
Proof.
  induction l as [|x t IH]; intros H k1 k2 a b E1 E2 Hlt.
  - destruct k1; discriminate.
  - simpl in H. destruct H as [H1 H2]. destruct k2 as [|k2]; [lia|]. simpl in E2.
    destruct k1 as [|k1]; simpl in E1.
    + inversion E1; subst. rewrite Forall_forall in H1. apply H1. eapply nth_error_In; eauto.
    + eapply IH; eauto. lia.
Qed.

Lemma contains_disjoint a b ip :
  disjoint a b -> contains a ip = true -> contains b ip = true -> False.
Proof.
  unfold disjoint, contains. intros D Ha Hb.
  apply andb_true_iff in Ha. apply andb_true_iff in Hb.
  destruct Ha as [A1 A2]. destruct Hb as [B1 B2].
  apply N.leb_le in A1, A2, B1, B2. lia.
Qed.

Lemma disjoint_unique ip l : pairwise disjoint l ->
  forall a b, In a l -> In b l -> contains a ip = true -> contains b ip = true -> a = b.
Proof.
  induction l as [|x t IH]; intros H a b Ia Ib Ca Cb; [destruct Ia|].
  simpl in H. destruct H as [H1 H2]. rewrite Forall_forall in H1.
  destruct Ia as [Ea|Ia]; destruct Ib as [Eb|Ib].
  - congruence.
  - subst a. exfalso. eapply contains_disjoint; [apply (H1 b Ib)| |]; eauto.
  - subst b. exfalso. eapply contains_disjoint; [apply (H1 a Ia)| |]; eauto.
  - eapply IH; eauto.
Qed.

(* ------------------------------------------------------------------ *)
(* find                                                                *)
(* ------------------------------------------------------------------ *)

Lemma find_none' (f : range -> bool) l : (forall x, In x l -> f x = false) -> find f l = None.
Proof.
  induction l as [|x t IH]; intros H; simpl; auto.
  rewrite (H x) by (left; reflexivity). apply IH. intros y Hy. apply H. right; exact Hy.
Qed.

Lemma find_at (f : range -> bool) l : forall k r,
  nth_error l k = Some r -> f r = true ->
  (forall k' r', k' < k -> nth_error l k' = Some r' -> f r' = false) ->
  find f l = Some r.
Proof.
  induction l as [|x t IH]; intros k r E Hf Hb.
  - destruct k; discriminate.
  - destruct k as [|k]; simpl in E.
    + inversion E; subst. simpl. rewrite Hf. reflexivity.
    + simpl. rewrite (Hb 0 x) by (try lia; reflexivity).
      apply (IH k r E Hf). intros k' r' Hlt Hn. apply (Hb (S k') r'); [lia|exact Hn].
Qed.

Lemma find_perm ip l l' : Permutation l l' -> pairwise disjoint l ->
  find (fun r => contains r ip) l = find (fun r => contains r ip) l'.
Proof.
  intros Hp. induction Hp; intros Hd.
  - reflexivity.
  - simpl in *. destruct Hd as [_ Hd]. destruct (contains x ip); auto.
  - simpl in *. destruct Hd as [H1 _]. inversion H1 as [|? ? Hyx Hyl]; subst.
    destruct (contains y ip) eqn:Ey; destruct (contains x ip) eqn:Ex; auto.
    exfalso. eapply contains_disjoint; eauto.
  - rewrite IHHp1 by auto. apply IHHp2.
    eapply pairwise_perm; eauto. exact disjoint_sym.
Qed.

(* ------------------------------------------------------------------ *)
(* sorting                                                             *)
(* ------------------------------------------------------------------ *)

Lemma inverted_valid rs : existsb inverted rs = false <-> Forall valid rs.
Proof.
  induction rs as [|x t IH]; simpl.
  - split; auto.
  - rewrite orb_false_iff. unfold inverted at 1. rewrite N.ltb_ge. split.
    + intros [H1 H2]. constructor; [exact H1|apply IH; exact H2].
    + intros H. inversion H; subst. split; [assumption|apply IH; assumption].
Qed.

Lemma insert_perm r l : Permutation (r :: l) (insert r l).
Proof.
  induction l as [|x t IH]; simpl.
  - apply Permutation_refl.
  - destruct (r_start r <? r_start x)%N.
    + apply Permutation_refl.
    + eapply perm_trans; [apply perm_swap|]. apply perm_skip. exact IH.
Qed.

Lemma isort_cons a l : isort (a :: l) = insert a (isort l).
Proof. reflexivity. Qed.

Lemma isort_perm l : Permutation l (isort l).
Proof.
  induction l as [|a l IH].
  - constructor.
  - rewrite isort_cons. eapply perm_trans; [apply perm_skip, IH|apply insert_perm].
Qed.

Lemma insert_sorted r l : pairwise le_start l -> pairwise le_start (insert r l).
Proof.
  induction l as [|x t IH]; simpl; intros H.
  - split; auto.
  - destruct H as [H1 H2]. destruct (r_start r <? r_start x)%N eqn:E.
    + apply N.ltb_lt in E. simpl. split; [|split; auto].
      constructor.
      * unfold le_start; lia.
      * eapply Forall_impl; [|exact H1]. unfold le_start; intros; lia.
    + apply N.ltb_ge in E. simpl. split; auto.
      eapply Permutation_Forall; [apply insert_perm|]. constructor; auto.
Qed.

Lemma isort_sorted l : pairwise le_start (isort l).
Proof.
  induction l as [|a l IH].
  - exact I.
  - rewrite isort_cons. apply insert_sorted, IH.
Qed.

Lemma overlaps_cons2 x y t :
  overlaps (x :: y :: t) = ((r_start y <=? r_end x)%N || overlaps (y :: t)).
Proof. reflexivity. Qed.

Lemma overlaps_iff l : pairwise le_start l -> Forall valid l ->
  (overlaps l = false <-> pairwise disjoint l).
Proof.
  induction l as [|x t IH]; intros Hs Hv.
  - simpl; tauto.
  - destruct t as [|y t'].
    + simpl. split; auto.
    + rewrite overlaps_cons2.
      assert (Hs' := Hs). simpl in Hs'. destruct Hs' as [Hs1 Hs2].
      inversion Hv as [|? ? Hvx Hvt]; subst.
      specialize (IH Hs2 Hvt). rewrite orb_false_iff, N.leb_gt.
      split.
      * intros [H1 H2]. apply IH in H2.
        change (Forall (disjoint x) (y :: t') /\ pairwise disjoint (y :: t')).
        split; auto.
        constructor; [left; exact H1|].
        destruct Hs2 as [Hy _]. eapply Forall_impl; [|exact Hy].
        intros z Hz. left. unfold le_start in Hz. lia.
      * intros H. change (Forall (disjoint x) (y :: t') /\ pairwise disjoint (y :: t')) in H.
        destruct H as [H1 H2]. split; [|apply IH; exact H2].
        inversion H1 as [|? ? Dxy _]; subst. inversion Hs1 as [|? ? Lxy _]; subst.
        inversion Hvt as [|? ? Vy _]; subst.
        unfold disjoint, le_start, valid in *. lia.
Qed.

Lemma chain_of l : pairwise le_start l -> pairwise disjoint l -> Forall valid l -> pairwise lt_es l.
Proof.
  induction l as [|x t IH]; simpl; auto.
  intros [S1 S2] [D1 D2] Hv. inversion Hv as [|? ? Hx Ht]; subst. split; auto.
  rewrite Forall_forall in *. intros z Hz.
  specialize (S1 z Hz). specialize (D1 z Hz). specialize (Ht z Hz).
  unfold le_start, disjoint, valid, lt_es in *. lia.
Qed.

(* ------------------------------------------------------------------ *)
(* build                                                               *)
(* ------------------------------------------------------------------ *)

Lemma build_some rs es : build rs = Some es ->
  es = isort rs /\ Forall valid rs /\ overlaps (isort rs) = false.
Proof.
  unfold build. destruct (existsb inverted rs) eqn:Ei; [discriminate|].
  destruct (overlaps (isort rs)) eqn:Eo; [discriminate|].
  intros H. inversion H; subst. split; [reflexivity|]. split; [|reflexivity].
  apply inverted_valid; exact Ei.
Qed.

Lemma build_props rs es : build rs = Some es ->
  Permutation rs es /\ Forall valid rs /\ pairwise disjoint rs /\
  Forall valid es /\ pairwise disjoint es /\ pairwise lt_es es.
Proof.
  intros H. apply build_some in H. destruct H as [-> [Hv Ho]].
  pose proof (isort_perm rs) as Hp. pose proof (isort_sorted rs) as Hs.
  assert (Hv' : Forall valid (isort rs)) by (eapply Permutation_Forall; eauto).
  assert (Hd' : pairwise disjoint (isort rs)) by (apply overlaps_iff; auto).
  split; [exact Hp|]. split; [exact Hv|]. split.
  - eapply pairwise_perm; [exact disjoint_sym|apply Permutation_sym; exact Hp|exact Hd'].
  - split; [exact Hv'|]. split; [exact Hd'|]. apply chain_of; auto.
Qed.

(* 1 *)
Theorem build_ok_iff : forall rs,
  (exists es, build rs = Some es) <-> (Forall valid rs /\ pairwise disjoint rs).
Proof.
  intros rs. split.
  - intros [es H]. apply build_props in H. tauto.
  - intros [Hv Hd]. unfold build.
    apply inverted_valid in Hv as Hi. rewrite Hi.
    assert (Ho : overlaps (isort rs) = false).
    { apply overlaps_iff.
      - apply isort_sorted.
      - eapply Permutation_Forall; [apply isort_perm|exact Hv].
      - eapply pairwise_perm; [exact disjoint_sym|apply isort_perm|exact Hd]. }
    rewrite Ho. eauto.
Qed.

Theorem build_fail_iff : forall rs,
  build rs = None <-> ~ (Forall valid rs /\ pairwise disjoint rs).
Proof.
  intros rs. rewrite <- build_ok_iff. destruct (build rs) as [es|].
  - split; [discriminate|]. intros H. exfalso. apply H. eauto.
  - split; auto. intros _ [es H]. discriminate.
Qed.

(* ------------------------------------------------------------------ *)
(* binary search                                                       *)
(* ------------------------------------------------------------------ *)

Lemma search_go_eq fuel es ip i j :
  search_go fuel es ip i j =
  if j <=? i then Ok i else
  match fuel with
  | O => OutOfFuel
  | S f =>
    match nth_error es (Nat.div2 (i + j)) with
    | None => Panic
    | Some r => if (ip <? r_start r)%N then search_go f es ip i (Nat.div2 (i + j))
                else search_go f es ip (S (Nat.div2 (i + j))) j
    end
  end.
Proof. destruct fuel; reflexivity. Qed.

Lemma div2_bounds i j : i < j -> i <= Nat.div2 (i + j) < j.
Proof.
  intros H. pose proof (Nat.div2_odd (i + j)) as E.
  destruct (Nat.odd (i + j)); simpl Nat.b2n in E; lia.
Qed.

(* totality on any list *)
Lemma search_go_safe fuel : forall es ip i j,
  i <= j -> j <= length es -> j - i <= fuel ->
  exists c, search_go fuel es ip i j = Ok c /\ i <= c <= j.
Proof.
  induction fuel as [|f IH]; intros es ip i j Hij Hj Hf; rewrite search_go_eq.
  - destruct (j <=? i) eqn:E.
    + exists i. split; [reflexivity|lia].
    + apply Nat.leb_gt in E. lia.
  - destruct (j <=? i) eqn:E.
    + exists i. split; [reflexivity|lia].
    + apply Nat.leb_gt in E. pose proof (div2_bounds i j E) as Hh.
      destruct (nth_error es (Nat.div2 (i + j))) as [r|] eqn:En.
      * destruct (ip <? r_start r)%N.
        -- destruct (IH es ip i (Nat.div2 (i + j))) as [c [Hc Hb]]; try lia.
           exists c. split; [exact Hc|lia].
        -- destruct (IH es ip (S (Nat.div2 (i + j))) j) as [c [Hc Hb]]; try lia.
           exists c. split; [exact Hc|lia].
      * apply nth_error_None in En. lia.
Qed.

Definition below (es : list range) (ip : N) (i : nat) : Prop :=
  forall k r, nth_error es k = Some r -> k < i -> (r_start r <= ip)%N.
Definition above (es : list range) (ip : N) (j : nat) : Prop :=
  forall k r, nth_error es k = Some r -> j <= k -> (ip < r_start r)%N.
Definition mono (es : list range) : Prop :=
  forall k1 k2 r1 r2, nth_error es k1 = Some r1 -> nth_error es k2 = Some r2 -> k1 <= k2 ->
    (r_start r1 <= r_start r2)%N.

Lemma search_go_inv fuel : forall es ip i j c,
  mono es -> i <= j -> search_go fuel es ip i j = Ok c ->
  below es ip i -> above es ip j -> below es ip c /\ above es ip c.
Proof.
  induction fuel as [|f IH]; intros es ip i j c Hm Hij; rewrite search_go_eq; intros Hs Hb Ha.
  - destruct (j <=? i) eqn:E; [|discriminate]. inversion Hs; subst.
    apply Nat.leb_le in E. assert (c = j) by lia. subst. auto.
  - destruct (j <=? i) eqn:E.
    + inversion Hs; subst. apply Nat.leb_le in E. assert (c = j) by lia. subst. auto.
    + apply Nat.leb_gt in E. pose proof (div2_bounds i j E) as Hh.
      destruct (nth_error es (Nat.div2 (i + j))) as [r|] eqn:En; [|discriminate].
      destruct (ip <? r_start r)%N eqn:Ec.
      * apply N.ltb_lt in Ec. eapply IH in Hs; eauto; try lia.
        intros k r' Hk Hle. specialize (Hm _ _ _ _ En Hk Hle). lia.
      * apply N.ltb_ge in Ec. eapply IH in Hs; eauto; try lia.
        intros k r' Hk Hlt. assert (Hle : k <= Nat.div2 (i + j)) by lia.
        specialize (Hm _ _ _ _ Hk En Hle). lia.
Qed.

Lemma chain_mono es : Forall valid es -> pairwise lt_es es -> mono es.
Proof.
  intros Hv Hc k1 k2 r1 r2 E1 E2 Hle.
  destruct (Nat.eq_dec k1 k2) as [->|Hne].
  - rewrite E1 in E2. inversion E2; subst. lia.
  - assert (Hlt : k1 < k2) by lia.
    pose proof (pairwise_nth _ _ Hc _ _ _ _ E1 E2 Hlt) as H. unfold lt_es in H.
    rewrite Forall_forall in Hv. pose proof (Hv r1 (nth_error_In _ _ E1)) as V. unfold valid in V. lia.
Qed.

Lemma lookup_chain es ip : Forall valid es -> pairwise lt_es es ->
  lookup es ip = Ok (linear_spec es ip).
Proof.
  intros Hv Hc. pose proof (chain_mono es Hv Hc) as Hm.
  unfold lookup, search.
  destruct (search_go_safe (length es) es ip 0 (length es)) as [c [Hs Hb]]; try lia.
  assert (Hinv : below es ip c /\ above es ip c).
  { eapply (search_go_inv _ _ _ _ _ _ Hm (Nat.le_0_l _) Hs).
    - intros k r _ H; lia.
    - intros k r Hk Hle. assert (k < length es) by (apply nth_error_Some; congruence). lia. }
  destruct Hinv as [Hbel Habv].
  rewrite Hs. cbn [bind]. unfold linear_spec.
  destruct c as [|k].
  - rewrite find_none'; [reflexivity|].
    intros x Hx. apply In_nth_error in Hx. destruct Hx as [n Hn].
    assert (A : (ip < r_start x)%N) by (apply (Habv n x Hn); lia).
    unfold contains. apply andb_false_iff; left. apply N.leb_gt; exact A.
  - destruct (nth_error es k) as [r|] eqn:Ek; [|apply nth_error_None in Ek; lia].
    assert (Hr : (r_start r <= ip)%N) by (apply (Hbel k r Ek); lia).
    assert (Hbefore : forall k' r', k' < k -> nth_error es k' = Some r' -> contains r' ip = false).
    { intros k' r' Hlt Hn. pose proof (pairwise_nth _ _ Hc _ _ _ _ Hn Ek Hlt) as H.
      unfold lt_es in H. unfold contains. apply andb_false_iff; right. apply N.leb_gt. lia. }
    destruct (contains r ip) eqn:Ect.
    + rewrite (find_at (fun r0 => contains r0 ip) es k r Ek Ect Hbefore). reflexivity.
    + rewrite find_none'; [reflexivity|].
      intros x Hx. apply In_nth_error in Hx. destruct Hx as [n Hn].
      destruct (Nat.lt_trichotomy n k) as [Hlt|[Heq|Hgt]].
      * eapply Hbefore; eauto.
      * subst n. rewrite Ek in Hn. inversion Hn; subst. exact Ect.
      * assert (A : (ip < r_start x)%N) by (apply (Habv n x Hn); lia).
        unfold contains. apply andb_false_iff; left. apply N.leb_gt; exact A.
Qed.

(* 2 *)
Theorem lookup_spec : forall rs es ip, build rs = Some es -> lookup es ip = Ok (linear_spec rs ip).
Proof.
  intros rs es ip H. apply build_props in H.
  destruct H as [Hp [Hv [Hd [Hv' [Hd' Hc]]]]].
  rewrite lookup_chain by assumption. unfold linear_spec.
  rewrite (find_perm ip rs es Hp Hd). reflexivity.
Qed.

(* 3 *)
Theorem lookup_safe : forall es ip, exists r, lookup es ip = Ok r.
Proof.
  intros es ip. unfold lookup, search.
  destruct (search_go_safe (length es) es ip 0 (length es)) as [c [Hs Hb]]; try lia.
  rewrite Hs. cbn [bind]. destruct c as [|k]; [eauto|].
  destruct (nth_error es k) as [r|] eqn:Ek; [eauto|].
  apply nth_error_None in Ek. lia.
Qed.

(* 4 *)
Theorem lookup_sound : forall rs es ip lb, build rs = Some es -> lookup es ip = Ok (Some lb) ->
  exists r, In r rs /\ contains r ip = true /\ r_val r = lb.
Proof.
  intros rs es ip lb Hb Hl. rewrite (lookup_spec rs es ip Hb) in Hl.
  inversion Hl as [Hl']. unfold linear_spec in Hl'.
  destruct (find (fun r => contains r ip) rs) as [r|] eqn:Ef; [|discriminate].
  apply find_some in Ef. destruct Ef as [Hin Hc]. simpl in Hl'. inversion Hl'; subst.
  exists r. auto.
Qed.

Theorem lookup_complete : forall rs es ip r, build rs = Some es -> In r rs -> contains r ip = true ->
  lookup es ip = Ok (Some (r_val r)).
Proof.
  intros rs es ip r Hb Hin Hc. rewrite (lookup_spec rs es ip Hb).
  apply build_props in Hb. destruct Hb as [_ [_ [Hd _]]].
  unfold linear_spec.
  destruct (find (fun r => contains r ip) rs) as [r'|] eqn:Ef.
  - apply find_some in Ef. destruct Ef as [Hin' Hc'].
    rewrite (disjoint_unique ip rs Hd r' r Hin' Hin Hc' Hc). reflexivity.
  - pose proof (find_none _ _ Ef r Hin) as H. simpl in H. congruence.
Qed.

(* 5 *)
Theorem v4_mapped_same : forall m x,
  mark_of m (Some (NlA4 x)) = mark_of m (Some (NlA6 (v4_prefix + x)%N)).
Proof. intros m x. destruct m; reflexivity. Qed.

(* 6 *)
Theorem load_marker_spec : forall ls,
  load_marker ls = if existsb is_bad ls then None else build (ranges_of ls).
Proof. reflexivity. Qed.

Print Assumptions lookup_spec.
Print Assumptions build_ok_iff.
