(* Cache/CacheTierProofs.v — proofs about the two-tier cache model Cache/CacheTier.v (C08, round 2). *)
From Mos Require Import Base.Prelude Codec.Msg Cache.CachePolicy Cache.CachePolicyProofs Cache.CacheTier.
From Coq Require Import Lia ZArith.

Local Open Scope Z_scope.

(* ------------------------------------------------------------------ the redis map *)
Lemma rfind_remove k k' m : ct_rfind k' (ct_rremove k m) = if (k =? k')%N then None else ct_rfind k' m.
Proof.
  induction m as [|[k0 e0] m IH]; cbn [ct_rremove ct_rfind].
  - now destruct (k =? k')%N.
  - destruct (k =? k0)%N eqn:E0.
    + apply N.eqb_eq in E0; subst k0. rewrite IH. destruct (k =? k')%N eqn:E1; [reflexivity|].
      rewrite N.eqb_sym, E1. reflexivity.
    + cbn [ct_rfind]. rewrite IH. destruct (k' =? k0)%N eqn:E2; [|reflexivity].
      apply N.eqb_eq in E2; subst k0. now rewrite E0.
Qed.

Lemma rfind_put k e k' m : ct_rfind k' (ct_rput k e m) = if (k' =? k)%N then Some e else ct_rfind k' m.
Proof.
  unfold ct_rput. cbn [ct_rfind]. destruct (k' =? k)%N eqn:E; [reflexivity|].
  rewrite rfind_remove, N.eqb_sym, E. reflexivity.
Qed.

Lemma unix_floor_le t : unix_floor t <= t.
Proof. unfold unix_floor, SECOND. pose proof (Z.mul_div_le t 1000000000 ltac:(lia)). lia. Qed.

Lemma unix_floor_gt t : t < unix_floor t + SECOND.
Proof.
  unfold unix_floor, SECOND. pose proof (Z.div_mod t 1000000000 ltac:(lia)).
  pose proof (Z.mod_pos_bound t 1000000000 ltac:(lia)). lia.
Qed.

(* what redis_set does to the binding of a key: nothing, or a new entry whose deadline is not after expire *)
Lemma redis_set_find r now stored expire k v nx k' e :
  ct_rfind k' (redis_set r now stored expire k v nx) = Some e ->
  ct_rfind k' r = Some e \/
  (k' = k /\ e = mkREntry (unix_floor stored) (unix_floor expire) v (now + Z.quot (expire - now) MILLI * MILLI) /\
   10 < Z.quot (expire - now) MILLI).
Proof.
  unfold redis_set. destruct (Z.quot (expire - now) MILLI <=? 10) eqn:E10; [auto|].
  apply Z.leb_gt in E10.
  assert (Hput : ct_rfind k' (ct_rput k (mkREntry (unix_floor stored) (unix_floor expire) v
                                  (now + Z.quot (expire - now) MILLI * MILLI)) r) = Some e ->
                 ct_rfind k' r = Some e \/
                 (k' = k /\ e = mkREntry (unix_floor stored) (unix_floor expire) v (now + Z.quot (expire - now) MILLI * MILLI) /\
                  10 < Z.quot (expire - now) MILLI)).
  { rewrite rfind_put. destruct (k' =? k)%N eqn:Ek; [|auto].
    apply N.eqb_eq in Ek. intros H; inversion H; subst. right. auto. }
  destruct (ct_rfind k r) as [old|]; [|exact Hput].
  destruct (nx && (now <? re_dead old)); [auto|exact Hput].
Qed.

(* ------------------------------------------------------------------ invariant: redis deadlines *)
Definition rentry_ok (e : ct_rentry) : Prop := re_dead e < re_expire e + SECOND.

Definition red_ok (st : ct_state) : Prop := forall k e, ct_rfind k (ct_red st) = Some e -> rentry_ok e.

Lemma new_rentry_ok now stored expire v :
  10 < Z.quot (expire - now) MILLI ->
  rentry_ok (mkREntry (unix_floor stored) (unix_floor expire) v (now + Z.quot (expire - now) MILLI * MILLI)).
Proof.
  unfold rentry_ok, MILLI. cbn [re_dead re_expire]. intros H.
  assert (0 <= expire - now) by (destruct (Z_lt_le_dec (expire - now) 0) as [Hn|]; [|lia];
    pose proof (Z.quot_opp_l (expire - now) 1000000 ltac:(lia));
    pose proof (Z.quot_pos (- (expire - now)) 1000000 ltac:(lia) ltac:(lia)); lia).
  pose proof (Z.mul_quot_le (expire - now) 1000000 ltac:(lia) ltac:(lia)).
  pose proof (unix_floor_gt expire). lia.
Qed.

Lemma red_ok_set st now stored expire k v nx :
  red_ok st -> red_ok (mkCt (ct_mem st) (redis_set (ct_red st) now stored expire k v nx)).
Proof.
  intros Hr k' e Hf. cbn [ct_red] in Hf. apply redis_set_find in Hf.
  destruct Hf as [Hf|(_ & -> & H10)]; [eapply Hr; eauto|apply new_rentry_ok; exact H10].
Qed.

(* ------------------------------------------------------------------ one step keeps both invariants *)
Lemma store_skipped_same mx st t eps k resp pk st' :
  cachectl_store mx st t eps k resp pk = (st', OSkipped) -> st' = st.
Proof.
  unfold cachectl_store. destruct resp as [m0|]; [|intros H; now inversion H].
  destruct (h_tc (m_hdr m0)); [intros H; now inversion H|].
  destruct (negb pk); [intros H; now inversion H|].
  destruct (mem_store _ _ _ _ _ _ _) as [s2 [|]]; intros H; inversion H.
Qed.

Lemma store_none_skipped mx st t eps k pk st' o :
  cachectl_store mx st t eps k None pk = (st', o) -> st' = st /\ o = OSkipped.
Proof. cbn. intros H; inversion H; auto. Qed.

Lemma ct_store_mem mx st t eps k resp pk :
  ct_mem (fst (ct_store mx st t eps k resp pk)) = fst (cachectl_store mx (ct_mem st) t eps k resp pk).
Proof.
  unfold ct_store. destruct (cachectl_store mx (ct_mem st) t eps k resp pk) as [mem' o] eqn:Es. cbn [fst].
  destruct o; try (apply store_skipped_same in Es; subst; reflexivity);
    (destruct resp as [m0|]; [reflexivity|apply store_none_skipped in Es; destruct Es as [-> _]; reflexivity]).
Qed.

Lemma ct_store_red mx st t eps k resp pk k' e :
  ct_rfind k' (ct_red (fst (ct_store mx st t eps k resp pk))) = Some e ->
  ct_rfind k' (ct_red st) = Some e \/
  (exists m, resp = Some m /\ h_tc (m_hdr m) = false /\ pk = true /\ k' = k /\
     e = mkREntry (unix_floor t) (unix_floor (t + msg_lifetime mx m)) m
                  (t + eps + Z.quot (t + msg_lifetime mx m - (t + eps)) MILLI * MILLI) /\
     10 < Z.quot (t + msg_lifetime mx m - (t + eps)) MILLI).
Proof.
  unfold ct_store. destruct (cachectl_store mx (ct_mem st) t eps k resp pk) as [mem' o] eqn:Es.
  assert (Hres : o <> OSkipped -> exists m, resp = Some m /\ h_tc (m_hdr m) = false /\ pk = true).
  { revert Es. unfold cachectl_store. destruct resp as [m|]; [|intros H; inversion H; congruence].
    destruct (h_tc (m_hdr m)) eqn:Et; [intros H; inversion H; congruence|].
    destruct pk; cbn [negb]; [|intros H; inversion H; congruence]. eauto. }
  destruct o; try (cbn [fst ct_red]; auto; fail);
    (destruct (Hres ltac:(discriminate)) as (m1 & -> & Ht & ->); cbn [fst ct_red]; intros Hf;
     apply redis_set_find in Hf; destruct Hf as [Hf|(-> & -> & H10)]; [auto|right; exists m1; repeat split; auto]).
Qed.

Definition ct_inv (st : ct_state) : Prop := inv_clk (ct_mem st) /\ red_ok st.

Lemma ct_inv_init clk : ct_inv (ct_init clk).
Proof. split; [apply inv_clk_init|intros k e H; discriminate]. Qed.

Lemma red_ok_remove st k : red_ok st -> forall m', red_ok (mkCt m' (ct_rremove k (ct_red st))).
Proof.
  intros Hr m' k' e Hf. cbn [ct_red] in Hf. rewrite rfind_remove in Hf.
  destruct (k =? k')%N; [discriminate|eapply Hr; eauto].
Qed.

Lemma ct_inv_step lag mx st ev :
  SECOND <= mx -> ct_inv st -> ct_ev_ok lag mx st ev -> ct_inv (fst (ct_step mx st ev)).
Proof.
  intros Hmx [Hc Hr] Hok. destruct ev as [c|k|k|t eps k resp pk|t k|now s0 x0 k v nx|k]; cbn [ct_step].
  - split; cbn [fst ct_mem]; [exact (inv_clk_step lag mx (ct_mem st) (EvTick c) Hmx Hc I)|exact Hr].
  - pose proof (inv_clk_step lag mx (ct_mem st) (EvCollect k) Hmx Hc I) as H1.
    destruct (cp_step mx (ct_mem st) (EvCollect k)) as [m' o]. split; [exact H1|exact Hr].
  - pose proof (inv_clk_step lag mx (ct_mem st) (EvEvict k) Hmx Hc I) as H1.
    destruct (cp_step mx (ct_mem st) (EvEvict k)) as [m' o]. split; [exact H1|exact Hr].
  - split.
    + rewrite ct_store_mem. exact (inv_clk_step lag mx (ct_mem st) (EvStore t eps k resp pk) Hmx Hc Hok).
    + intros k' e Hf. apply ct_store_red in Hf.
      destruct Hf as [Hf|(m & _ & _ & _ & _ & -> & H10)]; [eapply Hr; eauto|apply new_rentry_ok; exact H10].
  - unfold ct_get. destruct (snd (cachectl_get (ct_mem st) t k)); try (split; [exact Hc|exact Hr]);
      (destruct (ct_rfind k (ct_red st)) as [e|] eqn:Ef; [|split; [exact Hc|exact Hr]];
       destruct (t <? re_dead e) eqn:El; cbn [fst];
       [|split; [exact Hc|apply red_ok_remove; exact Hr]];
       split; [|exact Hr]; cbn [ct_mem];
       apply Z.ltb_lt in El; destruct Hok as (_ & Hclk & Hw);
       apply (inv_clk_step lag mx (ct_mem st) (EvStoreAt t (re_stored e) (re_expire e) k (re_msg e) true) Hmx Hc);
       cbn [ev_ok]; pose proof (Hr k e Ef) as Hd; unfold rentry_ok in Hd; repeat split; [exact Hclk|lia|exact (Hw e Ef)]).
  - split; [exact Hc|apply red_ok_set; exact Hr].
  - split; [exact Hc|apply red_ok_remove; exact Hr].
Qed.

Lemma ct_run_snoc mx st evs ev :
  fst (ct_run mx st (evs ++ [ev])) = fst (ct_step mx (fst (ct_run mx st evs)) ev).
Proof.
  revert st. induction evs as [|e0 evs IH]; intros st; cbn [app ct_run fst].
  - destruct (ct_step mx st ev). reflexivity.
  - destruct (ct_step mx st e0) as [st1 o]. specialize (IH st1).
    destruct (ct_run mx st1 (evs ++ [ev])) as [a b]. destruct (ct_run mx st1 evs) as [c d]. cbn [fst] in *. exact IH.
Qed.

Lemma ct_hist_ok_app lag mx st evs1 evs2 :
  ct_hist_ok lag mx st (evs1 ++ evs2) <->
  ct_hist_ok lag mx st evs1 /\ ct_hist_ok lag mx (fst (ct_run mx st evs1)) evs2.
Proof.
  revert st. induction evs1 as [|ev evs1 IH]; intros st; cbn [app ct_hist_ok ct_run].
  - cbn. tauto.
  - destruct (ct_step mx st ev) as [st1 o] eqn:Es. cbn [fst]. rewrite IH.
    destruct (ct_run mx st1 evs1) as [st2 os]. cbn [fst]. tauto.
Qed.

Lemma ct_inv_run lag mx evs : SECOND <= mx -> forall st,
  ct_inv st -> ct_hist_ok lag mx st evs -> ct_inv (fst (ct_run mx st evs)).
Proof.
  intros Hmx. induction evs as [|ev evs IH]; intros st Hinv Hok; cbn [ct_run].
  - exact Hinv.
  - destruct Hok as [Hev Hrest]. pose proof (ct_inv_step lag mx st ev Hmx Hinv Hev) as H1.
    destruct (ct_step mx st ev) as [st1 o]. cbn [fst] in *.
    specialize (IH st1 H1 Hrest). destruct (ct_run mx st1 evs). exact IH.
Qed.

(* ------------------------------------------------------------------ a hit of the two-tier Get *)
Lemma ct_get_hit st t k st' m' s x :
  ct_get st t k = (st', OHit m' s x) ->
  (exists e, cp_find k (st_map (ct_mem st)) = Some e /\ has_expired (st_clk (ct_mem st)) e = false /\
             s = e_stored e /\ x = e_expire e /\ m' = subtract_ttl (elapsed_secs t s) (e_msg e)) \/
  (exists e, ct_rfind k (ct_red st) = Some e /\ t < re_dead e /\
             s = re_stored e /\ x = re_expire e /\ m' = subtract_ttl (elapsed_secs t s) (re_msg e)).
Proof.
  unfold ct_get. destruct (cachectl_get (ct_mem st) t k) as [stm o] eqn:Eg. cbn [snd].
  assert (Hred : match ct_rfind k (ct_red st) with
                 | Some e =>
                     if t <? re_dead e
                     then (mkCt (fst (mem_store_at (ct_mem st) t (re_stored e) (re_expire e) k (re_msg e) true)) (ct_red st),
                           OHit (subtract_ttl (elapsed_secs t (re_stored e)) (re_msg e)) (re_stored e) (re_expire e))
                     else (mkCt (ct_mem st) (ct_rremove k (ct_red st)), OMiss)
                 | None => (st, OMiss)
                 end = (st', OHit m' s x) ->
          exists e, ct_rfind k (ct_red st) = Some e /\ t < re_dead e /\
             s = re_stored e /\ x = re_expire e /\ m' = subtract_ttl (elapsed_secs t s) (re_msg e)).
  { destruct (ct_rfind k (ct_red st)) as [e|]; [|discriminate].
    destruct (t <? re_dead e) eqn:El; [|discriminate]. apply Z.ltb_lt in El.
    intros H; inversion H; subst. exists e. repeat split; auto. }
  destruct o; try (intros H; right; exact (Hred H)).
  intros H; inversion H; subst. left.
  apply get_hit in Eg. destruct Eg as (e & Hf & Hx & _ & -> & -> & ->). exists e. repeat split; auto.
Qed.

(* expiry across both tiers: a hit at wall time t lies before expire + lag, wherever it came from and whenever the
   answer was copied into the memory cache *)
Lemma ct_hit_before_expiry lag mx clk0 evs t k st' m' s x :
  SECOND <= mx -> SECOND <= lag ->
  ct_hist_ok lag mx (ct_init clk0) (evs ++ [CtGet t k]) ->
  ct_get (fst (ct_run mx (ct_init clk0) evs)) t k = (st', OHit m' s x) ->
  t < x + lag.
Proof.
  intros Hmx Hlag Hok H. apply ct_hist_ok_app in Hok. destruct Hok as [Hok1 [Hget _]].
  pose proof (ct_inv_run lag mx evs Hmx (ct_init clk0) (ct_inv_init clk0) Hok1) as [Hc Hr].
  destruct Hget as (Hg & _ & _).
  apply ct_get_hit in H. destruct H as [(e & Hf & Hx & _ & -> & _)|(e & Hf & Hl & _ & -> & _)].
  - exact (live_before_expiry lag _ e t (Hc k e Hf) Hx Hg).
  - pose proof (Hr k e Hf) as Hd. unfold rentry_ok in Hd. lia.
Qed.

(* ------------------------------------------------------------------ where the answers come from *)
Definition mem_src (mx : Z) (hist : list ct_event) (st : ct_state) : Prop :=
  forall k e, cp_find k (st_map (ct_mem st)) = Some e -> ct_src mx hist k (e_msg e) (e_stored e) (e_expire e).
Definition red_src (mx : Z) (hist : list ct_event) (st : ct_state) : Prop :=
  forall k e, ct_rfind k (ct_red st) = Some e -> ct_src mx hist k (re_msg e) (re_stored e) (re_expire e).

Lemma ct_src_mono mx hist ev k m s x : ct_src mx hist k m s x -> ct_src mx (hist ++ [ev]) k m s x.
Proof.
  intros [(s0 & eps & Hin & H)|(now & s0 & x0 & nx & Hin & H)]; [left|right].
  - exists s0, eps. split; [apply in_or_app; now left|exact H].
  - exists now, s0, x0, nx. split; [apply in_or_app; now left|exact H].
Qed.

Lemma src_step mx hist st ev :
  mem_src mx hist st /\ red_src mx hist st ->
  mem_src mx (hist ++ [ev]) (fst (ct_step mx st ev)) /\ red_src mx (hist ++ [ev]) (fst (ct_step mx st ev)).
Proof.
  intros [Hm Hr].
  assert (Hm' : mem_src mx (hist ++ [ev]) st) by (intros k e Hf; apply ct_src_mono, Hm, Hf).
  assert (Hr' : red_src mx (hist ++ [ev]) st) by (intros k e Hf; apply ct_src_mono, Hr, Hf).
  destruct ev as [c|k|k|t eps k resp pk|t k|now s0 x0 k v nx|k]; cbn [ct_step].
  - split; [exact Hm'|exact Hr'].
  - cbn [cp_step]. destruct (cp_find k (st_map (ct_mem st))) as [e0|] eqn:Ef; [|split; [exact Hm'|exact Hr']].
    destruct (has_expired (st_clk (ct_mem st)) e0); [|split; [exact Hm'|exact Hr']].
    split; [|exact Hr']. intros k' e Hf. cbn [fst ct_mem st_map] in Hf. rewrite find_remove in Hf.
    destruct (k =? k')%N; [discriminate|apply Hm', Hf].
  - cbn [cp_step]. split; [|exact Hr']. intros k' e Hf. cbn [fst ct_mem st_map] in Hf. rewrite find_remove in Hf.
    destruct (k =? k')%N; [discriminate|apply Hm', Hf].
  - split.
    + intros k' e Hf. rewrite ct_store_mem in Hf.
      destruct (cachectl_store mx (ct_mem st) t eps k resp pk) as [mem' o] eqn:Es. cbn [fst] in Hf.
      assert (Hcases : mem' = ct_mem st \/ exists L, o = OStored L).
      { revert Es. unfold cachectl_store. destruct resp as [m|]; [|intros H; inversion H; auto].
        destruct (h_tc (m_hdr m)); [intros H; inversion H; auto|].
        destruct (negb pk); [intros H; inversion H; auto|].
        destruct (mem_store _ _ _ _ _ _ _) as [s2 [|]] eqn:Em; intros H; inversion H; subst; eauto.
        revert Em. unfold mem_store. destruct (negative m); [|intros H'; inversion H'].
        destruct (cp_find k (st_map (ct_mem st))); intros H'; inversion H'; auto. }
      destruct Hcases as [->|(L & ->)]; [apply Hm', Hf|].
      apply store_writes in Es. destruct Es as (m & -> & Ht & -> & -> & _ & ->). cbn [st_map] in Hf.
      rewrite find_put in Hf. destruct (k' =? k)%N eqn:Ek; [|apply Hm', Hf].
      apply N.eqb_eq in Ek; subst k'. inversion Hf; subst e; clear Hf. cbn [e_msg e_stored e_expire].
      left. exists t, eps. split; [apply in_or_app; right; now left|]. split; [exact Ht|]. left. auto.
    + intros k' e Hf. apply ct_store_red in Hf.
      destruct Hf as [Hf|(m & -> & Ht & -> & -> & -> & _)]; [apply Hr', Hf|]. cbn [re_msg re_stored re_expire].
      left. exists t, eps. split; [apply in_or_app; right; now left|]. split; [exact Ht|]. right. auto.
  - unfold ct_get. destruct (snd (cachectl_get (ct_mem st) t k)); try (split; [exact Hm'|exact Hr']);
      (destruct (ct_rfind k (ct_red st)) as [e|] eqn:Ef; [|split; [exact Hm'|exact Hr']];
       destruct (t <? re_dead e); cbn [fst];
       [split; [|exact Hr'];
        intros k' e' Hf; cbn [ct_mem] in Hf;
        destruct (mem_store_at (ct_mem st) t (re_stored e) (re_expire e) k (re_msg e) true) as [m2 o2] eqn:Es;
        cbn [fst] in Hf; apply store_at_cases in Es; destruct Es as [(-> & _)|(_ & ->)]; [apply Hm', Hf|];
        cbn [st_map] in Hf; rewrite find_put in Hf; destruct (k' =? k)%N eqn:Ek; [|apply Hm', Hf];
        apply N.eqb_eq in Ek; subst k'; inversion Hf; subst e'; cbn [e_msg e_stored e_expire]; apply Hr', Ef
       |split; [exact Hm'|];
        intros k' e' Hf; cbn [ct_red] in Hf; rewrite rfind_remove in Hf;
        destruct (k =? k')%N; [discriminate|apply Hr', Hf]]).
  - split; [exact Hm'|]. intros k' e Hf. cbn [fst ct_red] in Hf. apply redis_set_find in Hf.
    destruct Hf as [Hf|(-> & -> & _)]; [apply Hr', Hf|]. cbn [re_msg re_stored re_expire].
    right. exists now, s0, x0, nx. split; [apply in_or_app; right; now left|auto].
  - split; [exact Hm'|]. intros k' e Hf. cbn [fst ct_red] in Hf. rewrite rfind_remove in Hf.
    destruct (k =? k')%N; [discriminate|apply Hr', Hf].
Qed.

Lemma src_run mx evs : forall hist st,
  mem_src mx hist st /\ red_src mx hist st ->
  mem_src mx (hist ++ evs) (fst (ct_run mx st evs)) /\ red_src mx (hist ++ evs) (fst (ct_run mx st evs)).
Proof.
  induction evs as [|ev evs IH] using rev_ind; intros hist st H.
  - rewrite app_nil_r. exact H.
  - rewrite app_assoc, ct_run_snoc. apply src_step, IH, H.
Qed.

Lemma src_reachable mx clk evs :
  mem_src mx evs (fst (ct_run mx (ct_init clk) evs)) /\ red_src mx evs (fst (ct_run mx (ct_init clk) evs)).
Proof.
  apply (src_run mx evs [] (ct_init clk)). split; intros k e H; discriminate.
Qed.

(* TTL ageing across both tiers: a hit returns a message that this proxy (or another instance) stored for this key,
   aged by the whole seconds since its storedTime s; and s is never LATER than the instant s0 of the original Store
   (it is s0 itself, or s0 cut to the whole second when it travelled through redis), so the served TTLs are never
   above max 1 (ttl - whole seconds since the fetch) *)
Lemma ct_hit_ttl_bound mx clk0 evs t k st' m' s x :
  ct_get (fst (ct_run mx (ct_init clk0) evs)) t k = (st', OHit m' s x) ->
  exists m, ct_src mx evs k m s x /\
    m' = subtract_ttl (elapsed_secs t s) m /\
    Forall2 (rr_aged (elapsed_secs t s)) (rrs m) (rrs m') /\
    m_hdr m' = m_hdr m /\ m_qs m' = m_qs m /\
    (0 <= t - s < two32 * SECOND -> Z.of_N (elapsed_secs t s) = (t - s) / SECOND).
Proof.
  intros H. destruct (src_reachable mx clk0 evs) as [Hm Hr].
  apply ct_get_hit in H. destruct H as [(e & Hf & _ & -> & -> & ->)|(e & Hf & _ & -> & -> & ->)].
  - exists (e_msg e). split; [apply Hm, Hf|].
    pose proof (subtract_ttl_spec (elapsed_secs t (e_stored e)) (e_msg e)) as (S1 & S2 & S3 & _).
    repeat split; auto. apply elapsed_secs_floor.
  - exists (re_msg e). split; [apply Hr, Hf|].
    pose proof (subtract_ttl_spec (elapsed_secs t (re_stored e)) (re_msg e)) as (S1 & S2 & S3 & _).
    repeat split; auto. apply elapsed_secs_floor.
Qed.

(* the recorded instants never flatter the answer: storedTime <= original fetch, expireTime <= original expiry *)
Lemma ct_src_own_bounds mx hist k m s x s0 eps :
  In (CtStore s0 eps k (Some m) true) hist ->
  ((s = s0 /\ x = s0 + msg_lifetime mx m) \/ (s = unix_floor s0 /\ x = unix_floor (s0 + msg_lifetime mx m))) ->
  s <= s0 /\ x <= s0 + msg_lifetime mx m.
Proof.
  intros _ [[-> ->]|[-> ->]]; [lia|]. split; apply unix_floor_le.
Qed.

Lemma ct_ev_okb_sound lag mx st ev : ct_ev_okb lag mx st ev = true -> ct_ev_ok lag mx st ev.
Proof.
  destruct ev as [c|k|k|t eps k resp pk|t k|now s0 x0 k v nx|k]; cbn [ct_ev_okb ct_ev_ok]; auto.
  - apply ev_okb_sound.
  - rewrite !andb_true_iff. intros [[H1 H2] H3]. apply Z.ltb_lt in H1. apply Z.leb_le in H2.
    repeat split; auto. intros e Hf. rewrite Hf in H3. apply Z.ltb_lt in H3. exact H3.
Qed.

Lemma ct_hist_okb_sound lag mx evs : forall st, ct_hist_okb lag mx st evs = true -> ct_hist_ok lag mx st evs.
Proof.
  induction evs as [|ev evs IH]; intros st; cbn [ct_hist_okb ct_hist_ok]; auto.
  rewrite andb_true_iff. intros [H1 H2]. split; [apply ct_ev_okb_sound, H1|apply IH, H2].
Qed.

(* ================================================================== round 4: set-if-absent in both tiers; redis-only *)
Lemma ctc_step_true mx st ev : ctc_step true mx st ev = ct_step mx st ev.
Proof. destruct ev; reflexivity. Qed.

Lemma ctc_run_true mx evs : forall st, ctc_run true mx st evs = ct_run mx st evs.
Proof.
  induction evs as [|ev evs IH]; intros st; cbn [ctc_run ct_run]; [reflexivity|].
  rewrite ctc_step_true. destruct (ct_step mx st ev) as [st1 o]. rewrite IH. reflexivity.
Qed.

(* redis: SET ... NX onto a live value changes nothing *)
Lemma redis_set_nx_live r now stored expire k v e :
  ct_rfind k r = Some e -> now < re_dead e -> redis_set r now stored expire k v true = r.
Proof.
  intros Hf Hl. unfold redis_set. destruct (Z.quot (expire - now) MILLI <=? 10); [reflexivity|].
  rewrite Hf. apply Z.ltb_lt in Hl. rewrite Hl. reflexivity.
Qed.

(* an error response is stored set-if-absent in both tiers: neither a present memory node nor a live redis value is
   displaced - with or without a memory backend *)
Lemma tier_negative_keeps hm mx st t eps k m pk :
  negative m = true ->
  let st1 := fst (ctc_store hm mx st t eps k (Some m) pk) in
  (forall e, cp_find k (st_map (ct_mem st)) = Some e -> ct_mem st1 = ct_mem st) /\
  (forall e, ct_rfind k (ct_red st) = Some e -> t + eps < re_dead e -> ct_red st1 = ct_red st).
Proof.
  intros Hn. destruct hm; cbn [ctc_store].
  - split.
    + intros e Hf. rewrite ct_store_mem.
      destruct (store_negative_keeps mx (ct_mem st) t eps k m pk e Hn Hf) as (o & -> & _). reflexivity.
    + intros e Hf Hl. unfold ct_store.
      destruct (cachectl_store mx (ct_mem st) t eps k (Some m) pk) as [mem' o].
      destruct o; cbn [fst ct_red]; try reflexivity; rewrite Hn; apply (redis_set_nx_live _ _ _ _ _ _ e Hf Hl).
  - split; [intros e Hf|intros e Hf Hl];
      (destruct (h_tc (m_hdr m)); [reflexivity|]; destruct (negb pk); [reflexivity|]; cbn [fst ct_mem ct_red]).
    + reflexivity.
    + rewrite Hn. apply (redis_set_nx_live _ _ _ _ _ _ e Hf Hl).
Qed.

Lemma tier_negative_nx_history hm mx evs : forall st, ct_steps_sat (ct_neg_keeps hm mx) hm mx st evs.
Proof.
  induction evs as [|ev evs IH]; intros st; cbn [ct_steps_sat]; [exact I|]. split; [|apply IH].
  destruct ev as [c|k|k|t eps k resp pk|t k|now s0 x0 k v nx|k]; cbn [ct_neg_keeps]; auto.
  destruct resp as [m|]; auto. intros Hn. cbn [ctc_step]. apply tier_negative_keeps. exact Hn.
Qed.

(* the clause as the client sees it, redis-only configuration: while redis holds a live answer for the key, storing an
   error response for it changes no later lookup *)
Lemma redis_only_error_invisible mx st t eps k m pk e :
  negative m = true -> ct_rfind k (ct_red st) = Some e -> t + eps < re_dead e ->
  forall t2 k2, snd (ctc_get false (fst (ctc_store false mx st t eps k (Some m) pk)) t2 k2) = snd (ctc_get false st t2 k2).
Proof.
  intros Hn Hf Hl t2 k2.
  destruct (tier_negative_keeps false mx st t eps k m pk Hn) as [_ Hr]. specialize (Hr e Hf Hl).
  unfold ctc_get. cbn [ctc_store] in *. rewrite Hr.
  destruct (ct_rfind k2 (ct_red st)) as [e2|]; [destruct (t2 <? re_dead e2)|]; reflexivity.
Qed.

(* redis-only configuration: the deadlines invariant and expiry *)
Lemma red_ok_ctc_false mx st ev : red_ok st -> red_ok (fst (ctc_step false mx st ev)).
Proof.
  intros Hr. destruct ev as [c|k|k|t eps k resp pk|t k|now s0 x0 k v nx|k]; cbn [ctc_step ct_step].
  - exact Hr.
  - destruct (cp_step mx (ct_mem st) (EvCollect k)) as [m' o]. exact Hr.
  - destruct (cp_step mx (ct_mem st) (EvEvict k)) as [m' o]. exact Hr.
  - cbn [ctc_store]. destruct resp as [m|]; [|exact Hr].
    destruct (h_tc (m_hdr m)); [exact Hr|]. destruct (negb pk); [exact Hr|]. apply red_ok_set. exact Hr.
  - cbn [ctc_get]. destruct (ct_rfind k (ct_red st)) as [e|]; [|exact Hr].
    destruct (t <? re_dead e); [exact Hr|]. apply red_ok_remove. exact Hr.
  - apply red_ok_set. exact Hr.
  - apply red_ok_remove. exact Hr.
Qed.

Lemma red_ok_ctc_run_false mx evs : forall st, red_ok st -> red_ok (fst (ctc_run false mx st evs)).
Proof.
  induction evs as [|ev evs IH]; intros st Hr; cbn [ctc_run]; [exact Hr|].
  pose proof (red_ok_ctc_false mx st ev Hr) as H1. destruct (ctc_step false mx st ev) as [st1 o]. cbn [fst] in H1.
  specialize (IH st1 H1). destruct (ctc_run false mx st1 evs). exact IH.
Qed.

(* no clock assumption at all is needed here: redis expires on the wall clock *)
Lemma redis_only_hit_before_expiry mx clk0 evs t k st' m' s x :
  ctc_get false (fst (ctc_run false mx (ct_init clk0) evs)) t k = (st', OHit m' s x) -> t < x + SECOND.
Proof.
  assert (Hr : red_ok (fst (ctc_run false mx (ct_init clk0) evs))).
  { apply red_ok_ctc_run_false. intros k0 e H. discriminate. }
  unfold ctc_get. destruct (ct_rfind k (ct_red (fst (ctc_run false mx (ct_init clk0) evs)))) as [e|] eqn:Ef; [|discriminate].
  destruct (t <? re_dead e) eqn:El; [|discriminate]. apply Z.ltb_lt in El.
  intros H; inversion H; subst. pose proof (Hr k e Ef) as Hd. unfold rentry_ok in Hd. lia.
Qed.

(* ================================================================== round 6: the command stream of the redis tier *)
(* what redis_set does to the tier is exactly the server executing the command redis_set_cmd builds (whatever horizon
   one gives to PX-less commands: there are none) *)
Lemma redis_set_is_exec r now stored expire k v nx forever :
  redis_set r now stored expire k v nx =
  match redis_set_cmd now expire k nx with
  | None => r
  | Some c => redis_exec r now (unix_floor stored) (unix_floor expire) v c forever
  end.
Proof.
  unfold redis_set, redis_set_cmd. destruct (Z.quot (expire - now) MILLI <=? 10); reflexivity.
Qed.

(* every SET carries a PX; it is the whole milliseconds of the time left to expireTime *)
Lemma redis_set_cmd_px now expire k nx c :
  redis_set_cmd now expire k nx = Some c ->
  exists px, c = RSet k nx (Some px) /\ 10 < px /\ px * MILLI <= expire - now < (px + 1) * MILLI.
Proof.
  unfold redis_set_cmd. destruct (Z.quot (expire - now) MILLI <=? 10) eqn:E; [discriminate|].
  apply Z.leb_gt in E. intros H; inversion H; subst. exists (Z.quot (expire - now) MILLI).
  split; [reflexivity|]. split; [exact E|]. unfold MILLI in *.
  assert (0 <= expire - now).
  { destruct (Z_lt_le_dec (expire - now) 0) as [Hn|]; [|lia].
    pose proof (Z.quot_opp_l (expire - now) 1000000 ltac:(lia)).
    pose proof (Z.quot_pos (- (expire - now)) 1000000 ltac:(lia) ltac:(lia)). lia. }
  rewrite Z.quot_div_nonneg by lia.
  pose proof (Z.div_mod (expire - now) 1000000 ltac:(lia)). pose proof (Z.mod_pos_bound (expire - now) 1000000 ltac:(lia)). lia.
Qed.

(* the command of a Store: SET key [NX iff the response is an error response] PX p, with p the whole milliseconds of
   lifetime - eps, lifetime = the policy lifetime of the response; never a SET without PX *)
Lemma store_cmd_shape mx t eps k resp pk c :
  ct_store_cmd mx t eps k resp pk = Some c ->
  exists m px, resp = Some m /\ h_tc (m_hdr m) = false /\ pk = true /\
    c = RSet k (negative m) (Some px) /\ 10 < px /\
    px * MILLI <= msg_lifetime mx m - eps < (px + 1) * MILLI.
Proof.
  unfold ct_store_cmd. destruct resp as [m|]; [|discriminate].
  destruct (h_tc (m_hdr m)) eqn:Et; [discriminate|]. destruct pk; cbn [negb]; [|discriminate].
  intros H. apply redis_set_cmd_px in H. destruct H as (px & -> & H10 & Hb).
  exists m, px. repeat split; auto; lia.
Qed.

(* ... and the redis tier after the Store is the server having executed exactly that command (both configurations) *)
Lemma store_red_is_exec hm mx st t eps k resp pk forever :
  ct_red (fst (ctc_store hm mx st t eps k resp pk)) =
  match ct_store_cmd mx t eps k resp pk with
  | None => ct_red st
  | Some c =>
    match resp with
    | Some m => redis_exec (ct_red st) (t + eps) (unix_floor t) (unix_floor (t + msg_lifetime mx m)) m c forever
    | None => ct_red st
    end
  end.
Proof.
  unfold ct_store_cmd. destruct resp as [m|].
  - destruct (h_tc (m_hdr m)) eqn:Et.
    + destruct hm; cbn [ctc_store]; [|rewrite Et; reflexivity].
      unfold ct_store. rewrite (store_skip_tc mx (ct_mem st) t eps k m pk Et). reflexivity.
    + destruct pk; cbn [negb].
      * rewrite <- (redis_set_is_exec (ct_red st) (t + eps) t (t + msg_lifetime mx m) k m (negative m) forever).
        destruct hm; cbn [ctc_store]; [|rewrite Et; reflexivity].
        unfold ct_store. destruct (cachectl_store mx (ct_mem st) t eps k (Some m) true) as [mem' o] eqn:Es.
        destruct o; try reflexivity.
        exfalso. revert Es. unfold cachectl_store. rewrite Et. cbn [negb].
        destruct (mem_store _ _ _ _ _ _ _) as [s2 [|]]; intros H; inversion H.
      * destruct hm; cbn [ctc_store]; [|rewrite Et; reflexivity].
        unfold ct_store. unfold cachectl_store. rewrite Et. reflexivity.
  - destruct hm; reflexivity.
Qed.

(* consequence for expiry, stated on the command: a key written by the command of a Store is gone from the server
   lifetime - eps (cut to whole ms) after the command, i.e. before fetch + lifetime *)
Lemma store_cmd_deadline mx t eps k m pk c r forever e t2 :
  0 <= eps -> ct_store_cmd mx t eps k (Some m) pk = Some c ->
  redis_lookup (redis_exec r (t + eps) (unix_floor t) (unix_floor (t + msg_lifetime mx m)) m c forever) t2 k = Some e ->
  re_msg e = m -> ct_rfind k r = None ->
  t2 < t + msg_lifetime mx m.
Proof.
  intros He Hc Hl Hm Hnone. apply store_cmd_shape in Hc. destruct Hc as (m0 & px & Hr & _ & _ & -> & _ & Hb).
  inversion Hr; subst m0. unfold redis_lookup, redis_exec in Hl. rewrite Hnone in Hl. rewrite rfind_put, N.eqb_refl in Hl.
  cbn [re_dead] in Hl. destruct (t2 <? t + eps + px * MILLI) eqn:E; [|discriminate]. apply Z.ltb_lt in E. lia.
Qed.

(* REFUTED variant: the set-if-absent branch sends  SET key value NX  without PX.  The key then outlives every horizon:
   whatever lifetime the policy gave the (error) response, it is still served lifetime + 2 s after the fetch. *)
Lemma nx_without_px_serves_forever r now s x v k forever t2 :
  ct_rfind k r = None -> now <= t2 < now + forever ->
  redis_lookup (redis_exec r now s x v (RSet k true None) forever) t2 k = Some (mkREntry s x v (now + forever)).
Proof.
  intros Hn Ht. unfold redis_lookup, redis_exec. rewrite Hn, rfind_put, N.eqb_refl. cbn [re_dead].
  destruct (t2 <? now + forever) eqn:E; [reflexivity|]. apply Z.ltb_ge in E. lia.
Qed.
