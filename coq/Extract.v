(* Extraction of the executable model. ExtrOcamlBasic only; N/Z/positive/nat stay inductive. *)
From Coq Require Import Extraction ExtrOcamlBasic.
From Mos Require Import Base.Prelude Net.Fallback.
Extraction "model.ml" fb_run.
