(* Extraction of the executable model. ExtrOcamlBasic only; N/Z/positive/nat stay inductive. *)
From Coq Require Import Extraction ExtrOcamlBasic.
From Mos Require Import Base.Prelude Codec.Name Codec.Msg Codec.Spec Net.Fallback.
Extraction "model.ml" fb_run
  unpack_msg pack_msg msg_len view scan to_lower_name to_readable parse_readable unpack_name spec_pack spec_packsize.
