(* Router/SystemProofs.v — C04: in every interleaving every response carries the answer to its own question. *)
From Mos Require Import Base.Prelude Codec.Name Router.System.

Section SystemFacts.
  Variables Q A : Type.
  Variable key : Q -> list N.
  Variable ans : Q -> A.
  (* the key is injective on the questions that can arrive (D: e.g. well-formed lower-cased names, 16-bit class/type) *)
  Variable D : Q -> Prop.
  Hypothesis key_inj : forall q1 q2, D q1 -> D q2 -> key q1 = key q2 -> q1 = q2.

  Lemma list_eqb_sys_eq a : forall b, list_eqb a b = true <-> a = b.
  Proof.
    induction a as [|x a IH]; intros [|y b]; cbn; split; intros H; try reflexivity; try discriminate.
    - apply andb_true_iff in H. destruct H as [H1 H2]. apply N.eqb_eq in H1. apply IH in H2. congruence.
    - inversion H; subst. rewrite N.eqb_refl. cbn. now apply IH.
  Qed.

  (* every cache entry under the key of q holds ans q *)
  Definition cache_ok (c : list (list N * A)) : Prop := forall q a, D q -> sys_find A (key q) c = Some a -> a = ans q.
  (* every request that holds an answer holds the answer to its own question *)
  Definition req_ok (r : sys_req Q A) : Prop :=
    D (sr_q _ _ r) /\
    match sr_pc _ _ r with SpGot _ a => a = ans (sr_q _ _ r) | SpDone _ a _ => a = ans (sr_q _ _ r) | _ => True end.
  Definition label_ok (l : sys_label Q) : Prop := match l with SlArrive q => D q | _ => True end.
  Definition sys_inv (s : sys_state Q A) : Prop := cache_ok (sy_cache _ _ s) /\ Forall req_ok (sy_reqs _ _ s).

  Lemma find_remove_other k k' c : list_eqb k k' = false -> sys_find A k (sys_remove A k' c) = sys_find A k c.
  Proof.
    intros Hne. induction c as [|[k2 a] c IH]; cbn; [reflexivity|].
    destruct (list_eqb k' k2) eqn:E1.
    - apply list_eqb_sys_eq in E1. subst k2. rewrite Hne. exact IH.
    - cbn. destruct (list_eqb k k2); [reflexivity|exact IH].
  Qed.

  Lemma find_remove_same k c : sys_find A k (sys_remove A k c) = None.
  Proof.
    induction c as [|[k2 a] c IH]; cbn; [reflexivity|]. destruct (list_eqb k k2) eqn:E; [exact IH|].
    cbn. rewrite E. exact IH.
  Qed.

  Lemma cache_ok_remove k c : cache_ok c -> cache_ok (sys_remove A k c).
  Proof.
    intros H q a Hd Hf. destruct (list_eqb (key q) k) eqn:E.
    - apply list_eqb_sys_eq in E. subst k. rewrite find_remove_same in Hf. discriminate.
    - rewrite find_remove_other in Hf by exact E. now apply H.
  Qed.

  Lemma set_Forall {X} (P : X -> Prop) l : forall i v, Forall P l -> P v -> Forall P (sys_set l i v).
  Proof.
    induction l as [|x l IH]; intros [|i] v H Hv; cbn; auto; inversion H; subst; constructor; auto.
  Qed.

  Lemma nth_Forall {X} (P : X -> Prop) l i x : Forall P l -> nth_error l i = Some x -> P x.
  Proof. intros H Hn. rewrite Forall_forall in H. apply H. eapply nth_error_In; eauto. Qed.

  Lemma sys_step_inv s l s' : label_ok l -> sys_inv s -> sys_step Q A key ans s l = Some s' -> sys_inv s'.
  Proof.
    intros Hl [Hc Hr] H. destruct l as [q|i|i|i|i|k]; cbn [sys_step] in H.
    - inversion H; subst. split; [exact Hc|]. cbn. apply Forall_app. split; [exact Hr|].
      constructor; [|constructor]. split; [exact Hl|exact I].
    - destruct (nth_error (sy_reqs Q A s) i) as [[q pc]|] eqn:En; [|discriminate].
      destruct pc; try discriminate.
      destruct (nth_Forall _ _ _ _ Hr En) as [Dq _]. cbn in Dq.
      destruct (sys_find A (key q) (sy_cache Q A s)) as [a|] eqn:Ef; inversion H; subst; split; cbn; auto.
      + apply set_Forall; [exact Hr|]. split; [exact Dq|]. cbn. now apply Hc.
      + apply set_Forall; [exact Hr|]. split; [exact Dq|exact I].
    - destruct (nth_error (sy_reqs Q A s) i) as [[q pc]|] eqn:En; [|discriminate].
      destruct pc; try discriminate. destruct (nth_Forall _ _ _ _ Hr En) as [Dq _]. cbn in Dq.
      inversion H; subst. split; cbn; auto. apply set_Forall; [exact Hr|split; [exact Dq|exact I]].
    - destruct (nth_error (sy_reqs Q A s) i) as [[q pc]|] eqn:En; [|discriminate].
      destruct pc; try discriminate. destruct (nth_Forall _ _ _ _ Hr En) as [Dq _]. cbn in Dq.
      inversion H; subst. split; cbn; auto.
      apply set_Forall; [exact Hr|]. split; [exact Dq|reflexivity].
    - destruct (nth_error (sy_reqs Q A s) i) as [[q pc]|] eqn:En; [|discriminate].
      destruct pc as [| | |a|]; try discriminate. inversion H; subst.
      destruct (nth_Forall _ _ _ _ Hr En) as [Dq Hq]. cbn in Dq, Hq. split; cbn.
      + intros q2 a2 D2 Hf. cbn in Hf. destruct (list_eqb (key q2) (key q)) eqn:E.
        * apply list_eqb_sys_eq in E. apply key_inj in E; auto. inversion Hf; subst. reflexivity.
        * rewrite find_remove_other in Hf by exact E. now apply Hc.
      + apply set_Forall; [exact Hr|]. split; [exact Dq|exact Hq].
    - inversion H; subst. split; cbn; [now apply cache_ok_remove|exact Hr].
  Qed.

  Theorem sys_run_inv ls : Forall label_ok ls -> forall s s', sys_inv s -> sys_run Q A key ans s ls = Some s' -> sys_inv s'.
  Proof.
    induction 1 as [|l ls Hl _ IH]; intros s s' Hi H; cbn in H; [inversion H; now subst|].
    destruct (sys_step Q A key ans s l) as [s1|] eqn:E; [|discriminate].
    eapply IH; [eapply sys_step_inv; eauto|exact H].
  Qed.

  Lemma sys_init_inv : sys_inv (sys_init Q A).
  Proof. split; [intros q a _ H; discriminate|constructor]. Qed.

  (* C04: in every reachable state — any number of requests, any interleaving of lookups, exchanges completing in any
     order, stores and evictions — every response (fresh or from cache) carries the upstream's answer to ITS OWN
     question, and every cache entry holds the answer to the question of its key. *)
  Theorem sys_own_answer ls s : Forall label_ok ls -> sys_run Q A key ans (sys_init Q A) ls = Some s ->
    (forall i q a c, nth_error (sy_reqs Q A s) i = Some (mkSysReq Q A q (SpDone A a c)) -> a = ans q) /\
    (forall q a, D q -> sys_find A (key q) (sy_cache Q A s) = Some a -> a = ans q).
  Proof.
    intros Hl H. destruct (sys_run_inv ls Hl _ _ sys_init_inv H) as [Hc Hr]. split; [|exact Hc].
    intros i q a c Hn. destruct (nth_Forall _ _ _ _ Hr Hn) as [_ Hq]. exact Hq.
  Qed.
End SystemFacts.
