(* Router/CachedProofs.v — facts about the request path with the cache (C03 / C07 / C12 on cached responses). *)
From Mos Require Import Base.Prelude Codec.Name Codec.Msg Codec.NameProofs Codec.WfProofs Router.Rules Router.Edns
  Router.Router Router.RouterSpec Router.RouterProofs Cache.CachePolicy Cache.CachePolicyProofs Router.Prefetch
  Router.Cached Cache.CacheKey Cache.CacheKeyProofs.
From Coq Require Import ZifyN ZifyNat ZifyBool.

(* ---------- SubtractTTL keeps everything but TTLs ---------- *)
Lemma sub_rr_type delta r : r_type (sub_rr delta r) = r_type r.
Proof. unfold sub_rr. destruct (cp_is_opt r); [reflexivity|]. destruct (delta <? r_ttl r)%N; reflexivity. Qed.

Lemma sub_rr_is_opt delta r : is_opt (sub_rr delta r) = is_opt r.
Proof. unfold is_opt. now rewrite sub_rr_type. Qed.

Lemma filter_map_sub delta rs : filter is_opt (map (sub_rr delta) rs) = map (sub_rr delta) (filter is_opt rs).
Proof.
  induction rs as [|r rs IH]; [reflexivity|]. cbn [map filter]. rewrite sub_rr_is_opt.
  destruct (is_opt r); cbn [map]; now rewrite IH.
Qed.

Lemma count_opt_subtract delta m : count_opt (m_ar (subtract_ttl delta m)) = count_opt (m_ar m).
Proof. unfold count_opt, subtract_ttl. cbn [m_ar]. now rewrite filter_map_sub, map_length. Qed.

Lemma subtract_qs delta m : m_qs (subtract_ttl delta m) = m_qs m. Proof. reflexivity. Qed.
Lemma subtract_hdr delta m : m_hdr (subtract_ttl delta m) = m_hdr m. Proof. reflexivity. Qed.

(* ---------- the cache invariant of the caching proxy ---------- *)
Section CachedFacts.
  Variable matches : nat -> list N -> bool.
  Variable rules : list rule.
  Variable ecs : bool.
  Variable up : nat -> res (list N) -> uout.
  Variable ckey : question -> addr -> N.
  Variable maxttl : Z.
  (* RFC 6891: at most one OPT record per message (the property's own restriction on upstream replies) *)
  Hypothesis up_one_opt : forall u w r, up u w = UReply r -> count_opt (m_ar r) <= 1.

  Notation handle_req_c' := (handle_req_c matches rules ecs up ckey maxttl).
  Notation handle_c' := (handle_c matches rules ecs up ckey maxttl).
  Notation prefetch_c' := (prefetch_c ecs up ckey maxttl).
  Notation cstep' := (cstep matches rules ecs up ckey maxttl).
  Notation crun' := (crun matches rules ecs up ckey maxttl).

  Definition qs_match (qs : list question) (q : question) : Prop :=
    match qs with [] => True | [qr] => q_eq_ci qr q = true | _ => False end.

  (* provenance: every cached message is what [forward] returned for a question and a client with this very key
     (hence OPT-free, with a question section matching that question: [entry_facts]) *)
  Definition entry_ok (k : N) (e : cp_entry) : Prop :=
    exists u q c, wf_question q /\ k = ckey q c /\ fst (forward_q ecs up u q c) = Some (e_msg e).
  Definition cinv (st : cp_state) : Prop := forall k e, cp_find k (st_map st) = Some e -> entry_ok k e.

  Lemma cinv_init clk : cinv (init_state clk).
  Proof. intros k e H. discriminate. Qed.

  (* what forward returns is OPT-free and answers the question asked *)
  Lemma forward_ok u q client r eff : forward_q ecs up u q client = (Some r, eff) ->
    count_opt (m_ar r) = 0 /\ qs_match (m_qs r) q /\ eff = [EQuery u (pack_req ecs q client)].
  Proof.
    unfold forward_q. destruct (pack_req ecs q client) as [w| | |]; try discriminate.
    destruct (up u (Ok w)) as [rep|] eqn:Eu; [|discriminate].
    destruct (reply_question_ok q rep) eqn:Er; [|discriminate]. intros H. inversion H; subst r eff.
    split; [apply remove_opt_idem_count; eapply up_one_opt; eauto|]. split; [|reflexivity].
    unfold remove_opt, qs_match. cbn [m_qs set_ar]. unfold reply_question_ok in Er.
    destruct (m_qs rep) as [|qr [|q2 rest]]; [exact I|exact Er|discriminate].
  Qed.

  Lemma entry_facts k e : entry_ok k e ->
    count_opt (m_ar (e_msg e)) = 0 /\ exists q c, wf_question q /\ k = ckey q c /\ qs_match (m_qs (e_msg e)) q.
  Proof.
    intros (u & q & c & Hwq & Hk & Hf). destruct (forward_q ecs up u q c) as [o eff] eqn:Ef. cbn [fst] in Hf. subst o.
    destruct (forward_ok _ _ _ _ _ Ef) as (Hc & Hq & _). split; [exact Hc|]. exists q, c. auto.
  Qed.

  Lemma forward_fail_eff u q client eff : forward_q ecs up u q client = (None, eff) -> length eff <= 1.
  Proof.
    unfold forward_q. destruct (pack_req ecs q client) as [w| | |]; try (intros H; inversion H; cbn; lia).
    destruct (up u (Ok w)) as [rep|]; [destruct (reply_question_ok q rep)|]; intros H; inversion H; cbn; lia.
  Qed.

  (* a store of such a message keeps the invariant *)
  Lemma cinv_store st ts eps u q client r :
    cinv st -> wf_question q -> fst (forward_q ecs up u q client) = Some r ->
    cinv (fst (cachectl_store maxttl st ts eps (ckey q client) (Some r) true)).
  Proof.
    intros Hi Hwq Hsrc. unfold cachectl_store. destruct (h_tc (m_hdr r)); [exact Hi|]. cbn [negb].
    unfold mem_store. destruct (negative r).
    - destruct (cp_find (ckey q client) (st_map st)); [exact Hi|]. cbn [fst].
      intros k e. cbn [st_map]. rewrite find_put. destruct (k =? ckey q client)%N eqn:Ek.
      + intros H. inversion H; subst e. apply N.eqb_eq in Ek. subst k. exists u, q, client. auto.
      + apply Hi.
    - cbn [fst]. intros k e. cbn [st_map]. rewrite find_put. destruct (k =? ckey q client)%N eqn:Ek.
      + intros H. inversion H; subst e. apply N.eqb_eq in Ek. subst k. exists u, q, client. auto.
      + apply Hi.
  Qed.

  Lemma cinv_remove st k : cinv st -> cinv (mkState (st_clk st) (cp_remove k (st_map st))).
  Proof.
    intros Hi k' e. cbn [st_map]. rewrite find_remove. destruct (k =? k')%N; [discriminate|apply Hi].
  Qed.

  Lemma get_state st t k : fst (cachectl_get st t k) = st.
  Proof. unfold cachectl_get. destruct (cp_find k (st_map st)) as [e|]; [destruct (has_expired (st_clk st) e)|]; reflexivity. Qed.

  Lemma get_hit_entry st t k m s x : snd (cachectl_get st t k) = OHit m s x ->
    exists e, cp_find k (st_map st) = Some e /\ m = subtract_ttl (elapsed_secs t (e_stored e)) (e_msg e) /\
              s = e_stored e /\ x = e_expire e /\ has_expired (st_clk st) e = false.
  Proof.
    unfold cachectl_get. destruct (cp_find k (st_map st)) as [e|]; [|discriminate].
    destruct (has_expired (st_clk st) e) eqn:Ex; [discriminate|]. cbn [snd]. intros H. inversion H; subst. eauto 6.
  Qed.

  (* ---------- handleReq with the cache ---------- *)
  (* the response chosen by handleReq is OPT-free, carries a question that matches the one asked (or none), and the
     invariant is kept; a cached response costs no upstream query *)
  Lemma handle_req_c_facts st t ts eps q client : cinv st -> wf_question q ->
    (forall q1 c1 q2 c2, wf_question q1 -> wf_question q2 -> ckey q1 c1 = ckey q2 c2 -> q1 = q2) ->
    let st' := fst (handle_req_c' st t ts eps q client) in
    let o := snd (handle_req_c' st t ts eps q client) in
    cinv st' /\ count_opt (m_ar (co_resp o)) = 0 /\ qs_match (m_qs (co_resp o)) q /\
    (co_cached o = true -> co_eff o = []) /\ length (co_eff o) <= 1 /\
    (co_prefetch o = true -> co_cached o = true).
  Proof.
    intros Hi Hwq Hinj. cbv zeta. unfold handle_req_c.
    assert (Hloc : forall rc, count_opt (m_ar (empty_resp q rc)) = 0 /\ qs_match (m_qs (empty_resp q rc)) q).
    { intros rc. split; [reflexivity|]. cbn. apply q_eq_ci_refl. }
    assert (Hlocal : forall rc (eff : list effect), length eff <= 1 ->
      cinv st /\ count_opt (m_ar (empty_resp q rc)) = 0 /\ qs_match (m_qs (empty_resp q rc)) q /\
      (false = true -> eff = []) /\ length eff <= 1 /\ (false = true -> false = true)).
    { intros rc eff Hl. destruct (Hloc rc) as [A B]. split; [exact Hi|]. split; [exact A|]. split; [exact B|].
      split; [discriminate|]. split; [exact Hl|auto]. }
    destruct (decide matches rules (q_name q)) as [rc|u|].
    - cbn [fst snd co_resp co_eff co_cached co_prefetch]. apply Hlocal. cbn; lia.
    - destruct (cachectl_get st t (ckey q client)) as [st1 og] eqn:Eg.
      assert (st1 = st) by (pose proof (get_state st t (ckey q client)) as G; rewrite Eg in G; exact G). subst st1.
      assert (Hmiss : forall o, og = o -> (forall m s x, o <> OHit m s x) ->
        let res := match forward_q ecs up u q client with
                   | (Some r, eff) => (fst (cachectl_store maxttl st ts eps (ckey q client) (Some r) true), mkCout r eff false false)
                   | (None, eff) => (st, mkCout (empty_resp q RCodeServFail) eff false false)
                   end in
        cinv (fst res) /\ count_opt (m_ar (co_resp (snd res))) = 0 /\ qs_match (m_qs (co_resp (snd res))) q /\
        (co_cached (snd res) = true -> co_eff (snd res) = []) /\ length (co_eff (snd res)) <= 1 /\
        (co_prefetch (snd res) = true -> co_cached (snd res) = true)).
      { intros o _ _. cbv zeta. destruct (forward_q ecs up u q client) as [[r|] eff] eqn:Ef; cbn [fst snd co_resp co_eff co_cached co_prefetch].
        - destruct (forward_ok _ _ _ _ _ Ef) as (Hc & Hq & He). subst eff.
          split; [apply (cinv_store st ts eps u q client r Hi Hwq); now rewrite Ef|]. split; [exact Hc|]. split; [exact Hq|]. split; [discriminate|].
          split; [cbn; lia|auto].
        - apply Hlocal. apply (forward_fail_eff _ _ _ _ Ef). }
      destruct og as [| | | | | |m s x]; try (apply (Hmiss _ eq_refl); intros; discriminate).
      (* hit *)
      cbn [fst snd co_resp co_eff co_cached co_prefetch].
      assert (Hs : snd (cachectl_get st t (ckey q client)) = OHit m s x) by now rewrite Eg.
      destruct (get_hit_entry _ _ _ _ _ _ Hs) as (e & Hf & -> & _ & _ & _).
      destruct (entry_facts _ _ (Hi _ _ Hf)) as (Hc & q0 & c0 & Hw0 & Hk & Hq0). apply Hinj in Hk; auto. subst q0.
      split; [exact Hi|]. split; [now rewrite count_opt_subtract|]. split; [rewrite subtract_qs; exact Hq0|].
      split; [reflexivity|]. split; [cbn; lia|reflexivity].
    - cbn [fst snd co_resp co_eff co_cached co_prefetch]. apply Hlocal. cbn; lia.
  Qed.

  Lemma prefetch_c_inv st ts eps u q client : cinv st -> wf_question q -> cinv (fst (prefetch_c' st ts eps u q client)).
  Proof.
    intros Hi Hwq. unfold prefetch_c. destruct (forward_q ecs up u q client) as [[r|] eff] eqn:Ef; [|exact Hi].
    cbn [fst]. apply (cinv_store st ts eps u q client r Hi Hwq). now rewrite Ef.
  Qed.

  Section WithInj.
    (* the key determines the question — for the questions that occur: decoded, hence well-formed (C07_key_injective) *)
    Hypothesis ckey_inj : forall q1 c1 q2 c2, wf_question q1 -> wf_question q2 -> ckey q1 c1 = ckey q2 c2 -> q1 = q2.

    Lemma first_q_wf m q qs : wf_msg m -> m_qs m = q :: qs -> wf_question (lower_q q).
    Proof. intros (_ & Fq & _) Hq. rewrite Hq in Fq. apply lower_q_wf. now inversion Fq. Qed.

    Lemma handle_c_inv st t ts eps m client : cinv st -> wf_msg m -> cinv (fst (handle_c' st t ts eps m client)).
    Proof.
      intros Hi Hwm. unfold handle_c. destruct (unsupported m); [exact Hi|]. destruct (m_qs m) as [|q qs] eqn:Eq; [exact Hi|].
      destruct (handle_req_c_facts st t ts eps (lower_q q) client Hi (first_q_wf m q qs Hwm Eq) ckey_inj) as (H & _).
      destruct (handle_req_c' st t ts eps (lower_q q) client) as [st' o]. exact H.
    Qed.

    (* the events of a history carry decoded (well-formed) queries / questions *)
    Definition cev_wf (ev : cev) : Prop :=
      match ev with
      | CReq _ _ _ m _ => wf_msg m
      | CPrefetch _ _ _ q _ => wf_question q
      | _ => True
      end.

    Lemma cstep_inv st ev : cinv st -> cev_wf ev -> cinv (fst (cstep' st ev)).
    Proof.
      intros Hi Hw. destruct ev as [c|t ts eps m client|ts eps u q client|k|k]; cbn [cstep]; cbn [cev_wf] in Hw.
      - intros k e. apply Hi.
      - pose proof (handle_c_inv st t ts eps m client Hi Hw) as H.
        destruct (handle_c' st t ts eps m client) as [st' o]. exact H.
      - now apply prefetch_c_inv.
      - cbn [cp_step]. destruct (cp_find k (st_map st)) as [e|]; [|exact Hi].
        destruct (has_expired (st_clk st) e); [now apply cinv_remove|exact Hi].
      - cbn [cp_step fst]. now apply cinv_remove.
    Qed.

    (* the invariant holds in every reachable state of the caching proxy *)
    Theorem crun_inv evs : Forall cev_wf evs -> forall st, cinv st -> cinv (fst (crun' st evs)).
    Proof.
      induction 1 as [|ev evs Hw _ IH]; intros st Hi; [exact Hi|]. cbn [crun].
      pose proof (cstep_inv st ev Hi Hw) as H1. destruct (cstep' st ev) as [st1 o]. cbn [fst] in H1.
      specialize (IH st1 H1). destruct (crun' st1 evs) as [st2 os]. exact IH.
    Qed.

    (* ---------- the response of handleReqMsg in any state satisfying the invariant ---------- *)
    Lemma handle_c_supported st t ts eps m client : unsupported m = false -> exists q qs, m_qs m = q :: qs /\
      snd (handle_c' st t ts eps m client) =
        let o := snd (handle_req_c' st t ts eps (lower_q q) client) in
        mkCout (fix_header m (if has_opt m then add_or_replace_opt (co_resp o) else remove_opt (co_resp o)))
               (co_eff o) (co_cached o) (co_prefetch o).
    Proof.
      intros Hu. unfold handle_c. rewrite Hu. destruct (m_qs m) as [|q qs] eqn:Eq.
      - unfold unsupported in Hu. rewrite Eq in Hu. cbn in Hu. rewrite !orb_true_r in Hu. discriminate.
      - exists q, qs. split; [reflexivity|].
        destruct (handle_req_c' st t ts eps (lower_q q) client) as [st' o]. reflexivity.
    Qed.

    (* C12 on a caching proxy: the OPT records of EVERY response — fresh, relayed or served from cache *)
    Theorem handle_c_opt st t ts eps m client : cinv st -> wf_msg m ->
      filter is_opt (m_ar (co_resp (snd (handle_c' st t ts eps m client)))) =
      if unsupported m then [] else if has_opt m then [new_opt udp_size []] else [].
    Proof.
      intros Hi Hwm. destruct (unsupported m) eqn:Hu.
      - unfold handle_c. rewrite Hu. reflexivity.
      - destruct (handle_c_supported st t ts eps m client Hu) as (q & qs & Hq & ->). cbv zeta. cbn [co_resp].
        rewrite fix_header_ar.
        destruct (handle_req_c_facts st t ts eps (lower_q q) client Hi (first_q_wf m q qs Hwm Hq) ckey_inj) as (_ & Hc & _).
        destruct (has_opt m).
        + apply add_opt_filter. lia.
        + apply remove_opt_filter. lia.
    Qed.

    (* C03 on a caching proxy: header fix-up and the question clause for EVERY response *)
    Theorem handle_c_header st t ts eps m client : let r := co_resp (snd (handle_c' st t ts eps m client)) in
      h_id (m_hdr r) = h_id (m_hdr m) /\ h_opcode (m_hdr r) = h_opcode (m_hdr m) /\ h_resp (m_hdr r) = true /\
      h_ra (m_hdr r) = true /\ h_rd (m_hdr r) = h_rd (m_hdr m).
    Proof.
      cbv zeta. unfold handle_c. destruct (unsupported m); [cbn; auto|]. destruct (m_qs m) as [|q qs]; [cbn; auto|].
      destruct (handle_req_c' st t ts eps (lower_q q) client) as [st' o]. cbn. auto.
    Qed.

    Theorem handle_c_question st t ts eps m client : cinv st -> wf_msg m ->
      match m_qs (co_resp (snd (handle_c' st t ts eps m client))), m_qs m with
      | [], _ => True
      | [qr], q :: _ => q_eq_ci qr q = true
      | _, _ => False
      end.
    Proof.
      intros Hi Hwm. destruct (unsupported m) eqn:Hu.
      - unfold handle_c. rewrite Hu. cbn [snd co_resp fix_header m_qs empty_resp_m].
        destruct (m_qs m) as [|q qs]; cbn [firstn]; [exact I|apply q_eq_ci_refl].
      - destruct (handle_c_supported st t ts eps m client Hu) as (q & qs & Hq & ->). cbv zeta. cbn [co_resp].
        rewrite fix_header_qs, opt_fix_qs, Hq.
        destruct (handle_req_c_facts st t ts eps (lower_q q) client Hi (first_q_wf m q qs Hwm Hq) ckey_inj) as (_ & _ & Hm & _).
        unfold qs_match in Hm.
        destruct (m_qs (co_resp (snd (handle_req_c' st t ts eps (lower_q q) client)))) as [|qr [|q2 rest]];
          [exact I|now apply q_eq_ci_lower_r|contradiction].
    Qed.

    (* C07 end to end: a response served from cache is, apart from TTL ageing, the ID / EDNS fix-ups, what [forward]
       returned for the SAME (lower-cased) question, for a client with the same cache key (= the same group) *)
    Theorem handle_c_hit_source st t ts eps m client : cinv st -> wf_msg m -> unsupported m = false ->
      co_cached (snd (handle_c' st t ts eps m client)) = true ->
      exists q qs u c r delta,
        m_qs m = q :: qs /\ ckey (lower_q q) c = ckey (lower_q q) client /\
        fst (forward_q ecs up u (lower_q q) c) = Some r /\
        co_resp (snd (handle_c' st t ts eps m client)) =
          fix_header m (let r' := subtract_ttl delta r in if has_opt m then add_or_replace_opt r' else remove_opt r').
    Proof.
      intros Hi Hwm Hu Hc. destruct (handle_c_supported st t ts eps m client Hu) as (q & qs & Hq & E).
      rewrite E in Hc |- *. cbv zeta in Hc |- *. cbn [co_cached co_resp] in Hc |- *.
      unfold handle_req_c in Hc |- *.
      destruct (decide matches rules (q_name (lower_q q))) as [rc|u0|]; try discriminate.
      destruct (cachectl_get st t (ckey (lower_q q) client)) as [st1 og] eqn:Eg.
      destruct og as [| | | | | |mm s x];
        try (destruct (forward_q ecs up u0 (lower_q q) client) as [[r0|] eff0]; discriminate).
      assert (Hs : snd (cachectl_get st t (ckey (lower_q q) client)) = OHit mm s x) by now rewrite Eg.
      destruct (get_hit_entry _ _ _ _ _ _ Hs) as (e & Hf & -> & _ & _ & _).
      destruct (Hi _ _ Hf) as (u & q0 & c0 & Hw0 & Hk & Hsrc).
      pose proof (ckey_inj _ _ _ _ Hw0 (first_q_wf m q qs Hwm Hq) (eq_sym Hk)) as Hqq. subst q0.
      exists q, qs, u, c0, (e_msg e), (elapsed_secs t (e_stored e)).
      split; [exact Hq|]. split; [now symmetry|]. split; [exact Hsrc|]. reflexivity.
    Qed.

    (* what forward returns is the upstream's reply to EXACTLY this question, OPT-stripped *)
    Lemma forward_source u q c r : fst (forward_q ecs up u q c) = Some r ->
      exists rep, up u (pack_req ecs q c) = UReply rep /\ reply_question_ok q rep = true /\ r = remove_opt rep.
    Proof.
      unfold forward_q. destruct (pack_req ecs q c) as [w| | |]; try discriminate.
      destruct (up u (Ok w)) as [rep|] eqn:Eu; [|discriminate].
      destruct (reply_question_ok q rep) eqn:Er; [|discriminate]. cbn [fst]. intros H. inversion H. eauto.
    Qed.

    (* C04 on the caching proxy, with the data: the records a client receives are either none (a locally generated
       response) or the answer / authority records of a reply some upstream gave to a query carrying the client's OWN
       (lower-cased) question, asked for a client with the same cache key — as received on a miss, TTL-aged on a hit *)
    Theorem handle_c_own_answer st t ts eps m client : cinv st -> wf_msg m -> unsupported m = false ->
      let r := co_resp (snd (handle_c' st t ts eps m client)) in
      (m_an r = [] /\ m_ns r = []) \/
      exists q qs u c rep,
        m_qs m = q :: qs /\ ckey (lower_q q) c = ckey (lower_q q) client /\
        up u (pack_req ecs (lower_q q) c) = UReply rep /\ reply_question_ok (lower_q q) rep = true /\
        h_rcode (m_hdr r) = h_rcode (m_hdr rep) /\
        ((m_an r = m_an rep /\ m_ns r = m_ns rep) \/
         exists delta, m_an r = map (sub_rr delta) (m_an rep) /\ m_ns r = map (sub_rr delta) (m_ns rep)).
    Proof.
      intros Hi Hwm Hu. cbv zeta.
      destruct (handle_c_supported st t ts eps m client Hu) as (q & qs & Hq & E). rewrite E. cbv zeta. cbn [co_resp].
      assert (Hfix : forall x, m_an (fix_header m (if has_opt m then add_or_replace_opt x else remove_opt x)) = m_an x /\
                               m_ns (fix_header m (if has_opt m then add_or_replace_opt x else remove_opt x)) = m_ns x /\
                               h_rcode (m_hdr (fix_header m (if has_opt m then add_or_replace_opt x else remove_opt x))) = h_rcode (m_hdr x)).
      { intros x. destruct (has_opt m); cbn; auto. }
      unfold handle_req_c.
      destruct (decide matches rules (q_name (lower_q q))) as [rc|u0|]; cbn [snd co_resp];
        try (left; destruct (Hfix (empty_resp (lower_q q) rc)) as (A & B & _) || destruct (Hfix (empty_resp (lower_q q) RCodeRefused)) as (A & B & _);
             rewrite A, B; cbn; auto).
      destruct (cachectl_get st t (ckey (lower_q q) client)) as [st1 og] eqn:Eg.
      assert (Hmiss : forall o : cp_state * creq_out,
        o = match forward_q ecs up u0 (lower_q q) client with
            | (Some r, eff) => (fst (cachectl_store maxttl st1 ts eps (ckey (lower_q q) client) (Some r) true), mkCout r eff false false)
            | (None, eff) => (st1, mkCout (empty_resp (lower_q q) RCodeServFail) eff false false)
            end ->
        let r := fix_header m (if has_opt m then add_or_replace_opt (co_resp (snd o)) else remove_opt (co_resp (snd o))) in
        (m_an r = [] /\ m_ns r = []) \/
        exists q' qs' u c rep,
          m_qs m = q' :: qs' /\ ckey (lower_q q') c = ckey (lower_q q') client /\
          up u (pack_req ecs (lower_q q') c) = UReply rep /\ reply_question_ok (lower_q q') rep = true /\
          h_rcode (m_hdr r) = h_rcode (m_hdr rep) /\
          ((m_an r = m_an rep /\ m_ns r = m_ns rep) \/
           exists delta, m_an r = map (sub_rr delta) (m_an rep) /\ m_ns r = map (sub_rr delta) (m_ns rep))).
      { intros o ->. cbv zeta. destruct (forward_q ecs up u0 (lower_q q) client) as [[r0|] eff0] eqn:Ef; cbn [snd co_resp].
        - assert (Hs : fst (forward_q ecs up u0 (lower_q q) client) = Some r0) by now rewrite Ef.
          destruct (forward_source _ _ _ _ Hs) as (rep & Hup & Hok & ->).
          right. exists q, qs, u0, client, rep. destruct (Hfix (remove_opt rep)) as (A & B & C).
          split; [exact Hq|]. split; [reflexivity|]. split; [exact Hup|]. split; [exact Hok|].
          split; [rewrite C; reflexivity|]. left. rewrite A, B. split; reflexivity.
        - left. destruct (Hfix (empty_resp (lower_q q) RCodeServFail)) as (A & B & _). rewrite A, B. cbn. auto. }
      destruct og as [| | | | | |mm s x]; try (apply Hmiss; reflexivity).
      cbn [snd co_resp].
      assert (Hs : snd (cachectl_get st t (ckey (lower_q q) client)) = OHit mm s x) by now rewrite Eg.
      destruct (get_hit_entry _ _ _ _ _ _ Hs) as (e & Hf & -> & _ & _ & _).
      destruct (Hi _ _ Hf) as (u & q0 & c0 & Hw0 & Hk & Hsrc).
      pose proof (ckey_inj _ _ _ _ Hw0 (first_q_wf m q qs Hwm Hq) (eq_sym Hk)) as Hqq. subst q0.
      destruct (forward_source _ _ _ _ Hsrc) as (rep & Hup & Hok & Hr).
      right. exists q, qs, u, c0, rep.
      destruct (Hfix (subtract_ttl (elapsed_secs t (e_stored e)) (e_msg e))) as (A & B & C).
      split; [exact Hq|]. split; [now symmetry|]. split; [exact Hup|]. split; [exact Hok|].
      split; [rewrite C, Hr; reflexivity|]. right. exists (elapsed_secs t (e_stored e)).
      rewrite A, B, Hr. split; reflexivity.
    Qed.

    (* C07 (converse clause) / C19: a response served from the cache costs no upstream exchange on the request path, at
       most one upstream query is made per request, and a prefetch is only ever started by a cache hit *)
    Theorem handle_c_effects st t ts eps m client : cinv st -> wf_msg m ->
      let o := snd (handle_c' st t ts eps m client) in
      (co_cached o = true -> co_eff o = []) /\ length (co_eff o) <= 1 /\ (co_prefetch o = true -> co_cached o = true).
    Proof.
      intros Hi Hwm. cbv zeta. destruct (unsupported m) eqn:Hu.
      - unfold handle_c. rewrite Hu. cbn. repeat split; auto; discriminate.
      - destruct (handle_c_supported st t ts eps m client Hu) as (q & qs & Hq & ->). cbv zeta.
        cbn [co_eff co_cached co_prefetch].
        destruct (handle_req_c_facts st t ts eps (lower_q q) client Hi (first_q_wf m q qs Hwm Hq) ckey_inj) as (_ & _ & _ & H1 & H2 & H3). auto.
    Qed.
  End WithInj.
End CachedFacts.

(* ---------- the REAL cache key: cacheKey(q, ipMark(client)) as a number ---------- *)
(* CachePolicy's backend is keyed by numbers; the real key is an octet string.  [key_num] reads an octet string as a
   base-256 numeral behind a leading 1, which is injective on octet strings; composed with cacheKey (injective on
   well-formed questions and any marks: cache_key_injective) it determines the question. *)
Definition key_num (l : list N) : N := fold_left (fun acc b => (acc * 256 + b)%N) l 1%N.

Lemma key_num_snoc l b : key_num (l ++ [b]) = (key_num l * 256 + b)%N.
Proof. unfold key_num. now rewrite fold_left_app. Qed.

Lemma key_num_pos l : (1 <= key_num l)%N.
Proof.
  induction l as [|b l IH] using rev_ind; [cbn; lia|]. rewrite key_num_snoc. lia.
Qed.

Lemma key_num_inj a : bytes a -> forall b, bytes b -> key_num a = key_num b -> a = b.
Proof.
  induction a as [|x a IH] using rev_ind; intros Ha b Hb E.
  - destruct b as [|y b] using rev_ind; [reflexivity|]. exfalso.
    rewrite key_num_snoc in E. cbn in E. pose proof (key_num_pos b). lia.
  - destruct b as [|y b _] using rev_ind.
    + exfalso. rewrite key_num_snoc in E. cbn in E. pose proof (key_num_pos a). lia.
    + rewrite !key_num_snoc in E. apply Forall_app in Ha. destruct Ha as [Ha Hx]. apply Forall_app in Hb. destruct Hb as [Hb Hy].
      inversion Hx as [|? ? Hx' _]; subst. inversion Hy as [|? ? Hy' _]; subst. unfold isbyte in Hx', Hy'.
      assert (key_num a = key_num b /\ x = y) as [E1 ->] by lia.
      now rewrite (IH Ha b Hb E1).
Qed.

Definition real_ckey (mark : addr -> list N) (q : question) (c : addr) : N :=
  key_num (cache_key (q_name q) (q_class q) (q_type q) (mark c)).

Lemma real_ckey_inj mark : (forall c, bytes (mark c)) ->
  forall q1 c1 q2 c2, wf_question q1 -> wf_question q2 -> real_ckey mark q1 c1 = real_ckey mark q2 c2 -> q1 = q2.
Proof.
  intros Hm q1 c1 q2 c2 (Hn1 & Ht1 & Hc1) (Hn2 & Ht2 & Hc2) E. unfold real_ckey in E.
  assert (Hb : forall q c, wf_name (q_name q) -> bytes (cache_key (q_name q) (q_class q) (q_type q) (mark c))).
  { intros q c (ls & -> & Hf & _). unfold cache_key. apply Forall_app. split; [now apply raw_bytes|].
    constructor; [unfold isbyte; lia|]. apply Forall_app. split; [apply be16_bytes|]. apply Forall_app. split; [apply be16_bytes|apply Hm]. }
  apply key_num_inj in E; auto.
  apply cache_key_injective in E; auto. destruct E as (En & Ec & Et & _).
  destruct q1, q2; cbn in *; congruence.
Qed.

(* ... and, for one question, the client's group label *)
Lemma real_ckey_mark mark : (forall c, bytes (mark c)) ->
  forall q c1 c2, wf_question q -> real_ckey mark q c1 = real_ckey mark q c2 -> mark c1 = mark c2.
Proof.
  intros Hm q c1 c2 (Hn & Ht & Hc) E. unfold real_ckey in E.
  assert (Hb : forall c, bytes (cache_key (q_name q) (q_class q) (q_type q) (mark c))).
  { intros c. destruct Hn as (ls & -> & Hf & _). unfold cache_key. apply Forall_app. split; [now apply raw_bytes|].
    constructor; [unfold isbyte; lia|]. apply Forall_app. split; [apply be16_bytes|]. apply Forall_app. split; [apply be16_bytes|apply Hm]. }
  apply key_num_inj in E; auto. apply cache_key_injective in E; auto. tauto.
Qed.
