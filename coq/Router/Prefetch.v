(* Router/Prefetch.v — model of the cache-hit branch of app/router/router.go handleReq and of the
   background refresh it may start (asyncSingleFlightPrefetch / doPrefetch), with app/router/cache.go
   prefetchCtl (reserve/done), needPrefetch and the Set / SetIfAbsent distinction of internal/cache/mem.go.

     if resp != nil {                                              (cache hit)
         if needPrefetch(storedTime, expireTime) {                 HWindow   (reads the clock)
             key := keyForPrefetch(q, addr)
             if r.prefetch.reserve(key) {                          HReserve  (one mutex critical section)
                 go func(){ doPrefetch(..); r.prefetch.done(key) }()
             }
         }
         rc.Response.Msg = resp ; return                           HRespond
     }
     doPrefetch: resp, err := forward(ctx6s, ..)                   RSend, RWait  (upstream = environment)
                 if err != nil { return }                          -> RRelease
                 cache.Store(q, addr, resp)                        RStore    (Set, or SetIfAbsent when rcode != 0)
     done(key)                                                     RRelease -> RFin

   Small-step LTS at atomic-action granularity: any number of hit threads and refresh threads; the
   upstream, the clock, eviction/expiry of the cache backend and stores made by miss-path threads are the
   environment.  Durations and instants are integers (ns) in Z.  No proofs in this file. *)
From Mos Require Import Base.Prelude.
Local Open Scope Z_scope.

(* ------------------------------------------------------------------ window test
   func needPrefetch(storedTime, expireTime) bool {
       lifeSpan := expireTime.Sub(storedTime)
       remainTtl := time.Until(expireTime)          // expireTime - now
       return remainTtl < (lifeSpan >> 2)           // signed shift = floor division by 4
   }
   (time.Time.Sub saturates at +-2^63 ns = 292 years; instants that far apart are outside the model.) *)
Definition need_prefetch (stored expire now : Z) : bool :=
  (expire - now) <? Z.shiftr (expire - stored) 2.

(* the first instant at which the window test holds: need_prefetch s e n = true <-> threshold s e <= n *)
Definition prefetch_threshold (stored expire : Z) : Z :=
  expire + 1 - Z.shiftr (expire - stored) 2.

(* ------------------------------------------------------------------ in-flight set (prefetchCtl.queue)
   a Go map[uint64]struct{} under one mutex: reserve = test-and-insert, done = delete *)
Definition key_mem (k : N) (q : list N) : bool := existsb (N.eqb k) q.

Definition reserve (k : N) (q : list N) : list N * bool :=
  if key_mem k q then (q, false) else (k :: q, true).

Fixpoint key_remove (k : N) (q : list N) : list N :=
  match q with
  | [] => []
  | x :: t => if N.eqb k x then key_remove k t else x :: key_remove k t
  end.

Definition done (k : N) (q : list N) : list N := key_remove k q.

(* op sequences on the set alone (kind prefetchctl): true = reserve, false = done *)
Fixpoint ctl_run (ops : list (bool * N)) (q : list N) : list bool * list N :=
  match ops with
  | [] => ([], q)
  | (true, k) :: t => let (q', b) := reserve k q in let (bs, qf) := ctl_run t q' in (b :: bs, qf)
  | (false, k) :: t => ctl_run t (done k q)
  end.

(* ------------------------------------------------------------------ cache entries
   one entry per cache key (question, client group); the key is abstracted to an identifier [N] *)
Record entry := mkEntry { e_stored : Z; e_expire : Z; e_val : N; e_neg : bool }.

Fixpoint lookup (q : N) (c : list (N * entry)) : option entry :=
  match c with
  | [] => None
  | (k, e) :: t => if N.eqb q k then Some e else lookup q t
  end.

Fixpoint cache_remove (q : N) (c : list (N * entry)) : list (N * entry) :=
  match c with
  | [] => []
  | (k, e) :: t => if N.eqb q k then cache_remove q t else (k, e) :: cache_remove q t
  end.

(* MemoryCache.Store(k, stored, expire, v, setNX): Set replaces, SetIfAbsent keeps a present entry.
   cacheCtl.Store passes setNX = (rcode != NOERROR). *)
Definition cache_store (q : N) (e : entry) (c : list (N * entry)) : list (N * entry) :=
  if e_neg e then
    match lookup q c with Some _ => c | None => (q, e) :: c end
  else (q, e) :: cache_remove q c.

(* ------------------------------------------------------------------ threads *)
Inductive outcome := OFail | OOk (val : N) (ttl : Z) (neg : bool).

Inductive hpc :=
| HLookup                 (* about to call cache.Get *)
| HMiss                   (* miss: the thread leaves the hit branch (forward path, not this property) *)
| HWindow (e : entry)     (* hit; about to evaluate needPrefetch *)
| HReserve (e : entry)    (* window test true; about to call prefetch.reserve *)
| HRespond (e : entry)    (* about to hand the cached message to the listener *)
| HDone (e : entry).      (* responded with e *)

(* h_tw / h_att are ghosts: the instant of the window test, the result of the reserve attempt *)
Record hit := mkHit { h_q : N; h_pc : hpc; h_tw : Z; h_att : option bool }.

Inductive rpc :=
| RSend                                   (* goroutine started, query not yet written *)
| RWait                                   (* waiting for the upstream (bounded by prefetchTimeout: C14) *)
| RStore (val : N) (ttl : Z) (neg : bool) (* forward returned a message; about to call cache.Store *)
| RRelease                                (* about to call prefetch.done(key) *)
| RFin.                                   (* done(key) executed *)

(* r_by / r_out are ghosts: the hit thread that reserved, the upstream's outcome *)
Record refr := mkRef { r_q : N; r_key : N; r_by : nat; r_pc : rpc; r_out : option outcome }.

Record state := mkSt {
  now : Z;
  cache : list (N * entry);
  inflight : list N;
  hits : list hit;
  refs : list refr;
  sent : list N                (* ghost: refresh queries written to the upstream, in order *)
}.

Inductive label :=
| LTick (d : Z)                               (* env: the clock advances by d >= 0 *)
| LArrive (q : N)                             (* env: a client query for q enters handleReq *)
| LHit (i : nat)                              (* hit thread i executes its next atomic action *)
| LRef (j : nat)                              (* refresh thread j executes its next own action *)
| LUp (j : nat) (o : outcome)                 (* env: the upstream exchange of refresh j returns *)
| LEvict (q : N)                              (* env: the backend evicts q (capacity) *)
| LExpire (q : N)                             (* env: the backend drops q, allowed once now >= expire *)
| LEnvStore (q : N) (val : N) (ttl : Z) (neg : bool).  (* env: a miss-path thread stores an answer *)

Fixpoint upd {A} (l : list A) (i : nat) (x : A) : list A :=
  match l, i with
  | [], _ => []
  | _ :: t, O => x :: t
  | h :: t, S i' => h :: upd t i' x
  end.

Definition rpc_fin (p : rpc) : bool := match p with RFin => true | _ => false end.
Definition ref_active (r : refr) : bool := negb (rpc_fin (r_pc r)).
Definition ref_holds (k : N) (r : refr) : bool := ref_active r && N.eqb (r_key r) k.

Section LTS.
  (* keyForPrefetch: the 64-bit hash of (name, class, type, group); any function of the cache key *)
  Variable hash : N -> N.

  Definition set_hit (s : state) (i : nat) (h : hit) : state :=
    mkSt (now s) (cache s) (inflight s) (upd (hits s) i h) (refs s) (sent s).
  Definition set_ref (s : state) (j : nat) (r : refr) : state :=
    mkSt (now s) (cache s) (inflight s) (hits s) (upd (refs s) j r) (sent s).

  Definition step_hit (s : state) (i : nat) (h : hit) : option state :=
    match h_pc h with
    | HLookup =>
        match lookup (h_q h) (cache s) with
        | None => Some (set_hit s i (mkHit (h_q h) HMiss (h_tw h) (h_att h)))
        | Some e => Some (set_hit s i (mkHit (h_q h) (HWindow e) (h_tw h) (h_att h)))
        end
    | HWindow e =>
        if need_prefetch (e_stored e) (e_expire e) (now s)
        then Some (set_hit s i (mkHit (h_q h) (HReserve e) (now s) None))
        else Some (set_hit s i (mkHit (h_q h) (HRespond e) (now s) None))
    | HReserve e =>
        let k := hash (h_q h) in
        let (fl, ok) := reserve k (inflight s) in
        if ok
        then Some (mkSt (now s) (cache s) fl
                        (upd (hits s) i (mkHit (h_q h) (HRespond e) (h_tw h) (Some true)))
                        (refs s ++ [mkRef (h_q h) k i RSend None]) (sent s))
        else Some (set_hit s i (mkHit (h_q h) (HRespond e) (h_tw h) (Some false)))
    | HRespond e => Some (set_hit s i (mkHit (h_q h) (HDone e) (h_tw h) (h_att h)))
    | HMiss | HDone _ => None
    end.

  Definition step_ref (s : state) (j : nat) (r : refr) : option state :=
    match r_pc r with
    | RSend =>
        Some (mkSt (now s) (cache s) (inflight s) (hits s)
                   (upd (refs s) j (mkRef (r_q r) (r_key r) (r_by r) RWait (r_out r)))
                   (sent s ++ [r_q r]))
    | RStore v ttl neg =>
        Some (mkSt (now s) (cache_store (r_q r) (mkEntry (now s) (now s + ttl) v neg) (cache s))
                   (inflight s) (hits s)
                   (upd (refs s) j (mkRef (r_q r) (r_key r) (r_by r) RRelease (r_out r))) (sent s))
    | RRelease =>
        Some (mkSt (now s) (cache s) (done (r_key r) (inflight s)) (hits s)
                   (upd (refs s) j (mkRef (r_q r) (r_key r) (r_by r) RFin (r_out r))) (sent s))
    | RWait | RFin => None
    end.

  Definition step_up (s : state) (j : nat) (r : refr) (o : outcome) : option state :=
    match r_pc r with
    | RWait =>
        match o with
        | OFail => Some (set_ref s j (mkRef (r_q r) (r_key r) (r_by r) RRelease (Some o)))
        | OOk v ttl neg => Some (set_ref s j (mkRef (r_q r) (r_key r) (r_by r) (RStore v ttl neg) (Some o)))
        end
    | _ => None
    end.

  Definition step (s : state) (l : label) : option state :=
    match l with
    | LTick d =>
        if 0 <=? d then Some (mkSt (now s + d) (cache s) (inflight s) (hits s) (refs s) (sent s)) else None
    | LArrive q =>
        Some (mkSt (now s) (cache s) (inflight s) (hits s ++ [mkHit q HLookup 0 None]) (refs s) (sent s))
    | LHit i => match nth_error (hits s) i with Some h => step_hit s i h | None => None end
    | LRef j => match nth_error (refs s) j with Some r => step_ref s j r | None => None end
    | LUp j o => match nth_error (refs s) j with Some r => step_up s j r o | None => None end
    | LEvict q =>
        Some (mkSt (now s) (cache_remove q (cache s)) (inflight s) (hits s) (refs s) (sent s))
    | LExpire q =>
        match lookup q (cache s) with
        | Some e => if e_expire e <=? now s
                    then Some (mkSt (now s) (cache_remove q (cache s)) (inflight s) (hits s) (refs s) (sent s))
                    else None
        | None => None
        end
    | LEnvStore q v ttl neg =>
        Some (mkSt (now s) (cache_store q (mkEntry (now s) (now s + ttl) v neg) (cache s))
                   (inflight s) (hits s) (refs s) (sent s))
    end.

  Fixpoint run (ls : list label) (s : state) : option state :=
    match ls with
    | [] => Some s
    | l :: t => match step s l with Some s' => run t s' | None => None end
    end.

  (* ---------------------------------------------------------------- deterministic big-step
     scripted scenarios: every event is expanded into a fixed schedule of small steps *)
  Inductive ev :=
  | EvTick (d : Z)
  | EvStore (q : N) (val : N) (ttl : Z) (neg : bool)   (* a miss-path store (warms the cache) *)
  | EvHit (q : N)                 (* one query runs to completion *)
  | EvBurst (q : N) (n : nat)     (* n queries arrive together and advance round-robin, one action each *)
  | EvSend (j : nat)              (* refresh j writes its query *)
  | EvUp (j : nat) (o : outcome)  (* the upstream answers refresh j; the refresh runs to completion *)
  | EvExpire (q : N)
  | EvEvict (q : N).

  Definition range (a n : nat) : list nat := seq a n.

  Definition ev_labels (s : state) (e : ev) : list label :=
    match e with
    | EvTick d => [LTick d]
    | EvStore q v ttl neg => [LEnvStore q v ttl neg]
    | EvHit q => let i := length (hits s) in [LArrive q; LHit i; LHit i; LHit i; LHit i]
    | EvBurst q n =>
        let a := length (hits s) in
        let ids := range a n in
        repeat (LArrive q) n ++ map LHit ids ++ map LHit ids ++ map LHit ids ++ map LHit ids
    | EvSend j => [LRef j]
    | EvUp j o => [LUp j o; LRef j; LRef j]
    | EvExpire q => [LExpire q]
    | EvEvict q => [LEvict q]
    end.

  (* a thread that is already finished (or took the short path) refuses further actions: skip those *)
  Fixpoint run_lenient (ls : list label) (s : state) : state :=
    match ls with
    | [] => s
    | l :: t => match step s l with Some s' => run_lenient t s' | None => run_lenient t s end
    end.

  Definition big_step (s : state) (e : ev) : state := run_lenient (ev_labels s e) s.
  Definition big (es : list ev) (s : state) : state := fold_left big_step es s.

  (* the labels actually taken by run_lenient (witness schedule of the small-step system) *)
  Fixpoint taken (ls : list label) (s : state) : list label :=
    match ls with
    | [] => []
    | l :: t => match step s l with Some s' => l :: taken t s' | None => taken t s end
    end.
End LTS.

Definition init (t0 : Z) : state := mkSt t0 [] [] [] [] [].

(* ------------------------------------------------------------------ observables of a scripted run *)
Definition hpc_answer (p : hpc) : option entry :=
  match p with HDone e => Some e | _ => None end.

(* answers of the hit threads from index a on: (value, stored, expire) or none *)
Definition answers_from (a : nat) (s : state) : list (option entry) :=
  map (fun h => hpc_answer (h_pc h)) (skipn a (hits s)).

Definition count_holding (k : N) (s : state) : nat := length (filter (ref_holds k) (refs s)).
Definition max_holding (s : state) : nat :=
  fold_right Nat.max 0%nat (map (fun r => count_holding (r_key r) s) (refs s)).

(* executable oracle of the single-flight invariant along a scripted run: the largest number of
   refresh threads holding one key seen in any intermediate state *)
Fixpoint big_max (hash : N -> N) (es : list ev) (s : state) (acc : nat) : state * nat :=
  match es with
  | [] => (s, Nat.max acc (max_holding s))
  | e :: t => let s' := big_step hash s e in big_max hash t s' (Nat.max acc (max_holding s))
  end.

(* concrete instances used by the correspondence check *)
Definition hash_id (q : N) : N := q.
Definition hash_mod8 (q : N) : N := (q mod 8)%N.      (* a deliberately colliding hash *)

Record summary := mkSum {
  sm_sent : list N;                 (* upstream refresh queries *)
  sm_answers : list (option entry); (* per hit thread *)
  sm_atts : list (option bool);     (* per hit thread: reserve attempted / result *)
  sm_inflight : list N;
  sm_max : nat
}.

Definition scenario (collide : bool) (t0 : Z) (es : list ev) : summary :=
  let h := if collide then hash_mod8 else hash_id in
  let (s, m) := big_max h es (init t0) 0%nat in
  mkSum (sent s) (answers_from 0 s) (map h_att (hits s)) (inflight s) m.
