(* Router/Prefetch.v — model of the cache-hit branch of app/router/router.go handleReq and of the
   background refresh it may start (asyncSingleFlightPrefetch / doPrefetch), with app/router/cache.go
   prefetchCtl (reserve/done), needPrefetch and the Set / SetIfAbsent distinction of internal/cache/mem.go.

     if resp != nil {                                              (cache hit)
         if needPrefetch(storedTime, expireTime) {                 HWindow   (reads the clock)
             key := keyForPrefetch(q, addr)
             if r.prefetch.reserve(key) {                          HReserve  (one mutex critical section)
                 go func(){ doPrefetch(..); r.prefetch.done(key) }()
             }
         }
         rc.Response.Msg = resp ; return                           HRespond
     }
     doPrefetch: resp, err := forward(ctx6s, ..)                   RfSend, RfWait  (upstream = environment)
                 if err != nil { return }                          -> RfRelease
                 cache.Store(q, addr, resp)                        RfStore    (Set, or SetIfAbsent when rcode != 0)
     done(key)                                                     RfRelease -> RfFin

   Small-step LTS at atomic-action granularity: any number of hit threads and refresh threads; the
   upstream, the clock, eviction/expiry of the cache backend and stores made by miss-path threads are the
   environment.  Durations and instants are integers (ns) in Z.  No proofs in this file. *)
From Mos Require Import Base.Prelude.

Local Open Scope Z_scope.

(* ------------------------------------------------------------------ window test
   func needPrefetch(storedTime, expireTime) bool {
       lifeSpan := expireTime.Sub(storedTime)
       remainTtl := time.Until(expireTime)          // expireTime - now
       return remainTtl < (lifeSpan >> 2)           // signed shift = floor division by 4
   }
   (time.Time.Sub saturates at +-2^63 ns = 292 years; instants that far apart are outside the model.) *)
Definition need_prefetch (stored expire t : Z) : bool :=
  (expire - t) <? Z.shiftr (expire - stored) 2.

(* the first instant at which the window test holds: need_prefetch s e n = true <-> threshold s e <= n *)
Definition prefetch_threshold (stored expire : Z) : Z :=
  expire + 1 - Z.shiftr (expire - stored) 2.

(* ------------------------------------------------------------------ in-flight set (prefetchCtl.queue)
   a Go map[uint64]struct{} under one mutex: reserve = test-and-insert, done = delete *)
Definition p_key_mem (k : N) (q : list N) : bool := existsb (N.eqb k) q.

Definition p_reserve (k : N) (q : list N) : list N * bool :=
  if p_key_mem k q then (q, false) else (k :: q, true).

Fixpoint p_key_remove (k : N) (q : list N) : list N :=
  match q with
  | [] => []
  | x :: t => if N.eqb k x then p_key_remove k t else x :: p_key_remove k t
  end.

Definition p_done (k : N) (q : list N) : list N := p_key_remove k q.

(* op sequences on the set alone (kind prefetchctl): true = reserve, false = done *)
Fixpoint pfctl_run (ops : list (bool * N)) (q : list N) : list bool * list N :=
  match ops with
  | [] => ([], q)
  | (true, k) :: t => let (q', b) := p_reserve k q in let (bs, qf) := pfctl_run t q' in (b :: bs, qf)
  | (false, k) :: t => pfctl_run t (p_done k q)
  end.

(* ------------------------------------------------------------------ cache entries
   one entry per cache key (question, client group); the key is abstracted to an identifier [N] *)
Record pentry := mkPentry { pe_stored : Z; pe_expire : Z; pe_val : N; pe_neg : bool }.

Fixpoint p_lookup (q : N) (c : list (N * pentry)) : option pentry :=
  match c with
  | [] => None
  | (k, e) :: t => if N.eqb q k then Some e else p_lookup q t
  end.

Fixpoint p_cache_remove (q : N) (c : list (N * pentry)) : list (N * pentry) :=
  match c with
  | [] => []
  | (k, e) :: t => if N.eqb q k then p_cache_remove q t else (k, e) :: p_cache_remove q t
  end.

(* MemoryCache.Store(k, stored, expire, v, setNX): Set replaces, SetIfAbsent keeps a present entry.
   cacheCtl.Store passes setNX = (rcode != NOERROR). *)
Definition p_cache_store (q : N) (e : pentry) (c : list (N * pentry)) : list (N * pentry) :=
  if pe_neg e then
    match p_lookup q c with Some _ => c | None => (q, e) :: c end
  else (q, e) :: p_cache_remove q c.

(* ------------------------------------------------------------------ threads *)
Inductive poutcome := RfFail | RfOk (val : N) (ttl : Z) (neg : bool).

Inductive hpc :=
| HLookup                 (* about to call cache.Get *)
| HMiss                   (* miss: the thread leaves the hit branch (forward path, not this property) *)
| HWindow (e : pentry)     (* hit; about to evaluate needPrefetch *)
| HReserve (e : pentry)    (* window test true; about to call prefetch.reserve *)
| HRespond (e : pentry)    (* about to hand the cached message to the listener *)
| HDone (e : pentry).      (* responded with e *)

(* h_tw / h_att are ghosts: the instant of the window test, the result of the reserve attempt *)
Record phit := mkHit { h_q : N; h_pc : hpc; h_tw : Z; h_att : option bool }.

Inductive rpc :=
| RfSend                                   (* goroutine started, query not yet written *)
| RfWait                                   (* waiting for the upstream (bounded by prefetchTimeout: C14) *)
| RfStore (val : N) (ttl : Z) (neg : bool) (* forward returned a message; about to call cache.Store *)
| RfRelease                                (* about to call prefetch.done(key) *)
| RfFin.                                   (* done(key) executed *)

(* r_by / r_out are ghosts: the hit thread that reserved, the upstream's outcome *)
Record refr := mkRef { r_q : N; r_key : N; r_by : nat; r_pc : rpc; r_out : option poutcome }.

Record pstate := mkPst {
  p_now : Z;
  p_cache : list (N * pentry);
  p_inflight : list N;
  p_hits : list phit;
  p_refs : list refr;
  p_sent : list N                (* ghost: refresh queries written to the upstream, in order *)
}.

Inductive plabel :=
| PlTick (d : Z)                               (* env: the clock advances by d >= 0 *)
| PlArrive (q : N)                             (* env: a client query for q enters handleReq *)
| PlHit (i : nat)                              (* hit thread i executes its next atomic action *)
| PlRef (j : nat)                              (* refresh thread j executes its next own action *)
| PlUp (j : nat) (o : poutcome)                 (* env: the upstream exchange of refresh j returns *)
| PlEvict (q : N)                              (* env: the backend evicts q (capacity) *)
| PlExpire (q : N)                             (* env: the backend drops q, allowed once now >= expire *)
| PlEnvStore (q : N) (val : N) (ttl : Z) (neg : bool).  (* env: a miss-path thread stores an answer *)

Fixpoint p_upd {A} (l : list A) (i : nat) (x : A) : list A :=
  match l, i with
  | [], _ => []
  | _ :: t, O => x :: t
  | h :: t, S i' => h :: p_upd t i' x
  end.

Definition rpc_fin (p : rpc) : bool := match p with RfFin => true | _ => false end.
Definition ref_active (r : refr) : bool := negb (rpc_fin (r_pc r)).
Definition ref_holds (k : N) (r : refr) : bool := ref_active r && N.eqb (r_key r) k.

Section LTS.
  (* keyForPrefetch: the 64-bit hash of (name, class, type, group); any function of the cache key *)
  Variable hash : N -> N.

  Definition p_set_hit (s : pstate) (i : nat) (h : phit) : pstate :=
    mkPst (p_now s) (p_cache s) (p_inflight s) (p_upd (p_hits s) i h) (p_refs s) (p_sent s).
  Definition p_set_ref (s : pstate) (j : nat) (r : refr) : pstate :=
    mkPst (p_now s) (p_cache s) (p_inflight s) (p_hits s) (p_upd (p_refs s) j r) (p_sent s).

  Definition p_step_hit (s : pstate) (i : nat) (h : phit) : option pstate :=
    match h_pc h with
    | HLookup =>
        match p_lookup (h_q h) (p_cache s) with
        | None => Some (p_set_hit s i (mkHit (h_q h) HMiss (h_tw h) (h_att h)))
        | Some e => Some (p_set_hit s i (mkHit (h_q h) (HWindow e) (h_tw h) (h_att h)))
        end
    | HWindow e =>
        if need_prefetch (pe_stored e) (pe_expire e) (p_now s)
        then Some (p_set_hit s i (mkHit (h_q h) (HReserve e) (p_now s) None))
        else Some (p_set_hit s i (mkHit (h_q h) (HRespond e) (p_now s) None))
    | HReserve e =>
        let k := hash (h_q h) in
        let (fl, ok) := p_reserve k (p_inflight s) in
        if ok
        then Some (mkPst (p_now s) (p_cache s) fl
                        (p_upd (p_hits s) i (mkHit (h_q h) (HRespond e) (h_tw h) (Some true)))
                        (p_refs s ++ [mkRef (h_q h) k i RfSend None]) (p_sent s))
        else Some (p_set_hit s i (mkHit (h_q h) (HRespond e) (h_tw h) (Some false)))
    | HRespond e => Some (p_set_hit s i (mkHit (h_q h) (HDone e) (h_tw h) (h_att h)))
    | HMiss | HDone _ => None
    end.

  Definition p_step_ref (s : pstate) (j : nat) (r : refr) : option pstate :=
    match r_pc r with
    | RfSend =>
        Some (mkPst (p_now s) (p_cache s) (p_inflight s) (p_hits s)
                   (p_upd (p_refs s) j (mkRef (r_q r) (r_key r) (r_by r) RfWait (r_out r)))
                   (p_sent s ++ [r_q r]))
    | RfStore v ttl neg =>
        Some (mkPst (p_now s) (p_cache_store (r_q r) (mkPentry (p_now s) (p_now s + ttl) v neg) (p_cache s))
                   (p_inflight s) (p_hits s)
                   (p_upd (p_refs s) j (mkRef (r_q r) (r_key r) (r_by r) RfRelease (r_out r))) (p_sent s))
    | RfRelease =>
        Some (mkPst (p_now s) (p_cache s) (p_done (r_key r) (p_inflight s)) (p_hits s)
                   (p_upd (p_refs s) j (mkRef (r_q r) (r_key r) (r_by r) RfFin (r_out r))) (p_sent s))
    | RfWait | RfFin => None
    end.

  Definition p_step_up (s : pstate) (j : nat) (r : refr) (o : poutcome) : option pstate :=
    match r_pc r with
    | RfWait =>
        match o with
        | RfFail => Some (p_set_ref s j (mkRef (r_q r) (r_key r) (r_by r) RfRelease (Some o)))
        | RfOk v ttl neg => Some (p_set_ref s j (mkRef (r_q r) (r_key r) (r_by r) (RfStore v ttl neg) (Some o)))
        end
    | _ => None
    end.

  Definition p_step (s : pstate) (l : plabel) : option pstate :=
    match l with
    | PlTick d =>
        if 0 <=? d then Some (mkPst (p_now s + d) (p_cache s) (p_inflight s) (p_hits s) (p_refs s) (p_sent s)) else None
    | PlArrive q =>
        Some (mkPst (p_now s) (p_cache s) (p_inflight s) (p_hits s ++ [mkHit q HLookup 0 None]) (p_refs s) (p_sent s))
    | PlHit i => match nth_error (p_hits s) i with Some h => p_step_hit s i h | None => None end
    | PlRef j => match nth_error (p_refs s) j with Some r => p_step_ref s j r | None => None end
    | PlUp j o => match nth_error (p_refs s) j with Some r => p_step_up s j r o | None => None end
    | PlEvict q =>
        Some (mkPst (p_now s) (p_cache_remove q (p_cache s)) (p_inflight s) (p_hits s) (p_refs s) (p_sent s))
    | PlExpire q =>
        match p_lookup q (p_cache s) with
        | Some e => if pe_expire e <=? p_now s
                    then Some (mkPst (p_now s) (p_cache_remove q (p_cache s)) (p_inflight s) (p_hits s) (p_refs s) (p_sent s))
                    else None
        | None => None
        end
    | PlEnvStore q v ttl neg =>
        Some (mkPst (p_now s) (p_cache_store q (mkPentry (p_now s) (p_now s + ttl) v neg) (p_cache s))
                   (p_inflight s) (p_hits s) (p_refs s) (p_sent s))
    end.

  Fixpoint p_run (ls : list plabel) (s : pstate) : option pstate :=
    match ls with
    | [] => Some s
    | l :: t => match p_step s l with Some s' => p_run t s' | None => None end
    end.

  (* ---------------------------------------------------------------- deterministic big-step
     scripted scenarios: every event is expanded into a fixed schedule of small steps *)
  Inductive pev :=
  | PfTick (d : Z)
  | PfStore (q : N) (val : N) (ttl : Z) (neg : bool)   (* a miss-path store (warms the cache) *)
  | PfHit (q : N)                 (* one query runs to completion *)
  | PfBurst (q : N) (n : nat)     (* n queries arrive together and advance round-robin, one action each *)
  | PfSend (j : nat)              (* refresh j writes its query *)
  | PfUp (j : nat) (o : poutcome)  (* the upstream answers refresh j; the refresh runs to completion *)
  | PfExpire (q : N)
  | PfEvict (q : N)
  (* many keys at once (kind prefetchfan) *)
  | PfFan (qs : list N)           (* one query per listed question; they arrive together and advance round-robin *)
  | PfSendN (a n : nat)           (* refreshes a .. a+n-1 write their queries *)
  | PfUpN (a n : nat) (o : poutcome).  (* the upstream answers refreshes a .. a+n-1; each runs to completion *)

  Definition p_range (a n : nat) : list nat := seq a n.

  Definition p_ev_labels (s : pstate) (e : pev) : list plabel :=
    match e with
    | PfTick d => [PlTick d]
    | PfStore q v ttl neg => [PlEnvStore q v ttl neg]
    | PfHit q => let i := length (p_hits s) in [PlArrive q; PlHit i; PlHit i; PlHit i; PlHit i]
    | PfBurst q n =>
        let a := length (p_hits s) in
        let ids := p_range a n in
        repeat (PlArrive q) n ++ map PlHit ids ++ map PlHit ids ++ map PlHit ids ++ map PlHit ids
    | PfSend j => [PlRef j]
    | PfUp j o => [PlUp j o; PlRef j; PlRef j]
    | PfExpire q => [PlExpire q]
    | PfEvict q => [PlEvict q]
    | PfFan qs =>
        let ids := p_range (length (p_hits s)) (length qs) in
        map PlArrive qs ++ map PlHit ids ++ map PlHit ids ++ map PlHit ids ++ map PlHit ids
    | PfSendN a n => map PlRef (p_range a n)
    | PfUpN a n o => flat_map (fun j => [PlUp j o; PlRef j; PlRef j]) (p_range a n)
    end.

  (* a thread that is already finished (or took the short path) refuses further actions: skip those *)
  Fixpoint p_run_lenient (ls : list plabel) (s : pstate) : pstate :=
    match ls with
    | [] => s
    | l :: t => match p_step s l with Some s' => p_run_lenient t s' | None => p_run_lenient t s end
    end.

  Definition p_big_step (s : pstate) (e : pev) : pstate := p_run_lenient (p_ev_labels s e) s.
  Definition p_big (es : list pev) (s : pstate) : pstate := fold_left p_big_step es s.

  (* the labels actually taken by run_lenient (witness schedule of the small-step system) *)
  Fixpoint p_taken (ls : list plabel) (s : pstate) : list plabel :=
    match ls with
    | [] => []
    | l :: t => match p_step s l with Some s' => l :: p_taken t s' | None => p_taken t s end
    end.
End LTS.

Definition p_init (t0 : Z) : pstate := mkPst t0 [] [] [] [] [].

(* ------------------------------------------------------------------ observables of a scripted run *)
Definition hpc_answer (p : hpc) : option pentry :=
  match p with HDone e => Some e | _ => None end.

(* answers of the hit threads from index a on: (value, stored, expire) or none *)
Definition answers_from (a : nat) (s : pstate) : list (option pentry) :=
  map (fun h => hpc_answer (h_pc h)) (skipn a (p_hits s)).

Definition count_holding (k : N) (s : pstate) : nat := length (filter (ref_holds k) (p_refs s)).
Definition max_holding (s : pstate) : nat :=
  fold_right Nat.max 0%nat (map (fun r => count_holding (r_key r) s) (p_refs s)).

(* executable oracle of the single-flight invariant along a scripted run: the largest number of
   refresh threads holding one key seen in any intermediate state *)
Fixpoint p_big_max (hash : N -> N) (es : list pev) (s : pstate) (acc : nat) : pstate * nat :=
  match es with
  | [] => (s, Nat.max acc (max_holding s))
  | e :: t => let s' := p_big_step hash s e in p_big_max hash t s' (Nat.max acc (max_holding s))
  end.

(* concrete instances used by the correspondence check *)
Definition p_hash_id (q : N) : N := q.
Definition p_hash_mod8 (q : N) : N := (q mod 8)%N.      (* a deliberately colliding hash *)

Record psummary := mkPsum {
  pfs_sent : list N;                 (* upstream refresh queries *)
  pfs_answers : list (option pentry); (* per hit thread *)
  pfs_atts : list (option bool);     (* per hit thread: reserve attempted / result *)
  pfs_inflight : list N;
  pfs_max : nat
}.

Definition pf_scenario (collide : bool) (t0 : Z) (es : list pev) : psummary :=
  let h := if collide then p_hash_mod8 else p_hash_id in
  let (s, m) := p_big_max h es (p_init t0) 0%nat in
  mkPsum (p_sent s) (answers_from 0 s) (map h_att (p_hits s)) (p_inflight s) m.
