(* Router/StartupInit.v — C18: what a component's init ACQUIRES before it is registered with the router.

   Router/Startup.v treats every initialisation step of run() as atomic: it succeeds and registers a closer, or it
   fails and has done nothing.  That hides the error paths INSIDE a step: an init is a sequence

       check* ; acquire ; (check | acquire)* ; register

   (initUpstream: tag / duplicate / address / tls checks, NewUpstream - which for quic, doq and h3 opens a UDP
   socket -, metrics registration, r.upstreams[tag] = w;  initCache: memory cache, its metrics, redis client, its
   metrics, marker file, r.cache = c;  startQuicServer: tls config, UDP socket, quic listener, closer; ...) and a
   statement after the first acquire can fail.  What the init holds at that moment is in no table of the router,
   so the deferred r.close(err) of run() cannot reach it: the error path of THAT statement has to release it.

   Here an init is a program of statements; each statement says what it does and whether, when it fails, the code
   releases what the init holds ([si_rel]).  Resources are numbered; every resource ends in exactly one of
   [si_freed] (released: by an error path or by close), [si_regd] (reachable from the router), [si_lost]
   (unreachable and open).  Executable definitions only; proofs in Router/StartupInitProofs.v.
   All names are prefixed si_/Si/sr_/Sf. *)
From Mos Require Import Base.Prelude.

Inductive si_op :=
| SiCheck                                (* a test of the configuration / of a file: acquires nothing *)
| SiAcquire (nsock : nat) (gor : bool)   (* opens sockets / builds a transport / starts goroutines; fails = acquires nothing *)
| SiRegister.                            (* stores what is held where closeImpl finds it; cannot fail *)

Record si_stmt := { si_do : si_op; si_rel : bool }.
Definition si_prog := list si_stmt.

Record si_res := { sr_id : nat; sr_sock : nat; sr_gor : bool }.

Record si_st := {
  si_next  : nat;             (* number of resources acquired so far *)
  si_held  : list si_res;     (* acquired by the init that is running, not yet registered *)
  si_regd  : list si_res;     (* registered with the router *)
  si_freed : list si_res;     (* released, in order *)
  si_lost  : list si_res      (* neither registered nor released *)
}.

Definition si_st0 : si_st := {| si_next := 0; si_held := []; si_regd := []; si_freed := []; si_lost := [] |}.

Definition si_apply (o : si_op) (st : si_st) : si_st :=
  match o with
  | SiCheck => st
  | SiAcquire n g =>
      {| si_next := S (si_next st);
         si_held := si_held st ++ [{| sr_id := si_next st; sr_sock := n; sr_gor := g |}];
         si_regd := si_regd st; si_freed := si_freed st; si_lost := si_lost st |}
  | SiRegister =>
      {| si_next := si_next st; si_held := []; si_regd := si_regd st ++ si_held st;
         si_freed := si_freed st; si_lost := si_lost st |}
  end.

(* the statement that fails: its error path releases what is held, or just returns *)
Definition si_fail (rel : bool) (st : si_st) : si_st :=
  if rel
  then {| si_next := si_next st; si_held := []; si_regd := si_regd st;
          si_freed := si_freed st ++ si_held st; si_lost := si_lost st |}
  else {| si_next := si_next st; si_held := []; si_regd := si_regd st;
          si_freed := si_freed st; si_lost := si_lost st ++ si_held st |}.

(* the init returns without error: whatever it still holds was stored nowhere *)
Definition si_finish (st : si_st) : si_st :=
  {| si_next := si_next st; si_held := []; si_regd := si_regd st;
     si_freed := si_freed st; si_lost := si_lost st ++ si_held st |}.

Definition si_is (f : option nat) (j : nat) : bool := match f with Some k => k =? j | None => false end.
Definition si_can_fail (o : si_op) : bool := match o with SiRegister => false | _ => true end.

(* run one init from statement number j; f = the statement that fails (None: none); result: state, failed? *)
Fixpoint si_exec (p : si_prog) (j : nat) (f : option nat) (st : si_st) : si_st * bool :=
  match p with
  | [] => (si_finish st, false)
  | s :: tl => if si_is f j && si_can_fail (si_do s) then (si_fail (si_rel s) st, true)
               else si_exec tl (S j) f (si_apply (si_do s) st)
  end.

(* r.close(err) / router.close: everything registered is released *)
Definition si_close (st : si_st) : si_st :=
  {| si_next := si_next st; si_held := si_held st; si_regd := [];
     si_freed := si_freed st ++ si_regd st; si_lost := si_lost st |}.

(* run(): the inits in order; f = (component, statement) that fails; a failing init makes run() close the router
   (the deferred r.close(err)) and report the error *)
Fixpoint si_run_from (comps : list si_prog) (i : nat) (f : option (nat * nat)) (st : si_st) : si_st * option nat :=
  match comps with
  | [] => (st, None)
  | p :: tl =>
      let fj := match f with Some (ci, sj) => if ci =? i then Some sj else None | None => None end in
      let '(st', failed) := si_exec p 0 fj st in
      if failed then (si_close st', Some i) else si_run_from tl (S i) f st'
  end.

Definition si_run (comps : list si_prog) (f : option (nat * nat)) : si_st * option nat :=
  si_run_from comps 0 f si_st0.

(* ---- the static condition: a statement that can fail while the init holds something releases it, and nothing
   is held when the init returns ---- *)
Definition si_holding_after (o : si_op) (holding : bool) : bool :=
  match o with SiCheck => holding | SiAcquire _ _ => true | SiRegister => false end.

Fixpoint si_safe_from (p : si_prog) (holding : bool) : bool :=
  match p with
  | [] => negb holding
  | s :: tl =>
      (match si_do s with SiRegister => true | _ => si_rel s || negb holding end)
      && si_safe_from tl (si_holding_after (si_do s) holding)
  end.

Definition si_safeb (p : si_prog) : bool := si_safe_from p false.

(* ---- observers ---- *)
Definition si_count (id : nat) (l : list si_res) : nat := length (filter (fun r => sr_id r =? id) l).
Definition si_socks (l : list si_res) : nat := fold_right (fun r a => sr_sock r + a) 0 l.
Definition si_gors (l : list si_res) : bool := existsb sr_gor l.

(* =====================================================================================================
   The init programs of run() (the code as it is, with the two round-4 fixes), by component kind.
   ===================================================================================================== *)
Inductive si_upk := SiUpSock | SiUpLazy.      (* quic / doq / h3: UDP socket at construction; the others dial lazily *)
Inductive si_srvk := SiSrvUdp | SiSrvUdpN | SiSrvTcp | SiSrvGnet | SiSrvHttp | SiSrvFast | SiSrvTls | SiSrvHttps | SiSrvQuic.
(* SiSrvUdpN: udp.threads >= 2: one socket per thread, all with SO_REUSEPORT; a later ListenPacket failing closes the earlier ones *)

Inductive si_kind :=
| SiKMetrics
| SiKUp (k : si_upk)
| SiKSet
| SiKRule
| SiKCache (mem redis marker : bool)
| SiKSrv (k : si_srvk).

Definition si_chk : si_stmt := {| si_do := SiCheck; si_rel := false |}.        (* a check before anything is held *)
Definition si_chk_rel : si_stmt := {| si_do := SiCheck; si_rel := true |}.     (* a check whose error path releases *)
Definition si_acq (n : nat) (g : bool) : si_stmt := {| si_do := SiAcquire n g; si_rel := true |}.
Definition si_reg : si_stmt := {| si_do := SiRegister; si_rel := false |}.

(* [pinned] = the tree before the round-4 fixes: initUpstream returned the metrics-registration error without
   closing the upstream; initCache returned the redis error without closing the memory cache *)
Definition si_prog_of (pinned : bool) (k : si_kind) : si_prog :=
  match k with
  | SiKMetrics => [si_acq 1 true; si_reg]                       (* net.Listen; serverClosers = append(..); go Serve *)
  | SiKUp u =>
      [si_chk;                                                   (* 0 missing tag *)
       si_chk;                                                   (* 1 dup tag *)
       si_chk;                                                   (* 2 missing addr *)
       si_chk;                                                   (* 3 makeTlsConfig *)
       si_acq (match u with SiUpSock => 1 | SiUpLazy => 0 end) false;   (* 4 upstream.NewUpstream *)
       {| si_do := SiCheck; si_rel := negb pinned |};            (* 5 RegisterMetricsTo: u.Close() on error (fix) *)
       si_reg]                                                   (* 6 r.upstreams[tag] = w *)
  | SiKSet => [si_chk; si_chk; si_chk]                           (* tag, dup tag, files *)
  | SiKRule => [si_chk; si_chk]                                  (* domain set, upstream *)
  | SiKCache mem redis marker =>
      (if mem then [si_acq 0 true; si_chk_rel] else [])          (* NewMemoryCache; its metrics: c.Close() *)
      ++ (if redis then [{| si_do := SiAcquire 1 true; si_rel := negb pinned |}; si_chk_rel] else [])
                                                                 (* NewRedisCache: c.Close() on error (fix); its metrics *)
      ++ (if marker then [si_chk_rel] else [])                   (* loadIpMarkerFromFile: c.Close() *)
      ++ [si_reg]                                                (* r.cache = cache *)
  | SiKSrv s =>
      si_chk ::                                                  (* 0 the protocol switch of startServer *)
      match s with
      | SiSrvUdp | SiSrvTcp | SiSrvGnet | SiSrvFast => [si_acq 1 true; si_reg]
      | SiSrvUdpN => [si_acq 1 true; si_acq 1 true; si_reg]       (* the loop of startUdpServer: s.Close() on error *)
      | SiSrvHttp => [si_chk; si_acq 1 true; si_reg]             (* http2.ConfigureServer; listen *)
      | SiSrvTls => [si_chk; si_acq 1 true; si_reg]              (* makeTlsConfig; listen *)
      | SiSrvHttps => [si_chk; si_chk; si_acq 1 true; si_reg]    (* http2; makeTlsConfig; listen *)
      | SiSrvQuic => [si_chk; si_acq 1 false; si_acq 0 true; si_reg]   (* makeTlsConfig; ListenPacket; qt.Listen: qt.Close, uc.Close *)
      end
  end.

(* the C18-G shape: the duplicate-tag check AFTER NewUpstream, returning without u.Close() *)
Definition si_prog_up_check_after_build (u : si_upk) : si_prog :=
  [si_chk; si_chk; si_chk;
   si_acq (match u with SiUpSock => 1 | SiUpLazy => 0 end) false;
   si_chk;                                                       (* dup tag: holds u, releases nothing *)
   si_chk_rel; si_reg].

(* ---- configuration faults and the statement at which each makes the init fail (None: not an error) ---- *)
Inductive si_fault :=
| SfInUse | SfProto | SfBadAddr
| SfNoCert | SfCertOnly | SfKeyOnly | SfCertMissing | SfCertGarbage | SfMismatch | SfCaMissing | SfCaGarbage | SfVccNoCa
| SfNoTag | SfDupTag | SfNoAddr | SfScheme | SfBadTag
| SfNoFile | SfBadData | SfNoSet | SfNoUp | SfNoMarker | SfBadMarker | SfBadRedis
| SfHeldByRouter (rp : bool).   (* the address is held by ANOTHER INSTANCE of the router with the same listener;
                                  rp: socket.so_reuseport is configured explicitly (on both) *)

(* makeTlsConfig(cfg, requireCert) rejects: *)
Definition si_tls_rejects (require_cert : bool) (f : si_fault) : bool :=
  match f with
  | SfNoCert | SfCertOnly | SfKeyOnly => require_cert          (* "missing required cert or key" *)
  | SfCertMissing | SfCertGarbage | SfMismatch => true         (* LoadX509KeyPair *)
  | SfCaMissing | SfCaGarbage => true                          (* loadCA *)
  | SfVccNoCa => true                                          (* verify_client_cert requires a ca *)
  | _ => false
  end.

Definition si_is_listen_fault (f : si_fault) : bool := match f with SfInUse | SfBadAddr => true | _ => false end.

(* the statement of a listener's init that binds the address (the first one for udp.threads >= 2) *)
Definition si_listen_stmt (s : si_srvk) : nat :=
  match s with
  | SiSrvUdp | SiSrvUdpN | SiSrvTcp | SiSrvGnet | SiSrvFast => 1
  | SiSrvHttp | SiSrvTls | SiSrvQuic => 2
  | SiSrvHttps => 3
  end.
(* listeners whose socket options come from the configuration (socket.so_reuseport): startQuicServer and the
   metrics endpoint use a plain ListenPacket / Listen *)
Definition si_applies_sockopts (s : si_srvk) : bool := match s with SiSrvQuic => false | _ => true end.
(* startUdpServer: if threads > 1 { socketOpts.SO_REUSEPORT = true } *)
Definition si_threads_reuseport (s : si_srvk) : bool := match s with SiSrvUdpN => true | _ => false end.

Definition si_fault_stmt (k : si_kind) (f : si_fault) : option nat :=
  match k with
  | SiKMetrics => match f with SfHeldByRouter _ => Some 0 | _ => if si_is_listen_fault f then Some 0 else None end
  | SiKUp _ =>
      match f with
      | SfNoTag => Some 0 | SfDupTag => Some 1 | SfNoAddr => Some 2
      | SfScheme => Some 4 | SfBadTag => Some 5
      | _ => if si_tls_rejects false f then Some 3 else None
      end
  | SiKSet => match f with SfNoTag => Some 0 | SfDupTag => Some 1 | SfNoFile | SfBadData => Some 2 | _ => None end
  | SiKRule => match f with SfNoSet => Some 0 | SfNoUp => Some 1 | _ => None end
  | SiKCache mem redis marker =>
      let nm := if mem then 2 else 0 in
      let nr := if redis then 2 else 0 in
      match f with
      | SfBadRedis => if redis then Some nm else None
      | SfNoMarker | SfBadMarker => if marker then Some (nm + nr) else None
      | _ => None
      end
  | SiKSrv s =>
      match f with
      | SfProto => Some 0
      | SfHeldByRouter rp =>
          (* two sockets share an address only when BOTH carry SO_REUSEPORT: configured explicitly (every listener
             built on controlSocket(cfg.Socket): all but quic), or set by startUdpServer for udp.threads > 1 *)
          if (rp && si_applies_sockopts s) || si_threads_reuseport s then None else Some (si_listen_stmt s)
      | _ =>
          match s with
          | SiSrvUdp | SiSrvUdpN | SiSrvTcp | SiSrvGnet | SiSrvFast | SiSrvHttp =>
              if si_is_listen_fault f then Some (si_listen_stmt s) else None
          | SiSrvTls | SiSrvHttps | SiSrvQuic =>
              if si_tls_rejects true f then Some (si_listen_stmt s - 1)
              else if si_is_listen_fault f then Some (si_listen_stmt s) else None
          end
      end
  end.

(* a configuration = its items in the order of run(), each with at most one fault; the first item whose fault
   is an error decides where run() fails *)
Definition si_item := (si_kind * option si_fault)%type.

Fixpoint si_first_fault (items : list si_item) (i : nat) : option (nat * nat) :=
  match items with
  | [] => None
  | (k, Some f) :: tl =>
      match si_fault_stmt k f with Some j => Some (i, j) | None => si_first_fault tl (S i) end
  | (_, None) :: tl => si_first_fault tl (S i)
  end.

(* what the harness observes: (run() reported an error, sockets left over, goroutines left over);
   a router that started is closed again before the process is inspected *)
Definition si_observe (pinned : bool) (items : list si_item) : bool * nat * bool :=
  let comps := map (fun it => si_prog_of pinned (fst it)) items in
  let '(st, failed) := si_run comps (si_first_fault items 0) in
  let st' := match failed with Some _ => st | None => si_close st end in
  (match failed with Some _ => true | None => false end, si_socks (si_lost st' ++ si_regd st'), si_gors (si_lost st' ++ si_regd st')).

Definition si_all_kinds : list si_kind :=
  [SiKMetrics; SiKUp SiUpSock; SiKUp SiUpLazy; SiKSet; SiKRule]
  ++ map (fun b => SiKCache (fst (fst b)) (snd (fst b)) (snd b))
         [(false, false, false); (false, false, true); (false, true, false); (false, true, true);
          (true, false, false); (true, false, true); (true, true, false); (true, true, true)]
  ++ map SiKSrv [SiSrvUdp; SiSrvUdpN; SiSrvTcp; SiSrvGnet; SiSrvHttp; SiSrvFast; SiSrvTls; SiSrvHttps; SiSrvQuic].

(* =====================================================================================================
   "address in use" when the holder is another instance of the router.
   The property names address in use as a start-up error; two instances sharing an address is legitimate only
   when the listener's sockets carry SO_REUSEPORT: configured explicitly (socket.so_reuseport), or implied by
   udp.threads >= 2 (the documented way the proxy opens several sockets on one UDP address: the kernel then reports
   no error for a further instance of the same user, so there is no start-up error to report).
   [si_must_refuse] is that requirement, [si_fault_stmt] is the code.
   ===================================================================================================== *)
Definition si_must_refuse (k : si_kind) (rp : bool) : bool :=
  match k with
  | SiKMetrics => true
  | SiKSrv s => negb ((rp && si_applies_sockopts s) || si_threads_reuseport s)
  | _ => false
  end.

Definition si_refuses (k : si_kind) (rp : bool) : bool :=
  match si_fault_stmt k (SfHeldByRouter rp) with Some _ => true | None => false end.

(* =====================================================================================================
   The closers and their peers.  closeImpl calls the closers one after the other; a closer that waits for its
   peers (clients that are connected, in the middle of a handshake or of a request) returns only when THEY are
   done, and the closers behind it are not called before.
     SiNoWait      closes the listening socket(s) / connections and returns (http.Server.Close, net.Listener.Close,
                   quic.Listener + Transport + socket, gnet engine.Stop, UDP sockets)
     SiWaitGrace   waits for its peers at most a fixed period (fasthttp: ShutdownWithContext with a 1 s deadline;
                   before the round-5 fix Shutdown(), bounded only by the server's ReadTimeout of 5 s)
     SiWaitPeers   waits until its peers are done (http.Server.Shutdown(context.Background()) on a server without
                   timeouts: the C18-J shape)
   ===================================================================================================== *)
Inductive si_wait := SiNoWait | SiWaitGrace | SiWaitPeers.

Definition si_closer_wait (k : si_kind) : option si_wait :=
  match k with
  | SiKMetrics => Some SiNoWait                       (* func() { s.Close() } *)
  | SiKSrv SiSrvFast => Some SiWaitGrace
  | SiKSrv _ => Some SiNoWait
  | SiKUp _ => Some SiNoWait
  | SiKCache _ _ _ => Some SiNoWait
  | SiKSet | SiKRule => None
  end.

(* walk over the closers in order; stuck = a peer of that closer never finishes.
   Result: number of closers that returned, did close return? *)
Fixpoint si_close_walk (cl : list (si_wait * bool)) : nat * bool :=
  match cl with
  | [] => (0, true)
  | (w, stuck) :: tl =>
      if (match w with SiWaitPeers => stuck | _ => false end) then (0, false)
      else let '(n, b) := si_close_walk tl in (S n, b)
  end.

Definition si_no_peer_wait (cl : list si_wait) : bool :=
  forallb (fun w => match w with SiWaitPeers => false | _ => true end) cl.

(* the closers of a configuration, each with "a stuck client is attached to this item" *)
Fixpoint si_closers (items : list (si_kind * bool)) : list (si_wait * bool) :=
  match items with
  | [] => []
  | (k, stuck) :: tl =>
      match si_closer_wait k with
      | Some w => (w, stuck) :: si_closers tl
      | None => si_closers tl
      end
  end.

Definition si_close_returns (items : list (si_kind * bool)) : bool :=
  snd (si_close_walk (si_closers items)).

(* =====================================================================================================
   Round 8.  (a) The dial closure of a TLS upstream (upstream.go NewUpstream, case "tls": dialTLS) as an init
   program: TCP connect (acquires the socket), TLS handshake (can fail ON ITS OWN: untrusted / expired / wrong-name
   certificate - crypto/tls closes the socket only when the handshake is CANCELLED), return the connection to the
   transport (register).  [closes_on_failure] = the closure calls tlsConn.Close() when HandshakeContext fails.
   (b) cacheCtl.Close as a program over the tiers the cache owns: every tier is closed whatever an earlier
   tier's Close returned; [early] = `return c.memory.Close()` - the program ends after the first tier it closes.
   ===================================================================================================== *)
Definition si_prog_dial_tls (closes_on_failure : bool) : si_prog :=
  [si_acq 1 false;                                              (* dialer.DialContext *)
   {| si_do := SiCheck; si_rel := closes_on_failure |};         (* tlsConn.HandshakeContext(ctx) *)
   si_reg].                                                     (* return tlsConn: the transport tracks it *)

Inductive si_tier := SiTierMem | SiTierRedis.

Definition si_cache_tiers (mem redis : bool) : list si_tier :=
  (if mem then [SiTierMem] else []) ++ (if redis then [SiTierRedis] else []).

(* the tiers Close() closes, in order *)
Definition si_cache_close (early : bool) (tiers : list si_tier) : list si_tier :=
  if early then firstn 1 tiers else tiers.

Definition si_tier_eqb (a b : si_tier) : bool :=
  match a, b with SiTierMem, SiTierMem | SiTierRedis, SiTierRedis => true | _, _ => false end.

(* tiers left open by Close *)
Definition si_cache_left (early : bool) (mem redis : bool) : list si_tier :=
  filter (fun t => negb (existsb (si_tier_eqb t) (si_cache_close early (si_cache_tiers mem redis))))
         (si_cache_tiers mem redis).
