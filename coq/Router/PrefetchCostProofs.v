(* Router/PrefetchCostProofs.v — proofs about Router/PrefetchCost.v. *)
From Mos Require Import Base.Prelude Router.PrefetchCost.

Local Open Scope Z_scope.

(* ------------------------------------------------------------------ buckets *)
Lemma pco_tok_set burst st k t b :
  pco_tok burst (pco_set st k t) b = if N.eqb b k then t else pco_tok burst st b.
Proof. unfold pco_tok, pco_set. cbn. destruct (N.eqb b k); reflexivity. Qed.

Lemma pco_conn_cost_nonneg l : 0 <= pco_conn_cost l. Proof. destruct l; cbn; lia. Qed.
Lemma pco_query_cost_nonneg l : 0 <= pco_query_cost l. Proof. destruct l; cbn; lia. Qed.
Lemma pco_kind_cost_pos k : 0 < pco_kind_cost k. Proof. destruct k; cbn; lia. Qed.

Lemma pco_own_nonneg b e : 0 <= pco_own b e.
Proof.
  destruct e as [l peer client k|c]; cbn; [|lia].
  pose proof (pco_conn_cost_nonneg l). pose proof (pco_query_cost_nonneg l). pose proof (pco_kind_cost_pos k).
  destruct (pco_is b peer), (pco_is b client); lia.
Qed.
Lemma pco_gown_nonneg e : 0 <= pco_gown e.
Proof.
  destruct e as [l peer client k|c]; cbn; [|lia].
  pose proof (pco_conn_cost_nonneg l). pose proof (pco_query_cost_nonneg l). pose proof (pco_kind_cost_pos k).
  destruct (pco_valid peer), (pco_valid client); lia.
Qed.
Lemma pco_total_cons b e t : pco_total b (e :: t) = pco_own b e + pco_total b t. Proof. reflexivity. Qed.
Lemma pco_gtotal_cons e t : pco_gtotal (e :: t) = pco_gown e + pco_gtotal t. Proof. reflexivity. Qed.
Lemma pco_total_nonneg b evs : 0 <= pco_total b evs.
Proof. induction evs as [|e t IH]; [cbn; lia|]. rewrite pco_total_cons. pose proof (pco_own_nonneg b e). lia. Qed.
Lemma pco_gtotal_nonneg evs : 0 <= pco_gtotal evs.
Proof. induction evs as [|e t IH]; [cbn; lia|]. rewrite pco_gtotal_cons. pose proof (pco_gown_nonneg e). lia. Qed.

(* a charge that the buckets can pay succeeds and takes exactly n from the address' bucket and from the global one *)
Definition pco_after (burst : Z) (st st' : pco_state) (a : option N) (n : Z) : Prop :=
  (forall b, pco_tok burst st' b = pco_tok burst st b - (if pco_is b a then n else 0)) /\
  pco_g st' = option_map (fun g => g - (if pco_valid a then n else 0)) (pco_g st).

Lemma pco_allow_spec burst st a n :
  (forall k, a = Some k -> n <= pco_tok burst st k) ->
  (forall g, pco_g st = Some g -> pco_valid a = true -> n <= g) ->
  exists st', pco_allow burst st a n = (st', true) /\ pco_after burst st st' a n.
Proof.
  intros Hc Hg. destruct a as [k|].
  - unfold pco_allow. specialize (Hc k eq_refl).
    destruct (pco_g st) as [g|] eqn:G.
    + specialize (Hg g eq_refl eq_refl).
      assert (n <=? g = true) as -> by (apply Z.leb_le; exact Hg).
      assert (T : pco_tok burst (mkPco (Some (g - n)) (pco_b st)) k = pco_tok burst st k) by reflexivity.
      rewrite T. assert (n <=? pco_tok burst st k = true) as -> by (apply Z.leb_le; exact Hc).
      eexists. split; [reflexivity|]. split.
      * intros b. rewrite pco_tok_set. cbn [pco_is]. rewrite (N.eqb_sym k b).
        destruct (N.eqb b k) eqn:E; [apply N.eqb_eq in E; subst b; lia|].
        change (pco_tok burst (mkPco (Some (g - n)) (pco_b st)) b) with (pco_tok burst st b). lia.
      * cbn. rewrite G. reflexivity.
    + assert (n <=? pco_tok burst st k = true) as -> by (apply Z.leb_le; exact Hc).
      eexists. split; [reflexivity|]. split.
      * intros b. rewrite pco_tok_set. cbn [pco_is]. rewrite (N.eqb_sym k b).
        destruct (N.eqb b k) eqn:E; [apply N.eqb_eq in E; subst b; lia|lia].
      * cbn. rewrite G. reflexivity.
  - exists st. split; [reflexivity|]. split.
    + intros b. cbn. lia.
    + cbn. destruct (pco_g st); cbn; [f_equal; lia|reflexivity].
Qed.

Lemma pco_charge_spec burst st a n :
  0 <= n ->
  (forall k, a = Some k -> n <= pco_tok burst st k) ->
  (forall g, pco_g st = Some g -> pco_valid a = true -> n <= g) ->
  exists st', pco_charge burst st a n = (st', true) /\ pco_after burst st st' a n.
Proof.
  intros N0 Hc Hg. unfold pco_charge. destruct (0 <? n) eqn:P.
  - apply pco_allow_spec; auto.
  - apply Z.ltb_ge in P. assert (n = 0) by lia. subst n. exists st. split; [reflexivity|]. split.
    + intros b. destruct (pco_is b a); lia.
    + destruct (pco_g st); cbn; [f_equal; destruct (pco_valid a); lia|reflexivity].
Qed.

(* ------------------------------------------------------------------ a request that the buckets can pay *)
Lemma pco_is_some b a : pco_is b a = true -> a = Some b.
Proof. destruct a as [k|]; cbn; [|discriminate]. intros E. apply N.eqb_eq in E. subst. reflexivity. Qed.

Lemma pco_req_ample fwd burst st l peer client k :
  (forall b, pco_own b (PcoReq l peer client k) <= pco_tok burst st b) ->
  (forall g, pco_g st = Some g -> pco_gown (PcoReq l peer client k) <= g) ->
  exists st', pco_step fwd burst st (PcoReq l peer client k) = (st', PcoAnswered k) /\
    (forall b, pco_tok burst st' b = pco_tok burst st b - pco_own b (PcoReq l peer client k)) /\
    pco_g st' = option_map (fun g => g - pco_gown (PcoReq l peer client k)) (pco_g st).
Proof.
  intros Hb Hg. cbn [pco_own pco_gown] in *.
  pose proof (pco_conn_cost_nonneg l) as C0. pose proof (pco_query_cost_nonneg l) as Q0.
  pose proof (pco_kind_cost_pos k) as K0.
  (* connection *)
  destruct (pco_charge_spec burst st peer (pco_conn_cost l) C0) as [st1 [E1 [T1 G1]]].
  { intros b ->. specialize (Hb b). cbn [pco_is] in Hb. rewrite N.eqb_refl in Hb. destruct (pco_is b client); lia. }
  { intros g G V. specialize (Hg g G). rewrite V in Hg. destruct (pco_valid client); lia. }
  (* query *)
  destruct (pco_charge_spec burst st1 client (pco_query_cost l) Q0) as [st2 [E2 [T2 G2]]].
  { intros b ->. rewrite T1. specialize (Hb b). cbn [pco_is] in Hb. rewrite N.eqb_refl in Hb.
    destruct (pco_is b peer); lia. }
  { intros g G V. rewrite G1 in G. destruct (pco_g st) as [g0|] eqn:G0; [|discriminate]. cbn in G. inversion G; subst g.
    specialize (Hg g0 eq_refl). rewrite V in Hg. destruct (pco_valid peer); lia. }
  (* outcome *)
  destruct (pco_allow_spec burst st2 client (pco_kind_cost k)) as [st3 [E3 [T3 G3]]].
  { intros b ->. rewrite T2, T1. specialize (Hb b). cbn [pco_is] in Hb. rewrite N.eqb_refl in Hb.
    cbn [pco_is]. rewrite N.eqb_refl. destruct (pco_is b peer); lia. }
  { intros g G V. rewrite G2, G1 in G. destruct (pco_g st) as [g0|] eqn:G0; [|discriminate]. cbn in G. inversion G; subst g.
    specialize (Hg g0 eq_refl). rewrite V in Hg. rewrite V. destruct (pco_valid peer); lia. }
  exists st3. split; [|split].
  - cbn [pco_step]. rewrite E1. cbn [negb]. rewrite E2. cbn [negb]. rewrite E3. reflexivity.
  - intros b. rewrite T3, T2, T1. destruct (pco_is b peer), (pco_is b client); lia.
  - rewrite G3, G2, G1. destruct (pco_g st); cbn; [f_equal; destruct (pco_valid peer), (pco_valid client); lia|reflexivity].
Qed.

(* ------------------------------------------------------------------ runs *)
Definition pco_all_answered (rs : list pco_res) : Prop := Forall (fun r => pco_answered r = true) rs.

(* the code (fwd = false): whatever refreshes run in the background, whenever, however many, with whatever result —
   a run whose buckets can pay the clients' OWN requests answers every request, and every bucket ends exactly
   burst - (cost of its own requests) *)
Theorem pco_run_ample burst evs : forall st,
  (forall b, pco_total b evs <= pco_tok burst st b) ->
  (forall g, pco_g st = Some g -> pco_gtotal evs <= g) ->
  pco_all_answered (snd (pco_run false burst st evs)) /\
  (forall b, pco_tok burst (fst (pco_run false burst st evs)) b = pco_tok burst st b - pco_total b evs) /\
  pco_g (fst (pco_run false burst st evs)) = option_map (fun g => g - pco_gtotal evs) (pco_g st).
Proof.
  induction evs as [|e t IH]; intros st Hb Hg.
  - cbn. split; [constructor|]. split; [intros b; lia|]. destruct (pco_g st); cbn; [f_equal; lia|reflexivity].
  - assert (Hb' : forall b, pco_own b e + pco_total b t <= pco_tok burst st b)
      by (intros b; rewrite <- pco_total_cons; apply Hb).
    assert (Hg' : forall g, pco_g st = Some g -> pco_gown e + pco_gtotal t <= g)
      by (intros g Gs; rewrite <- pco_gtotal_cons; apply Hg; exact Gs).
    destruct e as [l peer client k|c].
    + destruct (pco_req_ample false burst st l peer client k) as [st1 [E [T G]]].
      { intros b. specialize (Hb' b). pose proof (pco_total_nonneg b t). lia. }
      { intros g Gs. specialize (Hg' g Gs). pose proof (pco_gtotal_nonneg t). lia. }
      cbn [pco_run]. rewrite E.
      destruct (IH st1) as [A [TT GG]].
      { intros b. rewrite T. specialize (Hb' b). lia. }
      { intros g Gs. rewrite G in Gs. destruct (pco_g st) as [g0|] eqn:G0; [|discriminate].
        cbn [option_map] in Gs. injection Gs as <-. specialize (Hg' g0 eq_refl).
        cbn [pco_gown] in Hg'. lia. }
      destruct (pco_run false burst st1 t) as [st2 rs] eqn:R. cbn [fst snd] in *.
      split; [constructor; [reflexivity|exact A]|]. split.
      * intros b. rewrite TT, T, pco_total_cons. lia.
      * rewrite GG, G, pco_gtotal_cons.
        destruct (pco_g st); cbn; [f_equal; lia|reflexivity].
    + cbn [pco_run pco_step].
      destruct (IH st) as [A [TT GG]].
      { intros b. specialize (Hb' b). cbn [pco_own] in Hb'. lia. }
      { intros g Gs. specialize (Hg' g Gs). cbn [pco_gown] in Hg'. lia. }
      destruct (pco_run false burst st t) as [st2 rs] eqn:R. cbn [fst snd] in *.
      split; [constructor; [reflexivity|exact A]|]. split.
      * intros b. rewrite TT, pco_total_cons. cbn [pco_own]. lia.
      * rewrite GG, pco_gtotal_cons. cbn [pco_gown].
        destruct (pco_g st); cbn; [f_equal; lia|reflexivity].
Qed.

(* independence, without any assumption on the budget: deleting every refresh from a run changes neither a bucket nor
   the fate of a request *)
Lemma pco_req_not_bg fwd burst st l peer client k : pco_is_bg (snd (pco_step fwd burst st (PcoReq l peer client k))) = false.
Proof.
  cbn [pco_step]. destruct (pco_charge burst st peer (pco_conn_cost l)) as [st1 ok1]. destruct ok1; cbn [negb]; [|reflexivity].
  destruct (pco_charge burst st1 client (pco_query_cost l)) as [st2 ok2]. destruct ok2; reflexivity.
Qed.

Theorem pco_run_refresh_free burst evs : forall st,
  fst (pco_run false burst st evs) = fst (pco_run false burst st (filter pco_is_req evs)) /\
  filter (fun r => negb (pco_is_bg r)) (snd (pco_run false burst st evs)) =
    snd (pco_run false burst st (filter pco_is_req evs)).
Proof.
  induction evs as [|e t IH]; intros st; [cbn; auto|].
  destruct e as [l peer client k|c].
  - cbn [filter pco_is_req pco_run].
    pose proof (pco_req_not_bg false burst st l peer client k) as NB.
    destruct (pco_step false burst st (PcoReq l peer client k)) as [st1 r]. cbn [snd] in NB.
    destruct (IH st1) as [F S].
    destruct (pco_run false burst st1 t) as [st2 rs]. destruct (pco_run false burst st1 (filter pco_is_req t)) as [st2' rs'].
    cbn [fst snd] in *. split; [exact F|]. cbn [filter]. rewrite NB. cbn [negb]. rewrite S. reflexivity.
  - cbn [filter pco_is_req pco_run pco_step].
    destruct (IH st) as [F S].
    destruct (pco_run false burst st t) as [st2 rs]. cbn [fst snd] in *. split; [exact F|]. cbn. exact S.
Qed.

(* two runs with the same requests in the same order and ARBITRARY refreshes in between agree *)
Corollary pco_run_same_requests burst st evs1 evs2 :
  filter pco_is_req evs1 = filter pco_is_req evs2 ->
  fst (pco_run false burst st evs1) = fst (pco_run false burst st evs2) /\
  filter (fun r => negb (pco_is_bg r)) (snd (pco_run false burst st evs1)) =
  filter (fun r => negb (pco_is_bg r)) (snd (pco_run false burst st evs2)).
Proof.
  intros E. destruct (pco_run_refresh_free burst evs1 st) as [F1 S1]. destruct (pco_run_refresh_free burst evs2 st) as [F2 S2].
  rewrite F1, F2, S1, S2, E. auto.
Qed.

(* the cost of the own requests does not see the refreshes either *)
Lemma pco_total_filter b evs : pco_total b (filter pco_is_req evs) = pco_total b evs.
Proof.
  induction evs as [|e t IH]; [reflexivity|]. destruct e as [l peer client k|c]; cbn [filter pco_is_req].
  - rewrite !pco_total_cons, IH. reflexivity.
  - rewrite pco_total_cons, IH. cbn [pco_own]. lia.
Qed.

Lemma pco_total_repeat b e n : pco_total b (repeat e n) = Z.of_nat n * pco_own b e.
Proof. induction n as [|n IH]; [reflexivity|]. cbn [repeat]. rewrite pco_total_cons, IH. lia. Qed.

(* a budget sized for n hits of one client lets in and answers these n hits whatever the background does *)
Theorem pco_budget_for_hits burst l peer client n evs :
  filter pco_is_req evs = repeat (PcoReq l peer client PcoHit) n ->
  (forall b, Z.of_nat n * pco_own b (PcoReq l peer client PcoHit) <= burst) ->
  pco_all_answered (snd (pco_run false burst (pco_init None) evs)).
Proof.
  intros F B. apply (pco_run_ample burst evs (pco_init None)).
  - intros b. rewrite <- pco_total_filter, F, pco_total_repeat. exact (B b).
  - intros g G. discriminate.
Qed.
