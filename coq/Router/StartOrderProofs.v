(* Router/StartOrderProofs.v : whatever prefix of run() has been executed when a query arrives, a listener that
   answers decides with the complete rule list over completely loaded domain sets. *)
From Mos Require Import Base.Prelude Router.Rules Router.StartOrder.

Lemma so_exec_app p q : so_exec (p ++ q) = fold_left so_exec1 q (so_exec p).
Proof. unfold so_exec. apply fold_left_app. Qed.

Definition so_not_serve (st : so_step) : bool := match st with SoServe => false | _ => true end.

Lemma so_no_serve_keeps p : forall s, forallb so_not_serve p = true ->
  so_serving (fold_left so_exec1 p s) = so_serving s.
Proof.
  induction p as [|st p IH]; intros s H; cbn in *; [reflexivity|].
  apply andb_true_iff in H. destruct H as [H1 H2]. rewrite (IH _ H2). destruct st; try reflexivity; discriminate.
Qed.

Lemma forallb_firstn {A} (f : A -> bool) (l : list A) : forall k, forallb f l = true -> forallb f (firstn k l) = true.
Proof.
  induction l as [|x l IH]; intros [|k] H; cbn in *; auto.
  apply andb_true_iff in H. destruct H as [H1 H2]. rewrite H1, (IH k H2). reflexivity.
Qed.

Lemma so_fold_sets l : forall s,
  fold_left so_exec1 (map SoSet l) s = mkSo (rev l ++ so_loaded s) (so_rules s) (so_serving s).
Proof.
  induction l as [|i l IH]; intros s; cbn [map fold_left]; [destruct s; reflexivity|].
  rewrite IH. cbn. rewrite <- app_assoc. reflexivity.
Qed.

Lemma so_fold_rules rs : forall s,
  fold_left so_exec1 (map SoRule rs) s = mkSo (so_loaded s) (so_rules s ++ rs) (so_serving s).
Proof.
  induction rs as [|r rs IH]; intros s; cbn [map fold_left]; [rewrite app_nil_r; destruct s; reflexivity|].
  rewrite IH. cbn. rewrite <- app_assoc. reflexivity.
Qed.

Lemma so_fold_serves k : forall s,
  fold_left so_exec1 (repeat SoServe k) s = mkSo (so_loaded s) (so_rules s) (so_serving s || Nat.ltb 0 k).
Proof.
  induction k as [|k IH]; intros s; cbn [repeat fold_left]; [rewrite orb_false_r; destruct s; reflexivity|].
  rewrite IH. cbn. rewrite orb_true_r. destruct k; cbn; rewrite ?orb_true_r; reflexivity.
Qed.

Lemma firstn_repeat_min {A} (x : A) n : forall j, firstn j (repeat x n) = repeat x (Nat.min j n).
Proof. induction n as [|n IH]; intros [|j]; cbn; auto. rewrite IH. reflexivity. Qed.

Definition so_init_part (nsets : nat) (rules : list rule) : list so_step :=
  SoOther :: map SoSet (seq 0 nsets) ++ map SoRule rules ++ [SoOther].

Lemma so_run_prog_split nsets rules ns :
  so_run_prog nsets rules ns = so_init_part nsets rules ++ repeat SoServe ns.
Proof. unfold so_run_prog, so_init_part. cbn. rewrite <- !app_assoc. reflexivity. Qed.

Lemma so_init_part_no_serve nsets rules : forallb so_not_serve (so_init_part nsets rules) = true.
Proof.
  unfold so_init_part. cbn. rewrite !forallb_app. cbn.
  assert (forall l, forallb so_not_serve (map SoSet l) = true) as A by (induction l; cbn; auto).
  assert (forall l, forallb so_not_serve (map SoRule l) = true) as B by (induction l; cbn; auto).
  rewrite A, B. reflexivity.
Qed.

Lemma so_exec_init_part nsets rules :
  so_exec (so_init_part nsets rules) = mkSo (rev (seq 0 nsets)) rules false.
Proof.
  unfold so_init_part, so_exec. cbn [fold_left so_exec1]. rewrite !fold_left_app, so_fold_sets, so_fold_rules.
  cbn. rewrite app_nil_r. reflexivity.
Qed.

(* the decision only reads the domain sets the rules refer to *)
Lemma select_from_ext (m1 m2 : nat -> list N -> bool) name rules : forall i,
  (forall r s rev, In r rules -> ru_cond r = Some (s, rev) -> m1 s name = m2 s name) ->
  select_from m1 i rules name = select_from m2 i rules name.
Proof.
  induction rules as [|r rules IH]; intros i H; cbn; [reflexivity|].
  assert (applies m1 r name = applies m2 r name) as E.
  { unfold applies. destruct (ru_cond r) as [[s rev]|] eqn:C; [|reflexivity].
    rewrite (H r s rev (or_introl eq_refl) C). reflexivity. }
  rewrite E. destruct (applies m2 r name); [reflexivity|]. apply IH. intros r' s rev Hin. apply H. now right.
Qed.

Lemma decide_ext (m1 m2 : nat -> list N -> bool) name rules :
  (forall r s rev, In r rules -> ru_cond r = Some (s, rev) -> m1 s name = m2 s name) ->
  decide m1 rules name = decide m2 rules name.
Proof. intros H. unfold decide, select. rewrite (select_from_ext m1 m2 name rules 0 H). reflexivity. Qed.

Lemma so_loaded_all nsets i : i < nsets -> existsb (Nat.eqb i) (rev (seq 0 nsets)) = true.
Proof.
  intros H. apply existsb_exists. exists i. split; [|apply Nat.eqb_refl].
  apply in_rev. rewrite rev_involutive. apply in_seq. lia.
Qed.

(* the state after the complete initialisation and k >= 0 started servers decides like the configured router *)
Lemma so_decide_after_init matches nsets rules k name :
  so_rules_ok nsets rules = true ->
  so_decide matches (fold_left so_exec1 (repeat SoServe k) (so_exec (so_init_part nsets rules))) name =
  if Nat.ltb 0 k then Some (decide matches rules name) else None.
Proof.
  intros Hok. rewrite so_fold_serves, so_exec_init_part. unfold so_decide. cbn [so_serving so_rules so_loaded orb].
  destruct (Nat.ltb 0 k); [|reflexivity]. f_equal. apply decide_ext.
  intros r s rev Hin Hc. unfold so_matches, so_is_loaded. cbn [so_loaded].
  unfold so_rules_ok in Hok. rewrite forallb_forall in Hok. specialize (Hok r Hin). rewrite Hc in Hok.
  apply Nat.ltb_lt in Hok. rewrite (so_loaded_all nsets s Hok). reflexivity.
Qed.

(* every prefix of run() *)
Lemma so_run_order_safe matches nsets rules ns j name :
  so_rules_ok nsets rules = true ->
  let s := so_exec (firstn j (so_run_prog nsets rules ns)) in
  so_decide matches s name = None \/ so_decide matches s name = Some (decide matches rules name).
Proof.
  intros Hok. cbn zeta. rewrite so_run_prog_split, firstn_app.
  destruct (Nat.leb j (length (so_init_part nsets rules))) eqn:L.
  - (* still inside the initialisation: nobody is listening *)
    apply Nat.leb_le in L. left.
    replace (j - length (so_init_part nsets rules)) with 0 by lia. cbn [firstn]. rewrite app_nil_r.
    unfold so_decide, so_exec. rewrite so_no_serve_keeps; [reflexivity|].
    apply forallb_firstn. apply so_init_part_no_serve.
  - apply Nat.leb_gt in L. rewrite firstn_all2 by lia. rewrite so_exec_app.
    rewrite firstn_repeat_min. rewrite so_decide_after_init by exact Hok.
    destruct (Nat.ltb 0 _); [now right|now left].
Qed.
