(* Router/PrefetchGroups.v — the client-group dimension of the prefetch model (C19, one clause shared with C07).

   Router/Prefetch.v abstracts the cache key (question, client group) to one identifier.  This file makes the
   two components explicit:

     handleReq:                   ipMark := c.ipMark(rc.RemoteAddr.Addr())         cache.go Get
                                  key    := cacheKey(q, ipMark)
     asyncSingleFlightPrefetch(q, rc.RemoteAddr.Addr(), upstream)                  router.go: the ADDRESS (a value)
         key := keyForPrefetch(q, remoteAddr)                                      is the argument, not rc
         go func() { doPrefetch(qCopy, remoteAddr, u); ...; done(key) }()
     doPrefetch:  forward(ctx, u, q, remoteAddr)         (ECS option of the refresh query)
                  cache.Store(q, remoteAddr, resp)       (mark := ipMark(remoteAddr); cacheKey(q, mark))

   A client is an address or "no valid address" (DoH without the client-address header, a unix socket; also the
   zero value a released RequestContext holds).  Its group is the label of the ip-marker range that contains the
   address, "" when there is no marker / no valid address / no range (Cache/Netlist.v mark_of, C07's model of
   cacheCtl.ipMark).  The key of the LTS is an injective code of (question identifier, group label).

   The request context rc of the hit is a POOLED object: once the hit has been written out it is zeroed and put
   back (releaseRequestContext), and may be handed to any other client's request.  The refresh goroutine
   outlives the hit by design (that is C19), so whatever it needs of rc must be copied when it is spawned; the
   code copies the address (and the question: q.Copy()).  [pg_refresh_client] models both designs; the second
   one ("keep rc, read rc.RemoteAddr when the upstream has answered") is refuted in Props/C19.v.

   No proofs in this file. *)
From Mos Require Import Base.Prelude Cache.Netlist Router.Prefetch.

(* ------------------------------------------------------------------ clients and groups *)

(* cacheCtl.ipMark: the group label of a client; mark_of never fails on a built marker (C07_lookup_safe) *)
Definition pg_group (mk : option (list range)) (c : option nl_addr) : list N :=
  match mark_of mk c with Ok l => l | _ => [] end.

(* injective code of a label (octets): big-endian base 256 behind a leading 1 *)
Definition pg_lab_code (g : list N) : N := fold_left (fun a b => (a * 256 + b)%N) g 1%N.

(* the key of the Prefetch LTS for (question identifier < 2^32, group label) *)
Definition pg_ck (q : N) (g : list N) : N := (pg_lab_code g * 4294967296 + q)%N.

Definition pg_key (mk : option (list range)) (q : N) (c : option nl_addr) : N := pg_ck q (pg_group mk c).

(* what a client sees in the cache for a question *)
Definition pg_lookup (mk : option (list range)) (cache : list (N * pentry)) (q : N) (c : option nl_addr) : option pentry :=
  p_lookup (pg_key mk q c) cache.

(* ------------------------------------------------------------------ scripted scenarios with clients
   the events of Prefetch.v with (question, client) in place of the key *)
Inductive pgev :=
| PgTick (d : Z)
| PgStore (q : N) (c : option nl_addr) (val : N) (ttl : Z) (neg : bool)  (* miss-path store on behalf of client c *)
| PgHit (q : N) (c : option nl_addr)              (* one query of client c runs to completion *)
| PgBurst (q : N) (cs : list (option nl_addr))    (* one query per listed client; they arrive together *)
| PgSend (j : nat)                               (* refresh j writes its query *)
| PgUp (j : nat) (o : poutcome).                  (* the upstream answers refresh j; it runs to completion *)

Definition pg_ev (mk : option (list range)) (e : pgev) : pev :=
  match e with
  | PgTick d => PfTick d
  | PgStore q c v ttl neg => PfStore (pg_key mk q c) v ttl neg
  | PgHit q c => PfHit (pg_key mk q c)
  | PgBurst q cs => PfFan (map (pg_key mk q) cs)
  | PgSend j => PfSend j
  | PgUp j o => PfUp j o
  end.

(* observables: Prefetch.pf_scenario of the translated script (upstream refresh queries as keys, per-hit
   answers, reserve results, in-flight set, largest number of refreshes holding one key) *)
Definition pg_scenario (mk : option (list range)) (t0 : Z) (es : list pgev) : psummary :=
  pf_scenario false t0 (map (pg_ev mk) es).

(* ------------------------------------------------------------------ the pooled request context
   state of the hit's RequestContext at the instant the refresh uses the client address *)
Inductive pg_rcslot :=
| PgRcLive (c : option nl_addr)      (* the hit has not been written out yet: rc still holds its client *)
| PgRcZeroed                         (* released: *rc = RequestContext{} *)
| PgRcReused (c' : option nl_addr).  (* taken from the pool by another request, of client c' *)

Definition pg_slot_addr (sl : pg_rcslot) : option nl_addr :=
  match sl with PgRcLive c => c | PgRcZeroed => None | PgRcReused c' => c' end.

(* the client on whose behalf the refresh asks the upstream and stores:
   reread = false: the address copied when the goroutine was spawned (the code);
   reread = true : rc.RemoteAddr read when it is needed *)
Definition pg_refresh_client (reread : bool) (spawn_c : option nl_addr) (sl : pg_rcslot) : option nl_addr :=
  if reread then pg_slot_addr sl else spawn_c.

(* cache.Store of the refresh for question q *)
Definition pg_refresh_store (reread : bool) (mk : option (list range)) (q : N) (spawn_c : option nl_addr)
    (sl : pg_rcslot) (e : pentry) (cache : list (N * pentry)) : list (N * pentry) :=
  p_cache_store (pg_key mk q (pg_refresh_client reread spawn_c sl)) e cache.
