(* Router/RouterSpec.v — executable statements of what C03 / C10 / C12 require of the bytes a client receives
   and of the queries the upstreams observe.  They are (i) what the theorems conclude about [handle]/[respond]
   and (ii) the oracle evaluated by the correspondence check on the implementation's own output. *)
From Mos Require Import Base.Prelude Codec.Name Codec.Msg Codec.Spec Router.Rules Router.Edns Router.Router.

Inductive verdict :=
| VOk
| VUndecodable            (* C03: the response does not decode *)
| VHeader                 (* C03: ID / opcode / QR / RA / RD *)
| VQuestionLocal          (* C03: question of a locally generated response *)
| VQuestionRelayed        (* C03: question of a relayed upstream reply (finding K4, fixed) *)
| VRcode                  (* C03: rcode table *)
| VOptCount               (* C12: OPT iff the query had one *)
| VOptForm                (* C12: OPT is the proxy's own, no options *)
| VUpstreamSet            (* C10: a query reached an upstream that was not selected / none expected *)
| VUpstreamWire           (* C10: forwarded question / RD / shape *)
| VUpstreamOpt            (* C12: upstream query OPT / ECS *)
| VSize.                  (* C09: transport size limit *)

Definition all_rrs (m : msg) : list rr := m_an m ++ m_ns m ++ m_ar m.

Definition is_own_opt (r : rr) : bool :=
  match r_name r, r_data r with
  | [], RRaw [] => (r_class r =? udp_size)%N && (r_ttl r =? 0)%N
  | _, _ => false
  end.

Section Spec.
  Variable matches : nat -> list N -> bool.
  Variable rules : list rule.
  Variable ecs : bool.

  (* [failed]: the selected upstream's exchange failed (error, garbage, silence); [relayed]: it replied *)
  Definition expected_rcode (m : msg) (failed : bool) : option N :=
    if unsupported m then Some RCodeNotImp else
    match m_qs m with
    | q :: _ =>
      match decide matches rules (q_name (lower_q q)) with
      | ARefused => Some RCodeRefused
      | AReject rc => Some (rc mod 16)%N
      | AForward _ => if failed then Some RCodeServFail else None   (* relayed: the upstream's rcode *)
      end
    | [] => Some RCodeNotImp
    end.

  Definition is_relayed (m : msg) (failed : bool) : bool :=
    match expected_rcode m failed with None => true | Some _ => false end.

  Definition spec_response (l : listener) (m : msg) (failed : bool) (out : list N) : verdict :=
    match unpack_msg out with
    | Ok r =>
      let h := m_hdr r in let hq := m_hdr m in
      if negb ((h_id h =? h_id hq)%N && (h_opcode h =? h_opcode hq)%N && h_resp h && h_ra h &&
               Bool.eqb (h_rd h) (h_rd hq)) then VHeader
      else if negb (match m_qs r, m_qs m with
                    | [], _ => true
                    | [qr], q :: _ => q_eq_ci qr q
                    | _, _ => false
                    end) then (if is_relayed m failed then VQuestionRelayed else VQuestionLocal)
      else if negb (match expected_rcode m failed with Some rc => (h_rcode h =? rc)%N | None => true end) then VRcode
      else if negb (Nat.eqb (count_opt (all_rrs r))
                            (if unsupported m then 0 else if has_opt m then 1 else 0)) then VOptCount
      else if negb (forallb (fun x => negb (is_opt x) || is_own_opt x) (all_rrs r)) then VOptForm
      else if negb (length out <=? size_limit l m) then VSize
      else VOk
    | _ => VUndecodable
    end.

  (* what the upstreams may observe: [obs] = (upstream index, wire without the two ID octets) *)
  Definition spec_upstream (m : msg) (client : addr) (failed : bool) (obs : list (nat * list N)) : verdict :=
    let none_expected := match obs with [] => VOk | _ => VUpstreamSet end in
    if unsupported m then none_expected else
    match m_qs m with
    | q :: _ =>
      match decide matches rules (q_name (lower_q q)) with
      | AForward u =>
        if negb (forallb (fun o => Nat.eqb (fst o) u) obs) then VUpstreamSet
        else if negb (if failed then 1 <=? length obs else Nat.eqb (length obs) 1) then VUpstreamSet
        else
          let check (o : nat * list N) : verdict :=
            match unpack_msg (0 :: 0 :: snd o)%N with
            | Ok qm =>
              if negb (match m_qs qm with
                       | [qq] => list_eqb (q_name qq) (q_name (lower_q q)) && (q_type qq =? q_type q)%N &&
                                 (q_class qq =? q_class q)%N
                       | _ => false
                       end && h_rd (m_hdr qm) && negb (h_resp (m_hdr qm)) && (h_opcode (m_hdr qm) =? 0)%N &&
                       Nat.eqb (length (m_an qm)) 0 && Nat.eqb (length (m_ns qm)) 0) then VUpstreamWire
              else match m_ar qm with
                   | [o1] => if is_opt o1 && match r_data o1 with
                                             | RRaw d => list_eqb d (if ecs then ecs_option client else [])
                                             | _ => false
                                             end then VOk else VUpstreamOpt
                   | _ => VUpstreamOpt
                   end
            | _ => VUpstreamWire
            end in
          fold_left (fun acc o => match acc with VOk => check o | _ => acc end) obs VOk
      | _ => none_expected
      end
    | [] => none_expected
    end.
End Spec.
